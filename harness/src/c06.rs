//! C06: container programs (case language: coq/theories/Run/RunC06.v)
//!   (6 ty D (op ...) (out ...))   or   (6 ty D (op ...) (out ...) (w ...))
//! (w ...): environment positions of the containers the derivatives are queried WITH RESPECT TO
//! (default: the variable declarations); any source kind / tape layout, must live on the tape.
//! The program is run FOUR times on fresh tapes, pass p using ownership / API form p of every
//! operation (operators by value / by reference in all combinations, assign in place / by
//! value, map / map_with_index, the different derivative accessors); all passes must give the
//! same canonical result.  The same program is also run element by element with individual
//! Records on another tape (the property's own oracle): values and every
//! (output element, input element) derivative must agree.  Both results are printed (the
//! model predicts both, including the tape positions).
//! Source kinds of the containers: owned (Ten / Mat), TensorAccess (TenV), the column major
//! interop view (MatV) and - op 8 - ANY view adaptor, type-erased (TenD / MatD over
//! recops::DynTen / DynMat = the crate's Box<dyn TensorMut> / Box<dyn MatrixMut> plus the closure
//! that rebuilds the adaptor, so that the by-value and in-place assign forms run on a second
//! container with the SAME kind of source).  The element-by-element oracle reads the positions
//! of such a view off the real adaptor applied to element identifiers.
//! Cross-checks inside one pass (inconsistent(code)): 63/64 at_tensor vs at_tensor_index /
//! at_matrix vs at_matrix_index; 76/77 the other query forms of Derivatives (query_ten /
//! query_mat: at(&record), Index<&Record>, Vec::from(d)[index], shape of the whole answer, None
//! outside, column-major reading) - for the queried containers (the printed form rotates with the
//! pass) AND, for every fourth output element, for EVERY container of the environment on the
//! output's list (views, interleaved from_iters outputs, intermediate results); 65/67 view() vs iter_as_records vs get_as_record; 66/68
//! constants have no derivatives; 71 derivatives_for outside the shape is None; 72-75 the
//! AsRecords iterators (len / size_hint / fused / with_index, row and column major,
//! try_get_as_record outside the size); map_with_index closures assert the index they receive.
//! Iterator SHAPES (crate::shapes, notes/ITERS.md): 6100 / 6130 / 6160 + shape from_iters / from_iter
//! through every iterator shape of the same rows; 6200 + shape AsRecords::from over shaped sources.
mod recops;

use crate::guarded;
use crate::num::{dec_list, Enc};
use crate::sx::*;
use crate::with_ty;
use easy_ml::differentiation::iterators::InvalidRecordIteratorError;
use easy_ml::differentiation::{
    Derivatives, Index, Primitive, Record, RecordMatrix, RecordTensor, WengertList,
};
use easy_ml::matrices::Matrix;
use easy_ml::numeric::extra::{Real, RealRef};
use easy_ml::tensors::views::TensorView;
use easy_ml::tensors::Tensor;
use recops::*;

#[derive(Clone)]
enum SExpr<T> {
    X,
    K(T),
    Detach(Box<SExpr<T>>),
    Un(i64, T, Box<SExpr<T>>),
    Bin(i64, Box<SExpr<T>>, Box<SExpr<T>>),
    First(Box<SExpr<T>>, Box<SExpr<T>>),
    Other,
}

enum Op<T> {
    Decl { tensor: bool, var: bool, shape: Vec<(usize, usize)>, data: Vec<T> },
    Unary { assign: bool, code: i64, c: T, a: usize },
    Binary { mode: i64, code: i64, a: usize, b: usize },
    Matmul { a: usize, b: usize },
    Map { mutating: bool, e: SExpr<T>, a: usize },
    View { kind: i64, a: usize },
    FromIter { tensor: bool, shape: Vec<(usize, usize)>, colmajor: bool, e: SExpr<T>, a: usize },
    FromIters2 { e1: SExpr<T>, e2: SExpr<T>, a: usize },
    /// generic source views (Model/ContainerViews.view_map kind params over the containers srcs)
    Select { kind: i64, params: Vec<Vec<usize>>, srcs: Vec<usize> },
    /// from_iters::<N> (N = es.len(); for N = 1 also from_iter) of the first `take` records
    Collect { tensor: bool, shape: Vec<(usize, usize)>, colmajor: bool, take: usize, es: Vec<SExpr<T>>, a: usize },
}

impl<T> Op<T> {
    fn outputs(&self) -> usize {
        match self {
            Op::FromIters2 { .. } => 2,
            Op::Collect { es, .. } => es.len(),
            _ => 1,
        }
    }
}

enum Status<A> {
    Ok(A),
    Err(Sx),
    Panic,
}

fn dec_sexpr<T: Enc>(s: &Sx, fuel: usize) -> Option<SExpr<T>> {
    if fuel == 0 {
        return None;
    }
    let v = s.list()?;
    Some(match (v.first()?.i64()?, v.len()) {
        (0, 1) => SExpr::X,
        (1, 2) => SExpr::K(T::dec(&v[1])?),
        (2, 2) => SExpr::Detach(Box::new(dec_sexpr(&v[1], fuel - 1)?)),
        (3, 4) => SExpr::Un(v[1].usize()? as i64, T::dec(&v[2])?, Box::new(dec_sexpr(&v[3], fuel - 1)?)),
        (4, 4) => SExpr::Bin(
            v[1].usize()? as i64,
            Box::new(dec_sexpr(&v[2], fuel - 1)?),
            Box::new(dec_sexpr(&v[3], fuel - 1)?),
        ),
        (5, 3) => SExpr::First(Box::new(dec_sexpr(&v[1], fuel - 1)?), Box::new(dec_sexpr(&v[2], fuel - 1)?)),
        (6, 1) => SExpr::Other,
        _ => return None,
    })
}

fn uses_index<T>(e: &SExpr<T>) -> bool {
    match e {
        SExpr::X | SExpr::K(_) | SExpr::Other => false,
        SExpr::Detach(a) | SExpr::Un(_, _, a) => uses_index(a),
        SExpr::Bin(_, a, b) => uses_index(a) || uses_index(b),
        SExpr::First(_, _) => true,
    }
}

fn dec_op<T: Enc>(s: &Sx, d: usize) -> Option<Op<T>> {
    let v = s.list()?;
    Some(match (v.first()?.i64()?, v.len()) {
        (0, 5) => {
            let (tensor, var, shape, data) = (v[1].bool()?, v[2].bool()?, v[3].pairs_usize()?, dec_list::<T>(&v[4])?);
            if tensor && shape.len() != d {
                return None;
            }
            Op::Decl { tensor, var, shape, data }
        }
        (1, 5) => Op::Unary { assign: v[1].bool()?, code: v[2].usize()? as i64, c: T::dec(&v[3])?, a: v[4].usize()? },
        (2, 5) => Op::Binary { mode: v[1].usize()? as i64, code: v[2].usize()? as i64, a: v[3].usize()?, b: v[4].usize()? },
        (3, 3) => Op::Matmul { a: v[1].usize()?, b: v[2].usize()? },
        (4, 4) => Op::Map { mutating: v[1].bool()?, e: dec_sexpr(&v[2], 12)?, a: v[3].usize()? },
        (5, 6) => {
            let (tensor, shape, colmajor, e, a) =
                (v[1].bool()?, v[2].pairs_usize()?, v[3].bool()?, dec_sexpr(&v[4], 12)?, v[5].usize()?);
            if tensor && shape.len() != d {
                return None;
            }
            Op::FromIter { tensor, shape, colmajor, e, a }
        }
        (6, 4) => Op::FromIters2 { e1: dec_sexpr(&v[1], 12)?, e2: dec_sexpr(&v[2], 12)?, a: v[3].usize()? },
        (7, 3) => Op::View { kind: v[1].usize()? as i64, a: v[2].usize()? },
        (8, 4) => Op::Select {
            kind: v[1].usize()? as i64,
            params: v[2].list()?.iter().map(|p| p.usizes()).collect::<Option<Vec<Vec<usize>>>>()?,
            srcs: v[3].usizes()?,
        },
        (9, 7) => {
            let (tensor, shape, colmajor, take, a) = (v[1].bool()?, v[2].pairs_usize()?, v[3].bool()?, v[4].usize()?, v[6].usize()?);
            let es = v[5].list()?.iter().map(|e| dec_sexpr(e, 12)).collect::<Option<Vec<SExpr<T>>>>()?;
            if (tensor && shape.len() != d) || es.len() > 4 {
                return None;
            }
            Op::Collect { tensor, shape, colmajor, take, es, a }
        }
        _ => return None,
    })
}

pub fn run(args: &[Sx]) -> Sx {
    if args.len() != 4 && args.len() != 5 {
        return bad_case();
    }
    let (Some(ty), Some(d)) = (args[0].i64(), args[1].usize()) else { return bad_case() };
    // optional: the containers the derivatives are queried WITH RESPECT TO (default: the
    // variable declarations)
    let wrt = match args.get(4) {
        None => None,
        Some(w) => match w.usizes() {
            Some(w) => Some(w),
            None => return bad_case(),
        },
    };
    with_ty!(ty, go(d, &args[2], &args[3], wrt))
}

fn go<T: Real + Primitive + Enc + Clone + PartialEq + 'static>(d: usize, prog: &Sx, outs: &Sx, wrt: Option<Vec<usize>>) -> Sx
where
    for<'t> &'t T: RealRef<T>,
{
    match d {
        1 => go_d::<T, 1>(prog, outs, wrt),
        2 => go_d::<T, 2>(prog, outs, wrt),
        3 => go_d::<T, 3>(prog, outs, wrt),
        _ => bad_case(),
    }
}

fn has_dups(sh: &[(usize, usize)]) -> bool {
    (0..sh.len()).any(|i| (i + 1..sh.len()).any(|j| sh[i].0 == sh[j].0))
}
fn shape_valid(sh: &[(usize, usize)], len: usize) -> bool {
    !has_dups(sh) && sh.iter().all(|d| d.1 != 0) && sh.iter().map(|d| d.1).product::<usize>() == len
}

// ------------------------------------------------------------------ the container run
enum CObj<'a, T: Primitive + 'static, const D: usize> {
    Ten(Ten<'a, T, D>),
    Mat(Mat<'a, T>),
    /// source: TensorAccess with the dimension order reversed
    TenV(TenV<'a, T, D>),
    /// source: column major interop view (MatrixRefTensor of a transposed TensorAccess)
    MatV(MatV<'a, T>),
    /// source: any type-erased tensor view adaptor over copies of other containers' elements
    TenD(TenD<'a, T, D>),
    /// source: any type-erased matrix view adaptor
    MatD(MatD<'a, T>),
}

impl<'a, T: Primitive + 'static, const D: usize> CObj<'a, T, D> {
    fn history(&self) -> Option<&'a WengertList<T>> {
        match self {
            CObj::Ten(c) => c.history(),
            CObj::Mat(c) => c.history(),
            CObj::TenV(c) => c.history(),
            CObj::MatV(c) => c.history(),
            CObj::TenD(c) => c.history(),
            CObj::MatD(c) => c.history(),
        }
    }
}

fn same_history<T>(a: Option<&WengertList<T>>, b: Option<&WengertList<T>>) -> bool {
    match (a, b) {
        (None, None) => true,
        (Some(x), Some(y)) => std::ptr::eq(x, y),
        _ => false,
    }
}

/// run `$body` with `$x` bound to the record tensor inside `$o`, whatever its source kind
macro_rules! on_ten {
    ($o:expr, $x:ident => $body:expr) => {
        match $o {
            CObj::Ten($x) => Some($body),
            CObj::TenV($x) => Some($body),
            CObj::TenD($x) => Some($body),
            _ => None,
        }
    };
}
macro_rules! on_mat {
    ($o:expr, $x:ident => $body:expr) => {
        match $o {
            CObj::Mat($x) => Some($body),
            CObj::MatV($x) => Some($body),
            CObj::MatD($x) => Some($body),
            _ => None,
        }
    };
}

fn retype<'a, T: Real + Primitive + Clone, S: easy_ml::tensors::views::TensorRef<(T, Index), D1>, const D1: usize, const D2: usize>(
    x: &RecordTensor<'a, T, S, D1>,
) -> Ten<'a, T, D2> {
    let sh = x.shape();
    let sh2: [(&'static str, usize); D2] = std::array::from_fn(|i| sh[i]);
    RecordTensor::from_existing(x.history(), TensorView::from(Tensor::from(sh2, x.view().iter().collect())))
}

fn eval<'a, T: Real + Primitive + Clone + 'static>(
    e: &SExpr<T>,
    x: &Record<'a, T>,
    first: bool,
    form: usize,
    other: &Record<'a, T>,
) -> Record<'a, T>
where
    for<'t> &'t T: RealRef<T>,
{
    match e {
        SExpr::X => x.clone(),
        SExpr::K(c) => Record::constant(c.clone()),
        SExpr::Detach(a) => Record::constant(eval::<T>(a, x, first, form, other).number),
        SExpr::Un(code, c, a) => {
            let r = eval::<T>(a, x, first, form, other);
            rec_un::<T>(*code, c, &r, form).expect("EASYML-VERIF-BADCASE").expect("operator panicked")
        }
        SExpr::Bin(code, a, b) => {
            let r1 = eval::<T>(a, x, first, form, other);
            let r2 = eval::<T>(b, x, first, form, other);
            rec_bin::<T>(*code, &r1, &r2, form).expect("EASYML-VERIF-BADCASE").expect("operator panicked")
        }
        SExpr::First(a, b) => {
            if first {
                eval::<T>(a, x, first, form, other)
            } else {
                eval::<T>(b, x, first, form, other)
            }
        }
        SExpr::Other => other.clone(),
    }
}

fn iter_err<'a, T, const D: usize>(e: InvalidRecordIteratorError<'a, T, D>) -> i64 {
    match e {
        InvalidRecordIteratorError::InconsistentHistory(_) => 0,
        InvalidRecordIteratorError::Empty => 1,
        InvalidRecordIteratorError::Shape { .. } => 2,
    }
}

/// None: the case is not in the language.  Otherwise (operations completed, status)
fn c_pass<'a, T: Real + Primitive + Clone + PartialEq + 'static, const D: usize>(
    list: &'a WengertList<T>,
    other: &Record<'a, T>,
    ops: &[Op<T>],
    form: usize,
) -> Option<(usize, Status<Vec<CObj<'a, T, D>>>)>
where
    for<'t> &'t T: RealRef<T>,
{
    let mut env: Vec<CObj<'a, T, D>> = Vec::new();
    for (n, op) in ops.iter().enumerate() {
        // Some(Some(Ok(objs))) | Some(Some(Err(code))) | Some(None) panic | None bad
        let r: Option<Result<Vec<CObj<'a, T, D>>, Sx>> = match op {
            Op::Decl { tensor, var, shape, data } => {
                if !shape_valid(shape, data.len()) || (!*tensor && shape.len() != 2) {
                    return None;
                }
                Some(Ok(vec![if *tensor {
                    let src = Tensor::from(shape_arr::<D>(shape), data.clone());
                    CObj::Ten(if *var { RecordTensor::variables(list, src) } else { RecordTensor::constants(src) })
                } else {
                    let src = Matrix::from_flat_row_major((shape[0].1, shape[1].1), data.clone());
                    CObj::Mat(if *var { RecordMatrix::variables(list, src) } else { RecordMatrix::constants(src) })
                }]))
            }
            Op::Unary { assign, code, c, a } => {
                let o = env.get(*a)?;
                if let Some(r) = on_ten!(o, x => ten_un::<T, _, D>(*assign, *code, c, x, form)) {
                    r?.map(|y| Ok(vec![CObj::Ten(y)]))
                } else if let Some(r) = on_mat!(o, x => mat_un::<T, _>(*assign, *code, c, x, form)) {
                    r?.map(|y| Ok(vec![CObj::Mat(y)]))
                } else {
                    return None;
                }
            }
            Op::Binary { mode, code, a, b } => {
                if *mode > 3 || (*mode == 0 && *code > 1) {
                    return None;
                }
                let (ox, oy) = (env.get(*a)?, env.get(*b)?);
                if let Some(Some(r)) = on_ten!(ox, x => on_ten!(oy, y => ten_bin::<T, _, _, D>(*mode, *code, x, y, form))) {
                    r?.map(|z| Ok(vec![CObj::Ten(z)]))
                } else if let Some(Some(r)) = on_mat!(ox, x => on_mat!(oy, y => mat_bin::<T, _, _>(*mode, *code, x, y, form))) {
                    r?.map(|z| Ok(vec![CObj::Mat(z)]))
                } else {
                    return None;
                }
            }
            Op::Matmul { a, b } => {
                let (ox, oy) = (env.get(*a)?, env.get(*b)?);
                if let Some(Some(r)) = on_ten!(ox, x => on_ten!(oy, y => {
                    if D != 2 {
                        return None;
                    }
                    // (the const generic D is retyped to 2 through from_existing)
                    let (x2, y2) = (retype::<T, _, D, 2>(x), retype::<T, _, D, 2>(y));
                    ten_matmul::<T, _, _>(&x2, &y2, form)
                })) {
                    r.map(|z| Ok(vec![CObj::Ten(retype::<T, _, 2, D>(&z))]))
                } else if let Some(Some(r)) = on_mat!(ox, x => on_mat!(oy, y => mat_matmul::<T, _, _>(x, y, form))) {
                    r.map(|z| Ok(vec![CObj::Mat(z)]))
                } else {
                    return None;
                }
            }
            Op::Map { mutating, e, a } => {
                let indexed = uses_index(e) || form % 2 == 1;
                let o = env.get(*a)?;
                if let Some(r) = on_ten!(o, x => guarded(|| {
                    let sh = x.shape();
                    let lens: [usize; D] = std::array::from_fn(|i| sh[i].1);
                    let calls = std::cell::Cell::new(0usize);
                    let expect = |i: [usize; D]| {
                        assert!(i == multi_index(&lens, calls.get()), "EASYML-VERIF map_with_index: wrong index");
                        calls.set(calls.get() + 1);
                    };
                    let r = if *mutating {
                        let mut y = x.dup();
                        let r = if indexed {
                            y.map_mut_with_index(|i, r| {
                                expect(i);
                                eval::<T>(e, &r, i.iter().all(|k| *k == 0), form, other)
                            })
                        } else {
                            y.map_mut(|r| eval::<T>(e, &r, false, form, other))
                        };
                        r.map(|_| ten_owned(&y))
                    } else if indexed {
                        x.map_with_index(|i, r| {
                            expect(i);
                            eval::<T>(e, &r, i.iter().all(|k| *k == 0), form, other)
                        })
                    } else {
                        x.map(|r| eval::<T>(e, &r, false, form, other))
                    };
                    match r {
                        Ok(y) => Ok(vec![CObj::Ten(y)]),
                        Err(_) => Err(z(0)),
                    }
                })) {
                    r
                } else if let Some(r) = on_mat!(o, x => guarded(|| {
                    let cols = x.columns();
                    let calls = std::cell::Cell::new(0usize);
                    let expect = |i: usize, j: usize| {
                        assert!((i, j) == (calls.get() / cols, calls.get() % cols), "EASYML-VERIF map_with_index: wrong index");
                        calls.set(calls.get() + 1);
                    };
                    let r = if *mutating {
                        let mut y = x.dup();
                        let r = if indexed {
                            y.map_mut_with_index(|r, i, j| {
                                expect(i, j);
                                eval::<T>(e, &r, i == 0 && j == 0, form, other)
                            })
                        } else {
                            y.map_mut(|r| eval::<T>(e, &r, false, form, other))
                        };
                        r.map(|_| mat_owned(&y))
                    } else if indexed {
                        x.map_with_index(|r, i, j| {
                            expect(i, j);
                            eval::<T>(e, &r, i == 0 && j == 0, form, other)
                        })
                    } else {
                        x.map(|r| eval::<T>(e, &r, false, form, other))
                    };
                    match r {
                        Ok(y) => Ok(vec![CObj::Mat(y)]),
                        Err(_) => Err(z(0)),
                    }
                })) {
                    r
                } else {
                    return None;
                }
            }
            Op::FromIter { tensor, shape, colmajor, e, a } => {
                let src = env.get(*a)?;
                if (*colmajor && matches!(src, CObj::Ten(_) | CObj::TenV(_) | CObj::TenD(_))) || (!*tensor && shape.len() != 2) {
                    return None;
                }
                guarded(|| {
                    // the closure is applied lazily, in the iteration order of the AsRecords iterator
                    let mut first = true;
                    let mut f = |r: Record<'a, T>| {
                        let fl = first;
                        first = false;
                        eval::<T>(e, &r, fl, form, other)
                    };
                    macro_rules! collect {
                        ($iter:expr) => {
                            if *tensor {
                                match RecordTensor::from_iter(shape_arr::<D>(shape), $iter) {
                                    Ok(y) => Ok(vec![CObj::Ten(y)]),
                                    Err(e) => Err(z(iter_err(e))),
                                }
                            } else {
                                match RecordMatrix::from_iter((shape[0].1, shape[1].1), $iter) {
                                    Ok(y) => Ok(vec![CObj::Mat(y)]),
                                    Err(e) => Err(z(iter_err(e))),
                                }
                            }
                        };
                    }
                    if let Some(r) = on_ten!(src, x => collect!(x.iter_as_records().map(&mut f))) {
                        r
                    } else {
                        on_mat!(src, x => {
                            if *colmajor {
                                collect!(x.iter_column_major_as_records().map(&mut f))
                            } else {
                                collect!(x.iter_row_major_as_records().map(&mut f))
                            }
                        })
                        .unwrap()
                    }
                })
            }
            Op::FromIters2 { e1, e2, a } => {
                let o = env.get(*a)?;
                if let Some(r) = on_ten!(o, x => guarded(|| {
                    let mut first = true;
                    let [r1, r2] = RecordTensor::from_iters::<_, 2>(
                        x.shape(),
                        x.iter_as_records().map(|r| {
                            let f = first;
                            first = false;
                            [eval::<T>(e1, &r, f, form, other), eval::<T>(e2, &r, f, form, other)]
                        }),
                    );
                    match (r1, r2) {
                        (Ok(y1), Ok(y2)) => Ok(vec![CObj::Ten(y1), CObj::Ten(y2)]),
                        (Err(e), _) => Err(z(iter_err(e))),
                        (_, Err(e)) => Err(z(iter_err(e))),
                    }
                })) {
                    r
                } else {
                    on_mat!(o, x => guarded(|| {
                        let mut first = true;
                        let [r1, r2] = RecordMatrix::from_iters::<_, 2>(
                            x.size(),
                            x.iter_row_major_as_records().map(|r| {
                                let f = first;
                                first = false;
                                [eval::<T>(e1, &r, f, form, other), eval::<T>(e2, &r, f, form, other)]
                            }),
                        );
                        match (r1, r2) {
                            (Ok(y1), Ok(y2)) => Ok(vec![CObj::Mat(y1), CObj::Mat(y2)]),
                            (Err(e), _) => Err(z(iter_err(e))),
                            (_, Err(e)) => Err(z(iter_err(e))),
                        }
                    }))
                    .unwrap()
                }
            }
            Op::View { kind, a } => {
                let o = env.get(*a)?;
                match kind {
                    // column major interop matrix over the transposed 2-d record tensor
                    0 => {
                        if D != 2 {
                            return None;
                        }
                        let x = on_ten!(o, x => retype::<T, _, D, 2>(x))?;
                        Some(Ok(vec![CObj::MatV(make_matv(&x))]))
                    }
                    // record tensor over the TensorAccess with the dimensions swapped
                    1 => {
                        if D != 2 {
                            return None;
                        }
                        let x = on_ten!(o, x => ten_owned(x))?;
                        Some(Ok(vec![CObj::TenV(make_tenv(&x))]))
                    }
                    // detached constants copy with relabelled, meaningless indexes
                    3 => {
                        if let Some(y) = on_ten!(o, x => RecordTensor::from_existing(
                            None,
                            TensorView::from(Tensor::from(x.shape(), x.view().iter().map(|(v, i)| (v, i + 5000)).collect())),
                        )) {
                            Some(Ok(vec![CObj::Ten(y)]))
                        } else {
                            let y = on_mat!(o, x => RecordMatrix::from_existing(
                                None,
                                easy_ml::matrices::views::MatrixView::from(Matrix::from_flat_row_major(
                                    (x.rows(), x.columns()),
                                    x.view().row_major_iter().map(|(v, i)| (v, i + 5000)).collect(),
                                )),
                            ))?;
                            Some(Ok(vec![CObj::Mat(y)]))
                        }
                    }
                    _ => return None,
                }
            }
            Op::Select { kind, params, srcs } => {
                let objs: Vec<&CObj<'a, T, D>> = srcs.iter().map(|&k| env.get(k)).collect::<Option<Vec<_>>>()?;
                let first = *objs.first()?;
                let hist = first.history();
                if objs.iter().any(|o| !same_history(o.history(), hist)) {
                    return None;
                }
                if on_ten!(first, _x => ()).is_some() {
                    let bases: Vec<Tensor<(T, Index), D>> = objs
                        .iter()
                        .map(|o| on_ten!(o, x => Tensor::from(x.shape(), x.view().iter().collect())))
                        .collect::<Option<Vec<_>>>()?;
                    build_tensor_view::<(T, Index), D>(*kind, params, &bases)?;
                    let (k, p) = (*kind, params.clone());
                    let rebuild: RebuildT<(T, Index), D> =
                        std::rc::Rc::new(move || build_tensor_view::<(T, Index), D>(k, &p, &bases).expect("view"));
                    Some(Ok(vec![CObj::TenD(RecordTensor::from_existing(hist, TensorView::from(DynTen::new(rebuild))))]))
                } else {
                    let bases: Vec<Matrix<(T, Index)>> = objs
                        .iter()
                        .map(|o| on_mat!(o, x => Matrix::from_flat_row_major((x.rows(), x.columns()), x.view().row_major_iter().collect())))
                        .collect::<Option<Vec<_>>>()?;
                    build_matrix_view::<(T, Index)>(*kind, params, &bases)?;
                    let (k, p) = (*kind, params.clone());
                    let rebuild: RebuildM<(T, Index)> =
                        std::rc::Rc::new(move || build_matrix_view::<(T, Index)>(k, &p, &bases).expect("view"));
                    Some(Ok(vec![CObj::MatD(RecordMatrix::from_existing(
                        hist,
                        easy_ml::matrices::views::MatrixView::from(DynMat::new(rebuild)),
                    ))]))
                }
            }
            Op::Collect { tensor, shape, colmajor, take, es, a } => {
                let src = env.get(*a)?;
                let src_tensor = on_ten!(src, _x => ()).is_some();
                if (*colmajor && src_tensor) || (!*tensor && shape.len() != 2) || es.is_empty() || es.len() > 4 {
                    return None;
                }
                guarded(|| {
                    let mut go = |recs: &mut dyn Iterator<Item = Record<'a, T>>| match es.len() {
                        1 => run_collect::<T, D, 1>(*tensor, shape, *take, es, form, other, recs),
                        2 => run_collect::<T, D, 2>(*tensor, shape, *take, es, form, other, recs),
                        3 => run_collect::<T, D, 3>(*tensor, shape, *take, es, form, other, recs),
                        _ => run_collect::<T, D, 4>(*tensor, shape, *take, es, form, other, recs),
                    };
                    if let Some(r) = on_ten!(src, x => go(&mut x.iter_as_records())) {
                        r
                    } else {
                        on_mat!(src, x => {
                            if *colmajor {
                                go(&mut x.iter_column_major_as_records())
                            } else {
                                go(&mut x.iter_row_major_as_records())
                            }
                        })
                        .unwrap()
                    }
                })
            }
        };
        match r {
            None => return Some((n, Status::Panic)),
            Some(Err(code)) => return Some((n, Status::Err(code))),
            Some(Ok(objs)) => {
                // a container collected on the foreign list is outside the case language
                for o in &objs {
                    if let Some(h) = o.history() {
                        if !std::ptr::eq(h, list) {
                            return None;
                        }
                    }
                }
                env.extend(objs)
            }
        }
    }
    Some((ops.len(), Status::Ok(env)))
}

// ---- iterator SHAPES at from_iter / from_iters (crate::shapes, notes/ITERS.md) ----
thread_local! {
    /// code of the first shape check that failed in the current case (0 = none)
    static SHAPE_FAIL: std::cell::Cell<i64> = const { std::cell::Cell::new(0) };
}
fn shape_fail(code: i64) {
    SHAPE_FAIL.with(|c| {
        if c.get() == 0 {
            c.set(code)
        }
    });
}

/// a collected container as comparable data: lengths, identity of its history, elements in
/// row-major order - or the error class
#[derive(PartialEq)]
enum Flat<T> {
    Ok(Vec<usize>, usize, Vec<(T, Index)>),
    Err(i64),
}
fn hist_id<T>(h: Option<&WengertList<T>>) -> usize {
    h.map_or(0, |h| h as *const WengertList<T> as usize)
}
fn flat_ten<'a, T: Real + Primitive + Clone + 'static, const D: usize>(r: Result<&Ten<'a, T, D>, i64>) -> Flat<T> {
    match r {
        Ok(y) => Flat::Ok(y.shape().iter().map(|d| d.1).collect(), hist_id(y.history()), y.view().iter().collect()),
        Err(c) => Flat::Err(c),
    }
}
fn flat_mat<'a, T: Real + Primitive + Clone + 'static>(r: Result<&Mat<'a, T>, i64>) -> Flat<T> {
    match r {
        Ok(y) => Flat::Ok(vec![y.rows(), y.columns()], hist_id(y.history()), y.view().row_major_iter().collect()),
        Err(c) => Flat::Err(c),
    }
}

/// The rows that were handed to from_iters::<N> (or, N = 1, from_iter) through the exact-size
/// iterator gave `canon`; the SAME rows (already evaluated: nothing is appended to a tape) handed
/// over through every other iterator shape must give the same N results.  Both entry points are
/// run for N = 1.  Codes: 6100 + shape from_iters, 6130 + shape from_iter.  Lying hints: both entry
/// points size a Vec from the LOWER bound (from_iters: `Vec::with_capacity(size_hint().0)`, even
/// for an empty stream; from_iter: `collect()`), so shapes 12 / 15 (lower bound usize::MAX) panic
/// with "capacity overflow"; for those the requirement is "canonical or a panic" (6160 + shape);
/// the lying shapes with small bounds are compared like honest ones.
fn collect_shapes<'a, T, const D: usize, const N: usize>(
    tensor: bool,
    shape: &[(usize, usize)],
    rows: &[[Record<'a, T>; N]],
    key: u64,
    canon: &[Flat<T>],
) where
    T: Real + Primitive + Clone + PartialEq + 'static,
{
    use crate::shapes::{self, with_shape};
    let flats_n = |shape_no: u8| -> Option<Vec<Flat<T>>> {
        with_shape!(shape_no, rows.to_vec(), |it| guarded(|| {
            if tensor {
                RecordTensor::from_iters::<_, N>(shape_arr::<D>(shape), it)
                    .iter()
                    .map(|r| flat_ten(r.as_ref().map_err(|e| iter_err(e.clone()))))
                    .collect()
            } else {
                RecordMatrix::from_iters::<_, N>((shape[0].1, shape[1].1), it)
                    .iter()
                    .map(|r| flat_mat(r.as_ref().map_err(|e| iter_err(e.clone()))))
                    .collect()
            }
        }))
    };
    let flats_1 = |shape_no: u8| -> Option<Vec<Flat<T>>> {
        let singles: Vec<Record<'a, T>> = rows.iter().map(|row| row[0].clone()).collect();
        with_shape!(shape_no, singles, |it| guarded(|| {
            if tensor {
                vec![flat_ten(RecordTensor::from_iter(shape_arr::<D>(shape), it).as_ref().map_err(|e| iter_err(e.clone())))]
            } else {
                vec![flat_mat(RecordMatrix::from_iter((shape[0].1, shape[1].1), it).as_ref().map_err(|e| iter_err(e.clone())))]
            }
        }))
    };
    let mut plan = shapes::plan(key, &shapes::LYING_SMALL);
    plan.push(0);
    if key % 7 == 0 {
        plan.extend([12u8, 15]);
    }
    for shape_no in plan {
        let acceptable = |r: Option<Vec<Flat<T>>>| match r {
            Some(v) => v[..] == canon[..],
            None => shapes::lower_is_max(shape_no),
        };
        if !acceptable(flats_n(shape_no)) {
            return shape_fail(if shapes::lower_is_max(shape_no) { 6160 } else { 6100 } + shape_no as i64);
        }
        if N == 1 && !acceptable(flats_1(shape_no)) {
            return shape_fail(if shapes::lower_is_max(shape_no) { 6160 } else { 6130 } + shape_no as i64);
        }
    }
}

/// from_iters::<N> over the first `take` records, closure k producing output k (for N = 1 the
/// odd forms use from_iter instead: both must agree); every failing output is reported
fn run_collect<'a, T: Real + Primitive + Clone + PartialEq + 'static, const D: usize, const N: usize>(
    tensor: bool,
    shape: &[(usize, usize)],
    take: usize,
    es: &[SExpr<T>],
    form: usize,
    other: &Record<'a, T>,
    recs: &mut dyn Iterator<Item = Record<'a, T>>,
) -> Result<Vec<CObj<'a, T, D>>, Sx>
where
    for<'t> &'t T: RealRef<T>,
{
    let mut first = true;
    let rows = recs.take(take).map(|r| {
        let fl = first;
        first = false;
        let row: [Record<'a, T>; N] = std::array::from_fn(|k| eval::<T>(&es[k], &r, fl, form, other));
        row
    });
    // every row handed over is also logged, for the iterator-shape runs below
    let log: std::cell::RefCell<Vec<[Record<'a, T>; N]>> = std::cell::RefCell::new(Vec::new());
    let rows = rows.inspect(|row| log.borrow_mut().push(row.clone()));
    let single = N == 1 && form % 2 == 1;
    let results: Vec<Result<CObj<'a, T, D>, i64>> = if tensor {
        if single {
            vec![RecordTensor::from_iter(shape_arr::<D>(shape), rows.map(|a| a.into_iter().next().unwrap()))
                .map(CObj::Ten)
                .map_err(iter_err)]
        } else {
            RecordTensor::from_iters::<_, N>(shape_arr::<D>(shape), rows)
                .into_iter()
                .map(|r| r.map(CObj::Ten).map_err(iter_err))
                .collect()
        }
    } else if single {
        vec![RecordMatrix::from_iter((shape[0].1, shape[1].1), rows.map(|a| a.into_iter().next().unwrap()))
            .map(CObj::Mat)
            .map_err(iter_err)]
    } else {
        RecordMatrix::from_iters::<_, N>((shape[0].1, shape[1].1), rows)
            .into_iter()
            .map(|r| r.map(CObj::Mat).map_err(iter_err))
            .collect()
    };
    {
        let canon: Vec<Flat<T>> = results
            .iter()
            .map(|r| match r {
                Ok(CObj::Ten(y)) => flat_ten(Ok(y)),
                Ok(CObj::Mat(y)) => flat_mat(Ok(y)),
                Ok(_) => Flat::Err(-1),
                Err(c) => Flat::Err(*c),
            })
            .collect();
        let logged = log.into_inner();
        let key = ((N as u64) * 7 + (form as u64) * 3)
            .wrapping_add((take as u64).wrapping_mul(31))
            .wrapping_add(logged.first().map_or(0, |row| row[0].index as u64))
            .wrapping_add(shape.iter().fold(0u64, |h, d| h.wrapping_mul(5).wrapping_add(d.1 as u64)));
        collect_shapes::<T, D, N>(tensor, shape, &logged, key, &canon);
    }
    if results.iter().all(|r| r.is_ok()) {
        Ok(results.into_iter().map(|r| r.ok().unwrap()).collect())
    } else {
        Err(l(results.iter().map(|r| z(match r { Ok(_) => 3, Err(c) => *c })).collect()))
    }
}

fn multi_index<const D: usize>(lens: &[usize; D], mut k: usize) -> [usize; D] {
    let mut idx = [0usize; D];
    for d in (0..D).rev() {
        idx[d] = k % lens[d];
        k /= lens[d];
    }
    idx
}

/// Every query form of `Derivatives` with respect to the record tensor `x` (whatever its source):
/// the whole tensor (at_tensor), one index at a time (at_tensor_index), one Record at a time
/// (`at`, `Index<&Record>`) and the raw vector (`Vec::from`) read at the element's index - all in
/// the VIEW order of x.  They must all agree (63 / 76); an index outside the shape gives None.
fn query_ten<'a, T, S, const D: usize>(
    d: &Derivatives<T>,
    raw: &[T],
    x: &RecordTensor<'a, T, S, D>,
    form: usize,
) -> Result<Vec<T>, i64>
where
    T: Real + Primitive + Clone + PartialEq,
    for<'t> &'t T: RealRef<T>,
    S: easy_ml::tensors::views::TensorRef<(T, Index), D>,
{
    let at_once = d.at_tensor(x);
    if at_once.shape() != x.shape() {
        return Err(76);
    }
    let whole: Vec<T> = at_once.iter().collect();
    let sh = x.shape();
    let lens: [usize; D] = std::array::from_fn(|i| sh[i].1);
    let single: Vec<T> = (0..whole.len()).map(|j| d.at_tensor_index(multi_index(&lens, j), x).unwrap()).collect();
    if whole != single {
        return Err(63);
    }
    let recs: Vec<Record<'a, T>> = x.iter_as_records().collect();
    let by_at: Vec<T> = recs.iter().map(|r| d.at(r)).collect();
    let by_index: Vec<T> = recs.iter().map(|r| d[r].clone()).collect();
    let by_raw: Vec<T> = recs.iter().map(|r| raw[r.index].clone()).collect();
    let by_pairs: Vec<T> = x.view().iter().map(|(_, i)| raw[i].clone()).collect();
    if whole != by_at || by_at != by_index || by_at != by_raw || by_at != by_pairs {
        return Err(76);
    }
    if d.at_tensor_index(lens, x).is_some() {
        return Err(76);
    }
    Ok(match form % 4 {
        0 => whole,
        1 => single,
        2 => by_at,
        _ => by_index,
    })
}

/// the same for a record matrix: at_matrix / at_matrix_index / at / Index / raw vector (64 / 77)
fn query_mat<'a, T, S>(d: &Derivatives<T>, raw: &[T], x: &RecordMatrix<'a, T, S>, form: usize) -> Result<Vec<T>, i64>
where
    T: Real + Primitive + Clone + PartialEq,
    for<'t> &'t T: RealRef<T>,
    S: easy_ml::matrices::views::MatrixRef<(T, Index)> + easy_ml::matrices::views::NoInteriorMutability,
{
    let at_once = d.at_matrix(x);
    if at_once.size() != (x.rows(), x.columns()) {
        return Err(77);
    }
    let whole: Vec<T> = at_once.row_major_iter().collect();
    let cols = x.columns();
    let single: Vec<T> = (0..whole.len()).map(|j| d.at_matrix_index(j / cols, j % cols, x).unwrap()).collect();
    if whole != single {
        return Err(64);
    }
    let recs: Vec<Record<'a, T>> = x.iter_row_major_as_records().collect();
    let by_at: Vec<T> = recs.iter().map(|r| d.at(r)).collect();
    let by_index: Vec<T> = recs.iter().map(|r| d[r].clone()).collect();
    let by_raw: Vec<T> = recs.iter().map(|r| raw[r.index].clone()).collect();
    let by_pairs: Vec<T> = x.view().row_major_iter().map(|(_, i)| raw[i].clone()).collect();
    if whole != by_at || by_at != by_index || by_at != by_raw || by_at != by_pairs {
        return Err(77);
    }
    // column major reading of the whole-matrix answer
    let rows = x.rows();
    let cm: Vec<T> = at_once.column_major_iter().collect();
    let cm_single: Vec<T> = (0..cm.len()).map(|j| d.at_matrix_index(j % rows, j / rows, x).unwrap()).collect();
    if cm != cm_single {
        return Err(77);
    }
    if d.at_matrix_index(rows, 0, x).is_some() || d.at_matrix_index(0, cols, x).is_some() {
        return Err(77);
    }
    Ok(match form % 4 {
        0 => whole,
        1 => single,
        2 => by_at,
        _ => by_index,
    })
}

fn query_any<'a, T: Real + Primitive + Clone + PartialEq + 'static, const D: usize>(
    d: &Derivatives<T>,
    raw: &[T],
    x: &CObj<'a, T, D>,
    form: usize,
) -> Result<Vec<T>, i64>
where
    for<'t> &'t T: RealRef<T>,
{
    match x {
        CObj::Ten(x) => query_ten::<T, _, D>(d, raw, x, form),
        CObj::TenV(x) => query_ten::<T, _, D>(d, raw, x, form),
        CObj::TenD(x) => query_ten::<T, _, D>(d, raw, x, form),
        CObj::Mat(x) => query_mat::<T, _>(d, raw, x, form),
        CObj::MatV(x) => query_mat::<T, _>(d, raw, x, form),
        CObj::MatD(x) => query_mat::<T, _>(d, raw, x, form),
    }
}

/// derivatives of one output element with respect to every element of every input container
/// (any source kind), read through every query form of `Derivatives`; `sweep`: also query EVERY
/// container of the environment that lives on the output's list (views, interleaved from_iters
/// outputs, intermediate results), whatever the case asked for
fn derivs_row<'a, T: Real + Primitive + Enc + Clone + PartialEq + 'static, const D: usize>(
    d: &Derivatives<T>,
    env: &[CObj<'a, T, D>],
    inputs: &[usize],
    form: usize,
    sweep: Option<&'a WengertList<T>>,
) -> Result<Sx, i64>
where
    for<'t> &'t T: RealRef<T>,
{
    let raw: Vec<T> = Vec::from(d.clone());
    let mut per_input = vec![];
    for &k in inputs {
        let vals = query_any::<T, D>(d, &raw, &env[k], form)?;
        per_input.push(l(vals.iter().map(|v| v.enc()).collect()));
    }
    if let Some(list) = sweep {
        for (k, x) in env.iter().enumerate() {
            if same_history(x.history(), Some(list)) && !inputs.contains(&k) {
                query_any::<T, D>(d, &raw, x, form + k)?;
            }
        }
    }
    Ok(l(per_input))
}

fn c_result<'a, T: Real + Primitive + Enc + Clone + PartialEq + 'static, const D: usize>(
    env: &[CObj<'a, T, D>],
    inputs: &[usize],
    o: usize,
    form: usize,
) -> Result<Sx, i64>
where
    for<'t> &'t T: RealRef<T>,
{
    let bad = l(vec![z(-2)]);
    // a container over a view is reported through an owned copy of its elements
    let owned;
    let target = match &env[o] {
        CObj::TenV(x) => {
            owned = CObj::Ten(ten_owned(x));
            &owned
        }
        CObj::MatV(x) => {
            owned = CObj::Mat(mat_owned(x));
            &owned
        }
        CObj::TenD(x) => {
            owned = CObj::Ten(ten_owned(x));
            &owned
        }
        CObj::MatD(x) => {
            owned = CObj::Mat(mat_owned(x));
            &owned
        }
        other => other,
    };
    // an index outside the shape has no derivatives (whatever the source kind)
    let outside = match &env[o] {
        CObj::Ten(c) => c.derivatives_for(c.shape().map(|d| d.1)).is_some(),
        CObj::TenV(c) => c.derivatives_for(c.shape().map(|d| d.1)).is_some(),
        CObj::TenD(c) => c.derivatives_for(c.shape().map(|d| d.1)).is_some(),
        CObj::Mat(c) => c.derivatives_for(c.rows(), 0).is_some() || c.derivatives_for(0, c.columns()).is_some(),
        CObj::MatV(c) => c.derivatives_for(c.rows(), 0).is_some() || c.derivatives_for(0, c.columns()).is_some(),
        CObj::MatD(c) => c.derivatives_for(c.rows(), 0).is_some() || c.derivatives_for(0, c.columns()).is_some(),
    };
    if outside {
        return Err(71);
    }
    Ok(match target {
        CObj::Ten(c) => {
            let sh = c.shape();
            let lens: [usize; D] = std::array::from_fn(|i| sh[i].1);
            let data: Vec<(T, Index)> = c.view().iter().collect();
            let recs: Vec<(T, Index)> = c.iter_as_records().map(|r| (r.number, r.index)).collect();
            if data != recs {
                return Err(65);
            }
            // ExactSizeIterator / FusedIterator / with_index of the AsRecords iterator
            {
                let mut it = c.iter_as_records();
                if it.len() != data.len() || it.size_hint() != (data.len(), Some(data.len())) {
                    return Err(72);
                }
                for _ in 0..data.len() {
                    it.next();
                }
                if it.len() != 0 || it.next().is_some() || it.next().is_some() {
                    return Err(72);
                }
                let indexed: Vec<([usize; D], (T, Index))> =
                    c.iter_as_records().with_index().map(|(i, r)| (i, (r.number, r.index))).collect();
                if indexed.len() != data.len()
                    || indexed.iter().enumerate().any(|(k, (i, p))| *i != multi_index(&lens, k) || *p != data[k])
                    || c.iter_as_records().with_index().len() != data.len()
                {
                    return Err(73);
                }
            }
            // AsRecords::from over an arbitrary iterator of (number, index) pairs - every iterator
            // SHAPE (crate::shapes), lying hints included: the adaptor yields exactly the wrapped
            // items as records of the given history, stops where the wrapped iterator stops, and its
            // size_hint IS the wrapped iterator's (code 6200 + shape).  (from_with_index only
            // constructs: its result is not an Iterator and a caller outside the crate cannot wrap
            // it in WithIndex, so nothing further is observable.)
            {
                use easy_ml::differentiation::iterators::AsRecords;
                let key = data.len() as u64 * 5 + data.first().map_or(0, |p| p.1 as u64) + form as u64;
                let mut plan = crate::shapes::plan(key, &crate::shapes::LYING);
                plan.push(0);
                for shape_no in plan {
                    let fine = crate::shapes::with_shape!(shape_no, data.clone(), |it| {
                        let hint = it.size_hint();
                        let records = AsRecords::from(c.history(), it);
                        let forwarded = records.size_hint() == hint;
                        // (pushed one by one: `collect` would itself trust a lying lower bound)
                        let mut got: Vec<Record<'a, T>> = Vec::new();
                        for r in records {
                            got.push(r);
                        }
                        forwarded
                            && got.len() == data.len()
                            && got.iter().zip(data.iter()).all(|(r, p)| {
                                r.number == p.0 && r.index == p.1 && same_history(r.history(), c.history())
                            })
                    });
                    let _ = AsRecords::from_with_index(c.history(), data.iter().cloned().enumerate());
                    if !fine {
                        return Err(6200 + shape_no as i64);
                    }
                }
            }
            let derivs = match c.history() {
                None => {
                    if c.derivatives().is_some() || c.derivatives_for(multi_index(&lens, 0)).is_some() {
                        return Err(66);
                    }
                    nil()
                }
                Some(_) => {
                    let mut rows = vec![];
                    // form 0/1: derivatives_for each element ; form 2/3: derivatives() at once
                    let all: Option<Vec<Derivatives<T>>> =
                        if form >= 2 { guarded(|| c.derivatives().unwrap().iter().collect()) } else { None };
                    for k in 0..data.len() {
                        let d = match &all {
                            Some(v) => Some(v[k].clone()),
                            None => guarded(|| c.derivatives_for(multi_index(&lens, k)).unwrap()),
                        };
                        rows.push(match d {
                            Some(d) => derivs_row::<T, D>(&d, env, inputs, form, if k % 4 == form { c.history() } else { None })?,
                            None => bad.clone(),
                        });
                    }
                    l(vec![l(rows)])
                }
            };
            l(vec![shape_sx(&sh), boolean(c.history().is_some()), enc_pairs(data.into_iter()), derivs])
        }
        CObj::Mat(c) => {
            let cols = c.columns();
            let data: Vec<(T, Index)> = c.view().row_major_iter().collect();
            let recs: Vec<(T, Index)> = c.iter_row_major_as_records().map(|r| (r.number, r.index)).collect();
            let single: Vec<(T, Index)> = (0..data.len())
                .map(|k| {
                    let r = c.get_as_record(k / cols, k % cols);
                    (r.number, r.index)
                })
                .collect();
            if data != recs || data != single {
                return Err(67);
            }
            {
                let mut it = c.iter_row_major_as_records();
                let mut itc = c.iter_column_major_as_records();
                if it.len() != data.len() || itc.len() != data.len() || it.size_hint() != (data.len(), Some(data.len())) {
                    return Err(74);
                }
                for _ in 0..data.len() {
                    it.next();
                    itc.next();
                }
                if it.len() != 0 || it.next().is_some() || itc.next().is_some() || itc.next().is_some() {
                    return Err(74);
                }
                let rows = c.rows();
                let indexed: Vec<((usize, usize), (T, Index))> =
                    c.iter_row_major_as_records().with_index().map(|(i, r)| (i, (r.number, r.index))).collect();
                let cindexed: Vec<((usize, usize), (T, Index))> =
                    c.iter_column_major_as_records().with_index().map(|(i, r)| (i, (r.number, r.index))).collect();
                if indexed.len() != data.len()
                    || indexed.iter().enumerate().any(|(k, (i, p))| *i != (k / cols, k % cols) || *p != data[k])
                    || cindexed.len() != data.len()
                    || cindexed.iter().enumerate().any(|(k, (i, p))| *i != (k % rows, k / rows) || *p != data[(k % rows) * cols + k / rows])
                    || c.try_get_as_record(rows, 0).is_some()
                    || c.try_get_as_record(0, cols).is_some()
                {
                    return Err(75);
                }
            }
            let derivs = match c.history() {
                None => {
                    if c.derivatives().is_some() || c.derivatives_for(0, 0).is_some() {
                        return Err(68);
                    }
                    nil()
                }
                Some(_) => {
                    let mut rows = vec![];
                    let all: Option<Vec<Derivatives<T>>> =
                        if form >= 2 { guarded(|| c.derivatives().unwrap().row_major_iter().collect()) } else { None };
                    for k in 0..data.len() {
                        let d = match &all {
                            Some(v) => Some(v[k].clone()),
                            None => guarded(|| c.derivatives_for(k / cols, k % cols).unwrap()),
                        };
                        rows.push(match d {
                            Some(d) => derivs_row::<T, D>(&d, env, inputs, form, if k % 4 == form { c.history() } else { None })?,
                            None => bad.clone(),
                        });
                    }
                    l(vec![l(rows)])
                }
            };
            l(vec![
                l(vec![l(vec![z(0), z(c.rows())]), l(vec![z(1), z(cols)])]),
                boolean(c.history().is_some()),
                enc_pairs(data.into_iter()),
                derivs,
            ])
        }
        _ => return Err(70),
    })
}

// ------------------------------------------------------------------ element by element
struct EObj<'a, T: Primitive> {
    tensor: bool,
    shape: Vec<(usize, usize)>,
    recs: Vec<Record<'a, T>>,
}

fn same_shape(tensor: bool, a: &[(usize, usize)], b: &[(usize, usize)]) -> bool {
    a.len() == b.len() && a.iter().zip(b).all(|(p, q)| (!tensor || p.0 == q.0) && p.1 == q.1)
}

fn e_pass<'a, T: Real + Primitive + Clone + PartialEq + 'static, const D: usize>(
    list: &'a WengertList<T>,
    other: &Record<'a, T>,
    ops: &[Op<T>],
) -> Option<(usize, Status<Vec<EObj<'a, T>>>)>
where
    for<'t> &'t T: RealRef<T>,
{
    let mut env: Vec<EObj<'a, T>> = Vec::new();
    for (n, op) in ops.iter().enumerate() {
        let r: Option<Vec<EObj<'a, T>>> = match op {
            Op::Decl { tensor, var, shape, data } => Some(vec![EObj {
                tensor: *tensor,
                shape: shape.clone(),
                recs: data
                    .iter()
                    .map(|x| if *var { Record::variable(x.clone(), list) } else { Record::constant(x.clone()) })
                    .collect(),
            }]),
            Op::Unary { code, c, a, .. } => {
                let x = env.get(*a)?;
                guarded(|| {
                    vec![EObj {
                        tensor: x.tensor,
                        shape: x.shape.clone(),
                        recs: x.recs.iter().map(|r| rec_un::<T>(*code, c, r, 0).unwrap().expect("panicked")).collect(),
                    }]
                })
            }
            Op::Binary { mode, code, a, b } => {
                let (x, y) = (env.get(*a)?, env.get(*b)?);
                if !same_shape(x.tensor, &x.shape, &y.shape) {
                    None
                } else {
                    guarded(|| {
                        vec![EObj {
                            tensor: x.tensor,
                            shape: if *mode == 3 { y.shape.clone() } else { x.shape.clone() },
                            recs: x
                                .recs
                                .iter()
                                .zip(y.recs.iter())
                                .map(|(p, q)| rec_bin::<T>(*code, p, q, 0).unwrap().expect("panicked"))
                                .collect(),
                        }]
                    })
                }
            }
            Op::Matmul { a, b } => {
                let (x, y) = (env.get(*a)?, env.get(*b)?);
                let (rows, inner, inner2, cols) = (x.shape[0].1, x.shape[1].1, y.shape[0].1, y.shape[1].1);
                if inner != inner2 || (x.tensor && x.shape[0].0 == y.shape[1].0) {
                    None
                } else {
                    guarded(|| {
                        let mut recs = vec![];
                        for i in 0..rows {
                            for j in 0..cols {
                                // all the products first, then their sum from the left
                                let products: Vec<Record<'a, T>> =
                                    (0..inner).map(|k| &x.recs[i * inner + k] * &y.recs[k * cols + j]).collect();
                                let mut it = products.into_iter();
                                let mut acc = it.next().unwrap();
                                for p in it {
                                    acc = acc + p;
                                }
                                recs.push(acc);
                            }
                        }
                        vec![EObj { tensor: x.tensor, shape: vec![(x.shape[0].0, rows), (y.shape[1].0, cols)], recs }]
                    })
                }
            }
            Op::Map { e, a, .. } => {
                let x = env.get(*a)?;
                guarded(|| {
                    vec![EObj {
                        tensor: x.tensor,
                        shape: x.shape.clone(),
                        recs: x.recs.iter().enumerate().map(|(k, r)| eval::<T>(e, r, k == 0, 0, other)).collect(),
                    }]
                })
            }
            Op::FromIter { tensor, shape, colmajor, e, a } => {
                let x = env.get(*a)?;
                let recs: Vec<Record<'a, T>> = if *colmajor {
                    let (rows, cols) = (x.shape[0].1, x.shape[1].1);
                    (0..cols).flat_map(|j| (0..rows).map(move |i| i * cols + j)).map(|k| x.recs[k].clone()).collect()
                } else {
                    x.recs.clone()
                };
                guarded(|| {
                    vec![EObj {
                        tensor: *tensor,
                        shape: shape.clone(),
                        recs: recs.iter().enumerate().map(|(k, r)| eval::<T>(e, r, k == 0, 0, other)).collect(),
                    }]
                })
            }
            Op::View { kind, a } => {
                let x = env.get(*a)?;
                match kind {
                    0 | 1 => {
                        let (rows, cols) = (x.shape[0].1, x.shape[1].1);
                        let recs: Vec<Record<'a, T>> =
                            (0..cols).flat_map(|j| (0..rows).map(move |i| i * cols + j)).map(|k| x.recs[k].clone()).collect();
                        let shape = if *kind == 0 { vec![(0, cols), (1, rows)] } else { vec![(x.shape[1].0, cols), (x.shape[0].0, rows)] };
                        Some(vec![EObj { tensor: *kind == 1, shape, recs }])
                    }
                    _ => Some(vec![EObj {
                        tensor: x.tensor,
                        shape: x.shape.clone(),
                        recs: x.recs.iter().map(|r| Record::constant(r.number.clone())).collect(),
                    }]),
                }
            }
            Op::Select { kind, params, srcs } => {
                // the positions are read off the REAL adaptor applied to element identifiers
                let objs: Vec<&EObj<'a, T>> = srcs.iter().map(|&k| env.get(k)).collect::<Option<Vec<_>>>()?;
                let first = *objs.first()?;
                const BASE: usize = 1 << 20;
                let name_of = |d: &'static str| crate::sx::undim(d);
                let (shape, ids): (Vec<(usize, usize)>, Vec<usize>) = if first.tensor {
                    let bases: Vec<Tensor<usize, D>> = objs
                        .iter()
                        .enumerate()
                        .map(|(k, o)| Tensor::from(shape_arr::<D>(&o.shape), (0..o.recs.len()).map(|j| k * BASE + j).collect()))
                        .collect();
                    let v = TensorView::from(build_tensor_view::<usize, D>(*kind, params, &bases)?);
                    (v.shape().iter().map(|d| (name_of(d.0), d.1)).collect(), v.iter().collect())
                } else {
                    let bases: Vec<Matrix<usize>> = objs
                        .iter()
                        .enumerate()
                        .map(|(k, o)| Matrix::from_flat_row_major((o.shape[0].1, o.shape[1].1), (0..o.recs.len()).map(|j| k * BASE + j).collect()))
                        .collect();
                    let v = easy_ml::matrices::views::MatrixView::from(build_matrix_view::<usize>(*kind, params, &bases)?);
                    (vec![(0, v.rows()), (1, v.columns())], v.row_major_iter().collect())
                };
                Some(vec![EObj {
                    tensor: first.tensor,
                    shape,
                    recs: ids.into_iter().map(|id| objs[id / BASE].recs[id % BASE].clone()).collect(),
                }])
            }
            Op::Collect { tensor, shape, colmajor, take, es, a } => {
                let x = env.get(*a)?;
                let recs: Vec<Record<'a, T>> = if *colmajor {
                    let (rows, cols) = (x.shape[0].1, x.shape[1].1);
                    (0..cols).flat_map(|j| (0..rows).map(move |i| i * cols + j)).map(|k| x.recs[k].clone()).collect()
                } else {
                    x.recs.clone()
                };
                guarded(|| {
                    let mut outs: Vec<Vec<Record<'a, T>>> = es.iter().map(|_| vec![]).collect();
                    for (k, r) in recs.iter().take(*take).enumerate() {
                        for (n, e) in es.iter().enumerate() {
                            outs[n].push(eval::<T>(e, r, k == 0, 0, other));
                        }
                    }
                    outs.into_iter().map(|recs| EObj { tensor: *tensor, shape: shape.clone(), recs }).collect()
                })
            }
            Op::FromIters2 { e1, e2, a } => {
                let x = env.get(*a)?;
                guarded(|| {
                    let mut r1 = vec![];
                    let mut r2 = vec![];
                    for (k, r) in x.recs.iter().enumerate() {
                        r1.push(eval::<T>(e1, r, k == 0, 0, other));
                        r2.push(eval::<T>(e2, r, k == 0, 0, other));
                    }
                    vec![
                        EObj { tensor: x.tensor, shape: x.shape.clone(), recs: r1 },
                        EObj { tensor: x.tensor, shape: x.shape.clone(), recs: r2 },
                    ]
                })
            }
        };
        match r {
            None => return Some((n, Status::Panic)),
            Some(objs) => env.extend(objs),
        }
    }
    Some((ops.len(), Status::Ok(env)))
}

fn e_result<'a, T: Real + Primitive + Enc + Clone + PartialEq + 'static>(env: &[EObj<'a, T>], inputs: &[usize], o: usize) -> Sx
where
    for<'t> &'t T: RealRef<T>,
{
    let c = &env[o];
    let recs = l(c
        .recs
        .iter()
        .map(|r| l(vec![r.number.enc(), boolean(r.history().is_some()), z(r.index)]))
        .collect());
    let derivs = l(c
        .recs
        .iter()
        .map(|r| match guarded(|| r.try_derivatives()) {
            None => l(vec![l(vec![z(-2)])]),
            Some(None) => nil(),
            Some(Some(d)) => l(vec![l(inputs
                .iter()
                .map(|&k| l(env[k].recs.iter().map(|x| d.at(x).enc()).collect()))
                .collect())]),
        })
        .collect());
    l(vec![recs, derivs])
}

fn outcome_sx<A>(n: usize, s: &Status<A>, payload: impl FnOnce(&A) -> Sx) -> Sx {
    l(vec![
        z(n),
        match s {
            Status::Ok(a) => ok(payload(a)),
            Status::Err(c) => err(c.clone()),
            Status::Panic => panicked(),
        },
    ])
}

// ------------------------------------------------------------------ the f64 oracle
// Exact element types cannot see a tape entry that carries an extra parent with weight 0; with
// floats an infinite adjoint makes it visible (inf * 0 = NaN lands in an unrelated input).  For
// programs made of declarations, unary kinds (except Neg, whose Record form is 0 - x: -0.0 vs
// 0.0), binary kinds (except right assign) and views, the program is therefore run once more on f64 (numbers n/d as
// floats), containers on one tape and individual Records on another, and all values and
// derivatives are compared bit for bit (any NaN equals any NaN).
fn to_f64<T: Enc>(x: &T) -> Option<f64> {
    use num_traits::ToPrimitive;
    match x.enc() {
        Sx::L(v) if v.len() == 2 => Some(v[0].int()?.to_f64()? / v[1].int()?.to_f64()?),
        _ => None,
    }
}

fn f64_ops<T: Enc>(ops: &[Op<T>]) -> Option<Vec<Op<f64>>> {
    ops.iter()
        .map(|op| {
            Some(match op {
                Op::Decl { tensor, var, shape, data } => Op::Decl {
                    tensor: *tensor,
                    var: *var,
                    shape: shape.clone(),
                    data: data.iter().map(to_f64).collect::<Option<Vec<f64>>>()?,
                },
                Op::Unary { assign, code, c, a } if *code != 0 => Op::Unary { assign: *assign, code: *code, c: to_f64(c)?, a: *a },
                // (right assign records the two parents in the other order: when they are the same
                // position - x with itself or with a view of itself - float rounding legitimately differs)
                Op::Binary { mode, code, a, b } if *mode != 3 => Op::Binary { mode: *mode, code: *code, a: *a, b: *b },
                Op::View { kind, a } => Op::View { kind: *kind, a: *a },
                Op::Select { kind, params, srcs } => Op::Select { kind: *kind, params: params.clone(), srcs: srcs.clone() },
                _ => return None,
            })
        })
        .collect()
}

fn same_bits(a: f64, b: f64) -> bool {
    (a.is_nan() && b.is_nan()) || a.to_bits() == b.to_bits()
}

/// Some(code) = the container run and the Record run differ on f64
fn f64_oracle<const D: usize>(ops: &[Op<f64>], inputs: &[usize]) -> Option<i64> {
    let list = WengertList::new();
    let other_list = WengertList::new();
    let other = Record::variable(1.0, &other_list);
    let (_, st) = c_pass::<f64, D>(&list, &other, ops, 0)?;
    let Status::Ok(cenv) = st else { return None };
    let list2 = WengertList::new();
    let other_list2 = WengertList::new();
    let other2 = Record::variable(1.0, &other_list2);
    let (_, st2) = e_pass::<f64, D>(&list2, &other2, ops)?;
    let Status::Ok(eenv) = st2 else { return Some(620) };
    for (o, (c, e)) in cenv.iter().zip(eenv.iter()).enumerate() {
        let _ = o;
        let owned;
        let c = match c {
            CObj::TenV(x) => {
                owned = CObj::Ten(ten_owned(x));
                &owned
            }
            CObj::MatV(x) => {
                owned = CObj::Mat(mat_owned(x));
                &owned
            }
            CObj::TenD(x) => {
                owned = CObj::Ten(ten_owned(x));
                &owned
            }
            CObj::MatD(x) => {
                owned = CObj::Mat(mat_owned(x));
                &owned
            }
            other => other,
        };
        // (value, derivatives with respect to every element of every input) per element
        let rows: Vec<(f64, Option<Vec<f64>>)> = match c {
            CObj::Ten(x) => {
                let sh = x.shape();
                let lens: [usize; D] = std::array::from_fn(|i| sh[i].1);
                x.view()
                    .iter()
                    .enumerate()
                    .map(|(k, (v, _))| {
                        let d = guarded(|| x.derivatives_for(multi_index(&lens, k))).flatten();
                        (v, d.map(|d| input_derivs::<D>(&d, &cenv, inputs)))
                    })
                    .collect()
            }
            CObj::Mat(x) => {
                let cols = x.columns();
                x.view()
                    .row_major_iter()
                    .enumerate()
                    .map(|(k, (v, _))| {
                        let d = guarded(|| x.derivatives_for(k / cols, k % cols)).flatten();
                        (v, d.map(|d| input_derivs::<D>(&d, &cenv, inputs)))
                    })
                    .collect()
            }
            _ => return Some(621),
        };
        if rows.len() != e.recs.len() {
            return Some(622);
        }
        for ((v, d), r) in rows.iter().zip(e.recs.iter()) {
            if !same_bits(*v, r.number) {
                return Some(623);
            }
            let ed: Option<Vec<f64>> = guarded(|| r.try_derivatives()).flatten().map(|d| {
                inputs.iter().flat_map(|&k| eenv[k].recs.iter().map(|x| d.at(x)).collect::<Vec<f64>>()).collect()
            });
            match (d, &ed) {
                (None, None) => {}
                (Some(a), Some(b)) => {
                    if a.len() != b.len() || a.iter().zip(b.iter()).any(|(p, q)| !same_bits(*p, *q)) {
                        return Some(624);
                    }
                }
                _ => return Some(625),
            }
        }
    }
    None
}

fn input_derivs<'a, const D: usize>(d: &Derivatives<f64>, env: &[CObj<'a, f64, D>], inputs: &[usize]) -> Vec<f64> {
    let mut out = vec![];
    for &k in inputs {
        match &env[k] {
            CObj::Ten(x) => out.extend(d.at_tensor(x).iter()),
            CObj::Mat(x) => out.extend(d.at_matrix(x).row_major_iter()),
            _ => {}
        }
    }
    out
}

fn go_d<T: Real + Primitive + Enc + Clone + PartialEq + 'static, const D: usize>(prog: &Sx, outs: &Sx, wrt: Option<Vec<usize>>) -> Sx
where
    for<'t> &'t T: RealRef<T>,
{
    let Some(prog) = prog.list() else { return bad_case() };
    let Some(outs) = outs.usizes() else { return bad_case() };
    let Some(ops) = prog.iter().map(|s| dec_op::<T>(s, D)).collect::<Option<Vec<Op<T>>>>() else { return bad_case() };
    // environment positions of the inputs (variable declarations)
    let mut inputs = vec![];
    let mut pos = 0;
    for op in &ops {
        match op {
            Op::Decl { var: true, .. } => {
                inputs.push(pos);
                pos += 1
            }
            other => pos += other.outputs(),
        }
    }
    let decl_inputs = inputs.clone();
    if let Some(w) = wrt {
        inputs = w;
    }
    // ---- the four container passes
    let mut canonical: Option<(Sx, Vec<Sx>)> = None; // (printed result, per-output (values, derivs) for the oracle)
    for form in 0..4 {
        let list = WengertList::new();
        let other_list = WengertList::new();
        let other = Record::variable(T::one(), &other_list);
        SHAPE_FAIL.with(|c| c.set(0));
        let Some((n, st)) = c_pass::<T, D>(&list, &other, &ops, form) else { return bad_case() };
        let shape_code = SHAPE_FAIL.with(|c| c.get());
        if shape_code != 0 {
            return inconsistent(shape_code);
        }
        let mut oracle = vec![];
        let printed = match &st {
            Status::Ok(env) => {
                if outs.iter().any(|&o| o >= env.len()) {
                    return bad_case();
                }
                // derivatives are queried with respect to containers of the program's own list
                if inputs.iter().any(|&k| k >= env.len() || !same_history(env[k].history(), Some(&list))) {
                    return bad_case();
                }
                let mut items = vec![];
                for &o in &outs {
                    match c_result::<T, D>(env, &inputs, o, form) {
                        Ok(r) => items.push(r),
                        Err(code) => return inconsistent(code),
                    }
                }
                oracle = items.clone();
                outcome_sx(n, &st, |_| l(items))
            }
            _ => outcome_sx(n, &st, |_| nil()),
        };
        match &canonical {
            None => canonical = Some((printed, oracle)),
            Some((p0, _)) => {
                if *p0 != printed {
                    return inconsistent(600 + form as i64);
                }
            }
        }
    }
    let (printed, c_items) = canonical.unwrap();
    let Some(Sx::L(pv)) = Some(printed.clone()) else { return bad_case() };
    // only a completed program is compared with the element-by-element run
    let completed = matches!(&pv[1], Sx::L(v) if v.len() == 2 && v[0] == z(0));
    if !completed {
        return printed;
    }
    // ---- the element-by-element oracle
    let list2 = WengertList::new();
    let other_list2 = WengertList::new();
    let other2 = Record::variable(T::one(), &other_list2);
    let Some((n2, st2)) = e_pass::<T, D>(&list2, &other2, &ops) else { return bad_case() };
    let Status::Ok(eenv) = &st2 else { return inconsistent(610) };
    let e_items: Vec<Sx> = outs.iter().map(|&o| e_result::<T>(eenv, &inputs, o)).collect();
    // property oracle: same values, same constant-ness, same derivatives for every
    // (output element, input element)
    for (c, e) in c_items.iter().zip(e_items.iter()) {
        let (Some(cv), Some(ev)) = (c.list(), e.list()) else { return inconsistent(611) };
        let (Some(cdata), Some(erecs), Some(ederivs)) = (cv[2].list(), ev[0].list(), ev[1].list()) else {
            return inconsistent(611);
        };
        if cdata.len() != erecs.len() {
            return inconsistent(612);
        }
        let c_is_var = cv[1] == z(1);
        for k in 0..cdata.len() {
            let (Some(cp), Some(er)) = (cdata[k].list(), erecs[k].list()) else { return inconsistent(611) };
            if cp[0] != er[0] {
                return inconsistent(613); // value differs
            }
            if (er[1] == z(1)) != c_is_var {
                return inconsistent(614); // constant-ness differs
            }
            if c_is_var {
                // cv[3] = ((rows...)) ; ederivs[k] = (row)
                let crow = cv[3].list().and_then(|v| v.first()).and_then(|r| r.list()).map(|r| r[k].clone());
                let erow = ederivs[k].list().and_then(|v| v.first()).cloned();
                if crow.is_none() || crow != erow {
                    return inconsistent(615); // a derivative differs
                }
            }
        }
    }
    let _ = n2;
    let Status::Ok(_) = &st2 else { return inconsistent(610) };
    // ---- the same program on f64 (bitwise, NaN-aware), where it applies
    if let Some(fops) = f64_ops::<T>(&ops) {
        if let Some(code) = f64_oracle::<D>(&fops, &decl_inputs) {
            return inconsistent(code);
        }
    }
    l(vec![pv[0].clone(), ok(l(vec![l(c_items), l(e_items)]))])
}
