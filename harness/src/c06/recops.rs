//! Shared by c06.rs and c15.rs (included with #[path]): the operator kinds of the case language
//! executed on real Records / RecordTensors / RecordMatrices, in every ownership form.
//! `form` selects the form; a call that panics yields `None` (inner option).
#![allow(dead_code)]
use crate::guarded;
use crate::num::Enc;
use easy_ml::differentiation::record_operations::SwappedOperations;
use easy_ml::differentiation::{Index, Primitive, Record, RecordMatrix, RecordTensor};
use easy_ml::interop::MatrixRefTensor;
use easy_ml::matrices::views::{MatrixMut, MatrixRef, MatrixView, NoInteriorMutability};
use easy_ml::matrices::Matrix;
use easy_ml::numeric::extra::{Cos, Exp, Ln, Pow, Real, RealRef, Sin, Sqrt};
use easy_ml::tensors::indexing::TensorAccess;
use easy_ml::tensors::views::{TensorMut, TensorRef, TensorView};
use easy_ml::tensors::Tensor;

pub type Ten<'a, T, const D: usize> = RecordTensor<'a, T, Tensor<(T, Index), D>, D>;
pub type Mat<'a, T> = RecordMatrix<'a, T, Matrix<(T, Index)>>;

pub type UnFn<T> = Box<dyn Fn(T) -> T>;
pub type BinFn<T> = Box<dyn Fn(T, T) -> T>;

pub fn two<T: Real + Primitive>() -> T
where
    for<'t> &'t T: RealRef<T>,
{
    T::one() + T::one()
}

/// (f, df/dx) of a unary function code (Container.unfn_of)
pub fn un_fns<T: Real + Primitive + Clone + 'static>(code: i64, c: &T) -> Option<(UnFn<T>, UnFn<T>)>
where
    for<'t> &'t T: RealRef<T>,
{
    let c1 = c.clone();
    let c2 = c.clone();
    Some(match code {
        0 => (Box::new(|x: T| -x), Box::new(|_x: T| -T::one())),
        1 => (Box::new(|x: T| x.sin()), Box::new(|x: T| x.cos())),
        2 => (Box::new(|x: T| x.cos()), Box::new(|x: T| -x.sin())),
        3 => (Box::new(|x: T| x.exp()), Box::new(|x: T| x.exp())),
        4 => (Box::new(|x: T| x.ln()), Box::new(|x: T| T::one() / x)),
        5 => (Box::new(|x: T| x.sqrt()), Box::new(|x: T| T::one() / (two::<T>() * x.sqrt()))),
        6 => (
            Box::new(|x: T| x.clone() * x.clone() * x.clone() + two::<T>() * x),
            Box::new(|x: T| (two::<T>() + T::one()) * (x.clone() * x) + two::<T>()),
        ),
        10 => (Box::new(move |x: T| x + c1.clone()), Box::new(|_x: T| T::one())),
        11 => (Box::new(move |x: T| x - c1.clone()), Box::new(|_x: T| T::one())),
        12 => (Box::new(move |x: T| x * c1.clone()), Box::new(move |_x: T| c2.clone())),
        13 => (Box::new(move |x: T| x / c1.clone()), Box::new(move |_x: T| T::one() / c2.clone())),
        14 => (
            Box::new(move |x: T| x.pow(c1.clone())),
            Box::new(move |x: T| c2.clone() * x.pow(c2.clone() - T::one())),
        ),
        15 => (
            Box::new(move |x: T| c1.clone().pow(x)),
            Box::new(move |x: T| c2.clone().pow(x) * c2.clone().ln()),
        ),
        16 => (Box::new(move |x: T| c1.clone() - x), Box::new(|_x: T| -T::one())),
        17 => (
            Box::new(move |x: T| c1.clone() / x),
            Box::new(move |x: T| -c2.clone() / (x.clone() * x)),
        ),
        _ => return None,
    })
}

/// (f, df/dx, df/dy) of a binary function code (Container.binfn_of)
pub fn bin_fns<T: Real + Primitive + Clone + 'static>(code: i64) -> Option<(BinFn<T>, BinFn<T>, BinFn<T>)>
where
    for<'t> &'t T: RealRef<T>,
{
    Some(match code {
        0 => (Box::new(|x: T, y: T| x + y), Box::new(|_x: T, _y: T| T::one()), Box::new(|_x: T, _y: T| T::one())),
        1 => (Box::new(|x: T, y: T| x - y), Box::new(|_x: T, _y: T| T::one()), Box::new(|_x: T, _y: T| -T::one())),
        2 => (Box::new(|x: T, y: T| x * y), Box::new(|_x: T, y: T| y), Box::new(|x: T, _y: T| x)),
        3 => (
            Box::new(|x: T, y: T| x / y),
            Box::new(|_x: T, y: T| T::one() / y),
            Box::new(|x: T, y: T| -x / (y.clone() * y)),
        ),
        4 => (
            Box::new(|x: T, y: T| x.pow(y)),
            Box::new(|x: T, y: T| y.clone() * x.pow(y - T::one())),
            Box::new(|x: T, y: T| x.clone().pow(y) * x.ln()),
        ),
        5 => (
            Box::new(|x: T, y: T| x.clone() * x * y.clone() + y),
            Box::new(|x: T, y: T| two::<T>() * x * y),
            Box::new(|x: T, _y: T| x.clone() * x + T::one()),
        ),
        _ => return None,
    })
}

// ------------------------------------------------------------------ scalar records
pub fn rec_un<'a, T: Real + Primitive + Clone + 'static>(
    code: i64,
    c: &T,
    x: &Record<'a, T>,
    form: usize,
) -> Option<Option<Record<'a, T>>>
where
    for<'t> &'t T: RealRef<T>,
{
    let f2 = form % 2;
    let f4 = form % 4;
    macro_rules! real {
        ($m:ident) => {
            guarded(|| if f2 == 0 { x.$m() } else { x.clone().$m() })
        };
    }
    macro_rules! num {
        ($op:tt) => {
            guarded(|| match f4 {
                0 => x $op c,
                1 => x.clone() $op c.clone(),
                2 => x $op c.clone(),
                _ => x.clone() $op c,
            })
        };
    }
    Some(match code {
        0 => guarded(|| if f2 == 0 { -x } else { -x.clone() }),
        1 => real!(sin),
        2 => real!(cos),
        3 => real!(exp),
        4 => real!(ln),
        5 => real!(sqrt),
        6 => {
            let (f, df) = un_fns::<T>(6, c)?;
            guarded(|| rehome(x.unary(f, df), &[x.history()]))
        }
        10 => num!(+),
        11 => num!(-),
        12 => num!(*),
        13 => num!(/),
        14 => guarded(|| match f4 {
            0 => x.pow(c),
            1 => x.clone().pow(c.clone()),
            2 => x.pow(c.clone()),
            _ => x.clone().pow(c),
        }),
        15 => guarded(|| match f4 {
            0 => Pow::pow(c, x),
            1 => Pow::pow(c.clone(), x.clone()),
            2 => Pow::pow(c, x.clone()),
            _ => Pow::pow(c.clone(), x),
        }),
        16 => guarded(|| match f4 {
            0 => x.sub_swapped(c),
            1 => x.clone().sub_swapped(c.clone()),
            2 => x.sub_swapped(c.clone()),
            _ => x.clone().sub_swapped(c),
        }),
        17 => guarded(|| match f4 {
            0 => x.div_swapped(c),
            1 => x.clone().div_swapped(c.clone()),
            2 => x.div_swapped(c.clone()),
            _ => x.clone().div_swapped(c),
        }),
        _ => return None,
    })
}

/// Record::unary / Record::binary return a record whose lifetime is tied to the borrow of
/// `self`; give it back the list reference of the operand it was recorded on.
pub fn rehome<'a, 'b, T: Primitive + easy_ml::numeric::Numeric>(
    r: Record<'b, T>,
    cands: &[Option<&'a easy_ml::differentiation::WengertList<T>>],
) -> Record<'a, T> {
    let h = match r.history() {
        None => None,
        Some(h) => Some(
            cands
                .iter()
                .flatten()
                .copied()
                .find(|c| std::ptr::eq(*c, h))
                .expect("result recorded on a list of neither operand"),
        ),
    };
    Record::from_existing((r.number, r.index), h)
}

pub fn rec_bin<'a, T: Real + Primitive + Clone + 'static>(
    code: i64,
    x: &Record<'a, T>,
    y: &Record<'a, T>,
    form: usize,
) -> Option<Option<Record<'a, T>>>
where
    for<'t> &'t T: RealRef<T>,
{
    let f4 = form % 4;
    macro_rules! op {
        ($op:tt) => {
            guarded(|| match f4 {
                0 => x $op y,
                1 => x.clone() $op y.clone(),
                2 => x $op y.clone(),
                _ => x.clone() $op y,
            })
        };
    }
    Some(match code {
        0 => op!(+),
        1 => op!(-),
        2 => op!(*),
        3 => op!(/),
        4 => guarded(|| match f4 {
            0 => x.pow(y),
            1 => x.clone().pow(y.clone()),
            2 => x.pow(y.clone()),
            _ => x.clone().pow(y),
        }),
        5 => {
            let (f, dx, dy) = bin_fns::<T>(5)?;
            guarded(|| rehome(x.binary(y, f, dx, dy), &[x.history(), y.history()]))
        }
        _ => return None,
    })
}

// ------------------------------------------------------------------ containers
/// a record tensor whose source is a TensorAccess (dimensions in another order) of a tensor
pub type TenV<'a, T, const D: usize> = RecordTensor<'a, T, TensorAccess<(T, Index), Tensor<(T, Index), D>, D>, D>;
/// a record matrix whose source is the interop view of a transposed TensorAccess: COLUMN MAJOR
pub type MatVSrc<T> = MatrixRefTensor<(T, Index), TensorAccess<(T, Index), Tensor<(T, Index), 2>, 2>>;
pub type MatV<'a, T> = RecordMatrix<'a, T, MatVSrc<T>>;

/// a second copy of a container with the same kind of source (Clone where the source has it)
pub trait Dup {
    fn dup(&self) -> Self;
}
impl<'a, T: Clone + Primitive, const D: usize> Dup for Ten<'a, T, D> {
    fn dup(&self) -> Self {
        self.clone()
    }
}
impl<'a, T: Clone + Primitive, const D: usize> Dup for TenV<'a, T, D> {
    fn dup(&self) -> Self {
        self.clone()
    }
}
impl<'a, T: Clone + Primitive> Dup for Mat<'a, T> {
    fn dup(&self) -> Self {
        self.clone()
    }
}
impl<'a, T: Real + Clone + Primitive> Dup for MatV<'a, T> {
    fn dup(&self) -> Self {
        // MatrixRefTensor is not Clone: rebuild the same kind of source from the elements
        // (the column major reading of the view is the underlying tensor in its own order)
        let (rows, cols) = (self.rows(), self.columns());
        let data: Vec<(T, Index)> = self.view().column_major_iter().collect();
        let base = Tensor::from([("c", cols), ("r", rows)], data);
        RecordMatrix::from_existing(
            self.history(),
            MatrixView::from(MatrixRefTensor::from(TensorAccess::from(base, ["r", "c"]))),
        )
    }
}

/// the transposed matrix of a 2-dimensional record tensor, as a column major interop view
pub fn make_matv<'a, T: Real + Clone + Primitive>(x: &Ten<'a, T, 2>) -> MatV<'a, T> {
    let sh = x.shape();
    let base = Tensor::from(sh, x.view().iter().collect());
    RecordMatrix::from_existing(
        x.history(),
        MatrixView::from(MatrixRefTensor::from(TensorAccess::from(base, [sh[1].0, sh[0].0]))),
    )
}
/// the record tensor seen through a TensorAccess with the dimension order reversed
pub fn make_tenv<'a, T: Real + Clone + Primitive, const D: usize>(x: &Ten<'a, T, D>) -> TenV<'a, T, D> {
    let sh = x.shape();
    let base = Tensor::from(sh, x.view().iter().collect());
    let names: [&'static str; D] = std::array::from_fn(|i| sh[D - 1 - i].0);
    RecordTensor::from_existing(x.history(), TensorView::from(TensorAccess::from(base, names)))
}
pub fn ten_owned<'a, T: Real + Clone + Primitive, S: TensorRef<(T, Index), D>, const D: usize>(
    x: &RecordTensor<'a, T, S, D>,
) -> Ten<'a, T, D> {
    RecordTensor::from_existing(x.history(), TensorView::from(Tensor::from(x.shape(), x.view().iter().collect())))
}
pub fn mat_owned<'a, T: Real + Clone + Primitive, S: MatrixRef<(T, Index)> + NoInteriorMutability>(
    x: &RecordMatrix<'a, T, S>,
) -> Mat<'a, T> {
    RecordMatrix::from_existing(
        x.history(),
        MatrixView::from(Matrix::from_flat_row_major((x.rows(), x.columns()), x.view().row_major_iter().collect())),
    )
}

macro_rules! ten_ty {
    ($a:lifetime, $T:ty, $S:ty, $D:ident) => { RecordTensor<$a, $T, $S, $D> };
}
macro_rules! mat_ty {
    ($a:lifetime, $T:ty, $S:ty, $D:ident) => { RecordMatrix<$a, $T, $S> };
}

/// generates the container operator kinds for one container family, generic over the SOURCE
/// of each operand; every result is returned as an owned container
macro_rules! container_ops {
    ($un:ident, $bin:ident, $ct:ident, $owned:ident, $out:ty, [$($bound:tt)*] $(, $D:ident)?) => {
        pub fn $un<'a, T, S $(, const $D: usize)?>(
            assign: bool,
            code: i64,
            c: &T,
            x: &$ct!('a, T, S, D),
            form: usize,
        ) -> Option<Option<$out>>
        where
            T: Real + Primitive + Clone + 'static,
            for<'t> &'t T: RealRef<T>,
            S: $($bound)*,
            $ct!('a, T, S, D): Dup,
        {
            let f2 = form % 2;
            let f4 = form % 4;
            if assign {
                let (f, df) = un_fns::<T>(code, c)?;
                return Some(guarded(|| {
                    if f2 == 0 {
                        let mut y = x.dup();
                        y.unary_assign(f, df);
                        $owned(&y)
                    } else {
                        $owned(&x.dup().do_unary_assign(f, df))
                    }
                }));
            }
            macro_rules! real {
                ($m:ident) => {
                    guarded(|| if f2 == 0 { x.$m() } else { x.dup().$m() })
                };
            }
            macro_rules! num {
                ($op:tt) => {
                    guarded(|| match f4 {
                        0 => x $op c,
                        1 => x.dup() $op c.clone(),
                        2 => x $op c.clone(),
                        _ => x.dup() $op c,
                    })
                };
            }
            Some(match code {
                0 => guarded(|| if f2 == 0 { -x } else { -x.dup() }),
                1 => real!(sin),
                2 => real!(cos),
                3 => real!(exp),
                4 => real!(ln),
                5 => real!(sqrt),
                6 => {
                    let (f, df) = un_fns::<T>(6, c)?;
                    guarded(|| x.unary(f, df))
                }
                10 => num!(+),
                11 => num!(-),
                12 => num!(*),
                13 => num!(/),
                14 => guarded(|| match f4 {
                    0 => x.pow(c),
                    1 => x.dup().pow(c.clone()),
                    2 => x.pow(c.clone()),
                    _ => x.dup().pow(c),
                }),
                15 => guarded(|| match f4 {
                    0 => Pow::pow(c, x),
                    1 => Pow::pow(c.clone(), x.dup()),
                    2 => Pow::pow(c, x.dup()),
                    _ => Pow::pow(c.clone(), x),
                }),
                16 => guarded(|| match f4 {
                    0 => x.sub_swapped(c),
                    1 => x.dup().sub_swapped(c.clone()),
                    2 => x.sub_swapped(c.clone()),
                    _ => x.dup().sub_swapped(c),
                }),
                17 => guarded(|| match f4 {
                    0 => x.div_swapped(c),
                    1 => x.dup().div_swapped(c.clone()),
                    2 => x.div_swapped(c.clone()),
                    _ => x.dup().div_swapped(c),
                }),
                _ => return None,
            })
        }

        pub fn $bin<'a, T, S1, S2 $(, const $D: usize)?>(
            mode: i64,
            code: i64,
            x: &$ct!('a, T, S1, D),
            y: &$ct!('a, T, S2, D),
            form: usize,
        ) -> Option<Option<$out>>
        where
            T: Real + Primitive + Clone + 'static,
            for<'t> &'t T: RealRef<T>,
            S1: $($bound)*,
            S2: $($bound)*,
            $ct!('a, T, S1, D): Dup,
            $ct!('a, T, S2, D): Dup,
        {
            let f2 = form % 2;
            let f4 = form % 4;
            let (f, dx, dy) = bin_fns::<T>(code)?;
            Some(match mode {
                0 => match code {
                    0 => guarded(|| match f4 {
                        0 => x + y,
                        1 => x.dup() + y.dup(),
                        2 => x + y.dup(),
                        _ => x.dup() + y,
                    }),
                    1 => guarded(|| match f4 {
                        0 => x - y,
                        1 => x.dup() - y.dup(),
                        2 => x - y.dup(),
                        _ => x.dup() - y,
                    }),
                    _ => return None,
                },
                1 => match (code, f2) {
                    (2, 0) => guarded(|| x.elementwise_multiply(y)),
                    (3, 0) => guarded(|| x.elementwise_divide(y)),
                    _ => guarded(|| x.binary(y, f, dx, dy)),
                },
                2 => guarded(|| {
                    if f2 == 0 {
                        let mut z = x.dup();
                        z.binary_left_assign(y, f, dx, dy);
                        $owned(&z)
                    } else {
                        $owned(&x.dup().do_binary_left_assign(y, f, dx, dy))
                    }
                }),
                3 => guarded(|| {
                    if f2 == 0 {
                        let mut z = y.dup();
                        x.binary_right_assign(&mut z, f, dx, dy);
                        $owned(&z)
                    } else {
                        $owned(&x.do_binary_right_assign(y.dup(), f, dx, dy))
                    }
                }),
                _ => return None,
            })
        }
    };
}

container_ops!(ten_un, ten_bin, ten_ty, ten_owned, Ten<'a, T, D>, [TensorMut<(T, Index), D>], D);
container_ops!(mat_un, mat_bin, mat_ty, mat_owned, Mat<'a, T>, [MatrixMut<(T, Index)> + NoInteriorMutability]);

pub fn ten_matmul<'a, T, S1, S2>(
    x: &RecordTensor<'a, T, S1, 2>,
    y: &RecordTensor<'a, T, S2, 2>,
    form: usize,
) -> Option<Ten<'a, T, 2>>
where
    T: Real + Primitive + Clone + 'static,
    for<'t> &'t T: RealRef<T>,
    S1: TensorRef<(T, Index), 2>,
    S2: TensorRef<(T, Index), 2>,
    RecordTensor<'a, T, S1, 2>: Dup,
    RecordTensor<'a, T, S2, 2>: Dup,
{
    guarded(|| match form % 4 {
        0 => x * y,
        1 => x.dup() * y.dup(),
        2 => x * y.dup(),
        _ => x.dup() * y,
    })
}

pub fn mat_matmul<'a, T, S1, S2>(
    x: &RecordMatrix<'a, T, S1>,
    y: &RecordMatrix<'a, T, S2>,
    form: usize,
) -> Option<Mat<'a, T>>
where
    T: Real + Primitive + Clone + 'static,
    for<'t> &'t T: RealRef<T>,
    S1: MatrixRef<(T, Index)> + NoInteriorMutability,
    S2: MatrixRef<(T, Index)> + NoInteriorMutability,
    RecordMatrix<'a, T, S1>: Dup,
    RecordMatrix<'a, T, S2>: Dup,
{
    guarded(|| match form % 4 {
        0 => x * y,
        1 => x.dup() * y.dup(),
        2 => x * y.dup(),
        _ => x.dup() * y,
    })
}

pub fn enc_pairs<T: Enc>(v: impl Iterator<Item = (T, Index)>) -> crate::sx::Sx {
    crate::sx::l(v.map(|(x, i)| crate::sx::l(vec![x.enc(), crate::sx::z(i)])).collect())
}
