//! Shared by c06.rs and c15.rs (included with #[path]): the operator kinds of the case language
//! executed on real Records / RecordTensors / RecordMatrices, in every ownership form.
//! `form` selects the form; a call that panics yields `None` (inner option).
#![allow(dead_code)]
use crate::guarded;
use crate::num::Enc;
use easy_ml::differentiation::record_operations::SwappedOperations;
use easy_ml::differentiation::{Index, Primitive, Record, RecordMatrix, RecordTensor};
use easy_ml::interop::MatrixRefTensor;
use easy_ml::matrices::views::{MatrixMut, MatrixRef, MatrixView, NoInteriorMutability};
use easy_ml::matrices::Matrix;
use easy_ml::numeric::extra::{Cos, Exp, Ln, Pow, Real, RealRef, Sin, Sqrt};
use easy_ml::tensors::indexing::TensorAccess;
use easy_ml::tensors::views::{TensorMut, TensorRef, TensorView};
use easy_ml::tensors::Tensor;

pub type Ten<'a, T, const D: usize> = RecordTensor<'a, T, Tensor<(T, Index), D>, D>;
pub type Mat<'a, T> = RecordMatrix<'a, T, Matrix<(T, Index)>>;

pub type UnFn<T> = Box<dyn Fn(T) -> T>;
pub type BinFn<T> = Box<dyn Fn(T, T) -> T>;

pub fn two<T: Real + Primitive>() -> T
where
    for<'t> &'t T: RealRef<T>,
{
    T::one() + T::one()
}

/// (f, df/dx) of a unary function code (Container.unfn_of)
pub fn un_fns<T: Real + Primitive + Clone + 'static>(code: i64, c: &T) -> Option<(UnFn<T>, UnFn<T>)>
where
    for<'t> &'t T: RealRef<T>,
{
    let c1 = c.clone();
    let c2 = c.clone();
    Some(match code {
        0 => (Box::new(|x: T| -x), Box::new(|_x: T| -T::one())),
        1 => (Box::new(|x: T| x.sin()), Box::new(|x: T| x.cos())),
        2 => (Box::new(|x: T| x.cos()), Box::new(|x: T| -x.sin())),
        3 => (Box::new(|x: T| x.exp()), Box::new(|x: T| x.exp())),
        4 => (Box::new(|x: T| x.ln()), Box::new(|x: T| T::one() / x)),
        5 => (Box::new(|x: T| x.sqrt()), Box::new(|x: T| T::one() / (two::<T>() * x.sqrt()))),
        6 => (
            Box::new(|x: T| x.clone() * x.clone() * x.clone() + two::<T>() * x),
            Box::new(|x: T| (two::<T>() + T::one()) * (x.clone() * x) + two::<T>()),
        ),
        10 => (Box::new(move |x: T| x + c1.clone()), Box::new(|_x: T| T::one())),
        11 => (Box::new(move |x: T| x - c1.clone()), Box::new(|_x: T| T::one())),
        12 => (Box::new(move |x: T| x * c1.clone()), Box::new(move |_x: T| c2.clone())),
        13 => (Box::new(move |x: T| x / c1.clone()), Box::new(move |_x: T| T::one() / c2.clone())),
        14 => (
            Box::new(move |x: T| x.pow(c1.clone())),
            Box::new(move |x: T| c2.clone() * x.pow(c2.clone() - T::one())),
        ),
        15 => (
            Box::new(move |x: T| c1.clone().pow(x)),
            Box::new(move |x: T| c2.clone().pow(x) * c2.clone().ln()),
        ),
        16 => (Box::new(move |x: T| c1.clone() - x), Box::new(|_x: T| -T::one())),
        17 => (
            Box::new(move |x: T| c1.clone() / x),
            Box::new(move |x: T| -c2.clone() / (x.clone() * x)),
        ),
        _ => return None,
    })
}

/// (f, df/dx, df/dy) of a binary function code (Container.binfn_of)
pub fn bin_fns<T: Real + Primitive + Clone + 'static>(code: i64) -> Option<(BinFn<T>, BinFn<T>, BinFn<T>)>
where
    for<'t> &'t T: RealRef<T>,
{
    Some(match code {
        0 => (Box::new(|x: T, y: T| x + y), Box::new(|_x: T, _y: T| T::one()), Box::new(|_x: T, _y: T| T::one())),
        1 => (Box::new(|x: T, y: T| x - y), Box::new(|_x: T, _y: T| T::one()), Box::new(|_x: T, _y: T| -T::one())),
        2 => (Box::new(|x: T, y: T| x * y), Box::new(|_x: T, y: T| y), Box::new(|x: T, _y: T| x)),
        3 => (
            Box::new(|x: T, y: T| x / y),
            Box::new(|_x: T, y: T| T::one() / y),
            Box::new(|x: T, y: T| -x / (y.clone() * y)),
        ),
        4 => (
            Box::new(|x: T, y: T| x.pow(y)),
            Box::new(|x: T, y: T| y.clone() * x.pow(y - T::one())),
            Box::new(|x: T, y: T| x.clone().pow(y) * x.ln()),
        ),
        5 => (
            Box::new(|x: T, y: T| x.clone() * x * y.clone() + y),
            Box::new(|x: T, y: T| two::<T>() * x * y),
            Box::new(|x: T, _y: T| x.clone() * x + T::one()),
        ),
        _ => return None,
    })
}

// ------------------------------------------------------------------ scalar records
pub fn rec_un<'a, T: Real + Primitive + Clone + 'static>(
    code: i64,
    c: &T,
    x: &Record<'a, T>,
    form: usize,
) -> Option<Option<Record<'a, T>>>
where
    for<'t> &'t T: RealRef<T>,
{
    let f2 = form % 2;
    let f4 = form % 4;
    macro_rules! real {
        ($m:ident) => {
            guarded(|| if f2 == 0 { x.$m() } else { x.clone().$m() })
        };
    }
    macro_rules! num {
        ($op:tt) => {
            guarded(|| match f4 {
                0 => x $op c,
                1 => x.clone() $op c.clone(),
                2 => x $op c.clone(),
                _ => x.clone() $op c,
            })
        };
    }
    Some(match code {
        0 => guarded(|| if f2 == 0 { -x } else { -x.clone() }),
        1 => real!(sin),
        2 => real!(cos),
        3 => real!(exp),
        4 => real!(ln),
        5 => real!(sqrt),
        6 => {
            let (f, df) = un_fns::<T>(6, c)?;
            guarded(|| rehome(x.unary(f, df), &[x.history()]))
        }
        10 => num!(+),
        11 => num!(-),
        12 => num!(*),
        13 => num!(/),
        14 => guarded(|| match f4 {
            0 => x.pow(c),
            1 => x.clone().pow(c.clone()),
            2 => x.pow(c.clone()),
            _ => x.clone().pow(c),
        }),
        15 => guarded(|| match f4 {
            0 => Pow::pow(c, x),
            1 => Pow::pow(c.clone(), x.clone()),
            2 => Pow::pow(c, x.clone()),
            _ => Pow::pow(c.clone(), x),
        }),
        16 => guarded(|| match f4 {
            0 => x.sub_swapped(c),
            1 => x.clone().sub_swapped(c.clone()),
            2 => x.sub_swapped(c.clone()),
            _ => x.clone().sub_swapped(c),
        }),
        17 => guarded(|| match f4 {
            0 => x.div_swapped(c),
            1 => x.clone().div_swapped(c.clone()),
            2 => x.div_swapped(c.clone()),
            _ => x.clone().div_swapped(c),
        }),
        _ => return None,
    })
}

/// Record::unary / Record::binary return a record whose lifetime is tied to the borrow of
/// `self`; give it back the list reference of the operand it was recorded on.
pub fn rehome<'a, 'b, T: Primitive + easy_ml::numeric::Numeric>(
    r: Record<'b, T>,
    cands: &[Option<&'a easy_ml::differentiation::WengertList<T>>],
) -> Record<'a, T> {
    let h = match r.history() {
        None => None,
        Some(h) => Some(
            cands
                .iter()
                .flatten()
                .copied()
                .find(|c| std::ptr::eq(*c, h))
                .expect("result recorded on a list of neither operand"),
        ),
    };
    Record::from_existing((r.number, r.index), h)
}

pub fn rec_bin<'a, T: Real + Primitive + Clone + 'static>(
    code: i64,
    x: &Record<'a, T>,
    y: &Record<'a, T>,
    form: usize,
) -> Option<Option<Record<'a, T>>>
where
    for<'t> &'t T: RealRef<T>,
{
    let f4 = form % 4;
    macro_rules! op {
        ($op:tt) => {
            guarded(|| match f4 {
                0 => x $op y,
                1 => x.clone() $op y.clone(),
                2 => x $op y.clone(),
                _ => x.clone() $op y,
            })
        };
    }
    Some(match code {
        0 => op!(+),
        1 => op!(-),
        2 => op!(*),
        3 => op!(/),
        4 => guarded(|| match f4 {
            0 => x.pow(y),
            1 => x.clone().pow(y.clone()),
            2 => x.pow(y.clone()),
            _ => x.clone().pow(y),
        }),
        5 => {
            let (f, dx, dy) = bin_fns::<T>(5)?;
            guarded(|| rehome(x.binary(y, f, dx, dy), &[x.history(), y.history()]))
        }
        _ => return None,
    })
}

// ------------------------------------------------------------------ containers
/// a record tensor whose source is a TensorAccess (dimensions in another order) of a tensor
pub type TenV<'a, T, const D: usize> = RecordTensor<'a, T, TensorAccess<(T, Index), Tensor<(T, Index), D>, D>, D>;
/// a record matrix whose source is the interop view of a transposed TensorAccess: COLUMN MAJOR
pub type MatVSrc<T> = MatrixRefTensor<(T, Index), TensorAccess<(T, Index), Tensor<(T, Index), 2>, 2>>;
pub type MatV<'a, T> = RecordMatrix<'a, T, MatVSrc<T>>;

/// a second copy of a container with the same kind of source (Clone where the source has it)
pub trait Dup {
    fn dup(&self) -> Self;
}
impl<'a, T: Clone + Primitive, const D: usize> Dup for Ten<'a, T, D> {
    fn dup(&self) -> Self {
        self.clone()
    }
}
impl<'a, T: Clone + Primitive, const D: usize> Dup for TenV<'a, T, D> {
    fn dup(&self) -> Self {
        self.clone()
    }
}
impl<'a, T: Clone + Primitive> Dup for Mat<'a, T> {
    fn dup(&self) -> Self {
        self.clone()
    }
}
impl<'a, T: Real + Clone + Primitive> Dup for MatV<'a, T> {
    fn dup(&self) -> Self {
        // MatrixRefTensor is not Clone: rebuild the same kind of source from the elements
        // (the column major reading of the view is the underlying tensor in its own order)
        let (rows, cols) = (self.rows(), self.columns());
        let data: Vec<(T, Index)> = self.view().column_major_iter().collect();
        let base = Tensor::from([("hc", cols), ("hr", rows)], data);
        RecordMatrix::from_existing(
            self.history(),
            MatrixView::from(MatrixRefTensor::from(TensorAccess::from(base, ["hr", "hc"]))),
        )
    }
}

/// the transposed matrix of a 2-dimensional record tensor, as a column major interop view
pub fn make_matv<'a, T: Real + Clone + Primitive>(x: &Ten<'a, T, 2>) -> MatV<'a, T> {
    let sh = x.shape();
    let base = Tensor::from(sh, x.view().iter().collect());
    RecordMatrix::from_existing(
        x.history(),
        MatrixView::from(MatrixRefTensor::from(TensorAccess::from(base, [sh[1].0, sh[0].0]))),
    )
}
/// the record tensor seen through a TensorAccess with the dimension order reversed
pub fn make_tenv<'a, T: Real + Clone + Primitive, const D: usize>(x: &Ten<'a, T, D>) -> TenV<'a, T, D> {
    let sh = x.shape();
    let base = Tensor::from(sh, x.view().iter().collect());
    let names: [&'static str; D] = std::array::from_fn(|i| sh[D - 1 - i].0);
    RecordTensor::from_existing(x.history(), TensorView::from(TensorAccess::from(base, names)))
}
pub fn ten_owned<'a, T: Real + Clone + Primitive, S: TensorRef<(T, Index), D>, const D: usize>(
    x: &RecordTensor<'a, T, S, D>,
) -> Ten<'a, T, D> {
    RecordTensor::from_existing(x.history(), TensorView::from(Tensor::from(x.shape(), x.view().iter().collect())))
}
pub fn mat_owned<'a, T: Real + Clone + Primitive, S: MatrixRef<(T, Index)> + NoInteriorMutability>(
    x: &RecordMatrix<'a, T, S>,
) -> Mat<'a, T> {
    RecordMatrix::from_existing(
        x.history(),
        MatrixView::from(Matrix::from_flat_row_major((x.rows(), x.columns()), x.view().row_major_iter().collect())),
    )
}

macro_rules! ten_ty {
    ($a:lifetime, $T:ty, $S:ty, $D:ident) => { RecordTensor<$a, $T, $S, $D> };
}
macro_rules! mat_ty {
    ($a:lifetime, $T:ty, $S:ty, $D:ident) => { RecordMatrix<$a, $T, $S> };
}

/// generates the container operator kinds for one container family, generic over the SOURCE
/// of each operand; every result is returned as an owned container
macro_rules! container_ops {
    ($un:ident, $bin:ident, $ct:ident, $owned:ident, $out:ty, [$($bound:tt)*] $(, $D:ident)?) => {
        pub fn $un<'a, T, S $(, const $D: usize)?>(
            assign: bool,
            code: i64,
            c: &T,
            x: &$ct!('a, T, S, D),
            form: usize,
        ) -> Option<Option<$out>>
        where
            T: Real + Primitive + Clone + 'static,
            for<'t> &'t T: RealRef<T>,
            S: $($bound)*,
            $ct!('a, T, S, D): Dup,
        {
            let f2 = form % 2;
            let f4 = form % 4;
            if assign {
                let (f, df) = un_fns::<T>(code, c)?;
                return Some(guarded(|| {
                    if f2 == 0 {
                        let mut y = x.dup();
                        y.unary_assign(f, df);
                        $owned(&y)
                    } else {
                        $owned(&x.dup().do_unary_assign(f, df))
                    }
                }));
            }
            macro_rules! real {
                ($m:ident) => {
                    guarded(|| if f2 == 0 { x.$m() } else { x.dup().$m() })
                };
            }
            macro_rules! num {
                ($op:tt) => {
                    guarded(|| match f4 {
                        0 => x $op c,
                        1 => x.dup() $op c.clone(),
                        2 => x $op c.clone(),
                        _ => x.dup() $op c,
                    })
                };
            }
            Some(match code {
                0 => guarded(|| if f2 == 0 { -x } else { -x.dup() }),
                1 => real!(sin),
                2 => real!(cos),
                3 => real!(exp),
                4 => real!(ln),
                5 => real!(sqrt),
                6 => {
                    let (f, df) = un_fns::<T>(6, c)?;
                    guarded(|| x.unary(f, df))
                }
                10 => num!(+),
                11 => num!(-),
                12 => num!(*),
                13 => num!(/),
                14 => guarded(|| match f4 {
                    0 => x.pow(c),
                    1 => x.dup().pow(c.clone()),
                    2 => x.pow(c.clone()),
                    _ => x.dup().pow(c),
                }),
                15 => guarded(|| match f4 {
                    0 => Pow::pow(c, x),
                    1 => Pow::pow(c.clone(), x.dup()),
                    2 => Pow::pow(c, x.dup()),
                    _ => Pow::pow(c.clone(), x),
                }),
                16 => guarded(|| match f4 {
                    0 => x.sub_swapped(c),
                    1 => x.dup().sub_swapped(c.clone()),
                    2 => x.sub_swapped(c.clone()),
                    _ => x.dup().sub_swapped(c),
                }),
                17 => guarded(|| match f4 {
                    0 => x.div_swapped(c),
                    1 => x.dup().div_swapped(c.clone()),
                    2 => x.div_swapped(c.clone()),
                    _ => x.dup().div_swapped(c),
                }),
                _ => return None,
            })
        }

        pub fn $bin<'a, T, S1, S2 $(, const $D: usize)?>(
            mode: i64,
            code: i64,
            x: &$ct!('a, T, S1, D),
            y: &$ct!('a, T, S2, D),
            form: usize,
        ) -> Option<Option<$out>>
        where
            T: Real + Primitive + Clone + 'static,
            for<'t> &'t T: RealRef<T>,
            S1: $($bound)*,
            S2: $($bound)*,
            $ct!('a, T, S1, D): Dup,
            $ct!('a, T, S2, D): Dup,
        {
            let f2 = form % 2;
            let f4 = form % 4;
            let (f, dx, dy) = bin_fns::<T>(code)?;
            Some(match mode {
                0 => match code {
                    0 => guarded(|| match f4 {
                        0 => x + y,
                        1 => x.dup() + y.dup(),
                        2 => x + y.dup(),
                        _ => x.dup() + y,
                    }),
                    1 => guarded(|| match f4 {
                        0 => x - y,
                        1 => x.dup() - y.dup(),
                        2 => x - y.dup(),
                        _ => x.dup() - y,
                    }),
                    _ => return None,
                },
                1 => match (code, f2) {
                    (2, 0) => guarded(|| x.elementwise_multiply(y)),
                    (3, 0) => guarded(|| x.elementwise_divide(y)),
                    _ => guarded(|| x.binary(y, f, dx, dy)),
                },
                2 => guarded(|| {
                    if f2 == 0 {
                        let mut z = x.dup();
                        z.binary_left_assign(y, f, dx, dy);
                        $owned(&z)
                    } else {
                        $owned(&x.dup().do_binary_left_assign(y, f, dx, dy))
                    }
                }),
                3 => guarded(|| {
                    if f2 == 0 {
                        let mut z = y.dup();
                        x.binary_right_assign(&mut z, f, dx, dy);
                        $owned(&z)
                    } else {
                        $owned(&x.do_binary_right_assign(y.dup(), f, dx, dy))
                    }
                }),
                _ => return None,
            })
        }
    };
}

container_ops!(ten_un, ten_bin, ten_ty, ten_owned, Ten<'a, T, D>, [TensorMut<(T, Index), D>], D);
container_ops!(mat_un, mat_bin, mat_ty, mat_owned, Mat<'a, T>, [MatrixMut<(T, Index)> + NoInteriorMutability]);

pub fn ten_matmul<'a, T, S1, S2>(
    x: &RecordTensor<'a, T, S1, 2>,
    y: &RecordTensor<'a, T, S2, 2>,
    form: usize,
) -> Option<Ten<'a, T, 2>>
where
    T: Real + Primitive + Clone + 'static,
    for<'t> &'t T: RealRef<T>,
    S1: TensorRef<(T, Index), 2>,
    S2: TensorRef<(T, Index), 2>,
    RecordTensor<'a, T, S1, 2>: Dup,
    RecordTensor<'a, T, S2, 2>: Dup,
{
    guarded(|| match form % 4 {
        0 => x * y,
        1 => x.dup() * y.dup(),
        2 => x * y.dup(),
        _ => x.dup() * y,
    })
}

pub fn mat_matmul<'a, T, S1, S2>(
    x: &RecordMatrix<'a, T, S1>,
    y: &RecordMatrix<'a, T, S2>,
    form: usize,
) -> Option<Mat<'a, T>>
where
    T: Real + Primitive + Clone + 'static,
    for<'t> &'t T: RealRef<T>,
    S1: MatrixRef<(T, Index)> + NoInteriorMutability,
    S2: MatrixRef<(T, Index)> + NoInteriorMutability,
    RecordMatrix<'a, T, S1>: Dup,
    RecordMatrix<'a, T, S2>: Dup,
{
    guarded(|| match form % 4 {
        0 => x * y,
        1 => x.dup() * y.dup(),
        2 => x * y.dup(),
        _ => x.dup() * y,
    })
}

pub fn enc_pairs<T: Enc>(v: impl Iterator<Item = (T, Index)>) -> crate::sx::Sx {
    crate::sx::l(v.map(|(x, i)| crate::sx::l(vec![x.enc(), crate::sx::z(i)])).collect())
}

// ------------------------------------------------------------------ generic source views
// A record container whose SOURCE is an arbitrary view adaptor (range / mask / reverse / rename /
// access / transpose / index+expansion / chain / stack+index ; MatrixRange / MatrixReverse /
// a quadrant of a partitioned matrix) over copies of the (number, index) elements of other
// record containers.  The adaptor is type-erased (Box<dyn TensorMut> / Box<dyn MatrixMut>, both
// implemented by the crate) and wrapped together with the closure that builds it, so that a
// second container with the SAME kind of source can be made for the by-value and assign forms.
use easy_ml::matrices::views::{IndexRange, MatrixRange, MatrixReverse, Reverse};
use easy_ml::tensors::indexing::TensorTranspose;
use easy_ml::tensors::views::{
    DataLayout, TensorChain, TensorExpansion, TensorIndex, TensorMask, TensorRange, TensorRename, TensorReverse,
    TensorStack,
};
use easy_ml::tensors::Dimension;
use std::any::Any;
use std::cell::RefCell;
use std::rc::Rc;

pub type TenBox<E, const D: usize> = Box<dyn TensorMut<E, D>>;
pub type MatBox<E> = Box<dyn MatrixMut<E>>;
pub type RebuildT<E, const D: usize> = Rc<dyn Fn() -> TenBox<E, D>>;
pub type RebuildM<E> = Rc<dyn Fn() -> MatBox<E>>;

thread_local! {
    /// the builder of the source whose shape was asked for last (see `Dup` below)
    static LAST_SRC: RefCell<Option<Box<dyn Any>>> = RefCell::new(None);
}

pub struct DynTen<E: 'static, const D: usize> {
    inner: TenBox<E, D>,
    rebuild: RebuildT<E, D>,
}
impl<E: 'static, const D: usize> DynTen<E, D> {
    pub fn new(rebuild: RebuildT<E, D>) -> Self {
        DynTen { inner: rebuild(), rebuild }
    }
}
// Safety: pure delegation to a TensorRef / TensorMut implementation of the crate.
unsafe impl<E: 'static, const D: usize> TensorRef<E, D> for DynTen<E, D> {
    fn get_reference(&self, indexes: [usize; D]) -> Option<&E> {
        self.inner.get_reference(indexes)
    }
    fn view_shape(&self) -> [(Dimension, usize); D] {
        let r: RebuildT<E, D> = self.rebuild.clone();
        LAST_SRC.with(|c| *c.borrow_mut() = Some(Box::new(r)));
        self.inner.view_shape()
    }
    unsafe fn get_reference_unchecked(&self, indexes: [usize; D]) -> &E {
        self.inner.get_reference_unchecked(indexes)
    }
    fn data_layout(&self) -> DataLayout<D> {
        self.inner.data_layout()
    }
}
unsafe impl<E: 'static, const D: usize> TensorMut<E, D> for DynTen<E, D> {
    fn get_reference_mut(&mut self, indexes: [usize; D]) -> Option<&mut E> {
        self.inner.get_reference_mut(indexes)
    }
    unsafe fn get_reference_unchecked_mut(&mut self, indexes: [usize; D]) -> &mut E {
        self.inner.get_reference_unchecked_mut(indexes)
    }
}

pub struct DynMat<E: 'static> {
    inner: MatBox<E>,
    rebuild: RebuildM<E>,
}
impl<E: 'static> DynMat<E> {
    pub fn new(rebuild: RebuildM<E>) -> Self {
        DynMat { inner: rebuild(), rebuild }
    }
}
unsafe impl<E: 'static> MatrixRef<E> for DynMat<E> {
    fn try_get_reference(&self, row: usize, column: usize) -> Option<&E> {
        self.inner.try_get_reference(row, column)
    }
    fn view_rows(&self) -> usize {
        let r: RebuildM<E> = self.rebuild.clone();
        LAST_SRC.with(|c| *c.borrow_mut() = Some(Box::new(r)));
        self.inner.view_rows()
    }
    fn view_columns(&self) -> usize {
        self.inner.view_columns()
    }
    unsafe fn get_reference_unchecked(&self, row: usize, column: usize) -> &E {
        self.inner.get_reference_unchecked(row, column)
    }
    fn data_layout(&self) -> easy_ml::matrices::views::DataLayout {
        self.inner.data_layout()
    }
}
unsafe impl<E: 'static> MatrixMut<E> for DynMat<E> {
    fn try_get_reference_mut(&mut self, row: usize, column: usize) -> Option<&mut E> {
        self.inner.try_get_reference_mut(row, column)
    }
    unsafe fn get_reference_unchecked_mut(&mut self, row: usize, column: usize) -> &mut E {
        self.inner.get_reference_unchecked_mut(row, column)
    }
}
// Safety: every adaptor boxed here is NoInteriorMutability itself
unsafe impl<E: 'static> NoInteriorMutability for DynMat<E> {}

pub type TenD<'a, T, const D: usize> = RecordTensor<'a, T, DynTen<(T, Index), D>, D>;
pub type MatD<'a, T> = RecordMatrix<'a, T, DynMat<(T, Index)>>;

impl<'a, T: Real + Clone + Primitive + 'static, const D: usize> Dup for TenD<'a, T, D> {
    fn dup(&self) -> Self {
        let _ = self.shape();
        let any = LAST_SRC.with(|c| c.borrow_mut().take()).expect("no source builder");
        let rebuild: RebuildT<(T, Index), D> = *any.downcast::<RebuildT<(T, Index), D>>().expect("source builder type");
        RecordTensor::from_existing(self.history(), TensorView::from(DynTen::new(rebuild)))
    }
}
impl<'a, T: Real + Clone + Primitive + 'static> Dup for MatD<'a, T> {
    fn dup(&self) -> Self {
        let _ = self.rows();
        let any = LAST_SRC.with(|c| c.borrow_mut().take()).expect("no source builder");
        let rebuild: RebuildM<(T, Index)> = *any.downcast::<RebuildM<(T, Index)>>().expect("source builder type");
        RecordMatrix::from_existing(self.history(), MatrixView::from(DynMat::new(rebuild)))
    }
}

/// move a value to a type that is the same one at run time (const generic D known to be a literal)
pub fn cast<A: 'static, B: 'static>(a: A) -> B {
    let b: Box<dyn Any> = Box::new(a);
    *b.downcast::<B>().expect("cast between different types")
}

/// the tensor view kinds of Model/ContainerViews.view_map over copies `bases` of the sources;
/// None = not a view of the case language (or the constructor refuses the parameters)
pub fn build_tensor_view<E: Clone + 'static, const D: usize>(
    kind: i64,
    params: &[Vec<usize>],
    bases: &[Tensor<E, D>],
) -> Option<TenBox<E, D>> {
    let dim = crate::sx::dim;
    let b = bases.first()?.clone();
    let sh = b.shape();
    let one = bases.len() == 1;
    Some(match (kind, params) {
        (0, [starts, lens]) if one && starts.len() == D && lens.len() == D => {
            let ranges: [(Dimension, IndexRange); D] = std::array::from_fn(|i| (sh[i].0, IndexRange::new(starts[i], lens[i])));
            Box::new(TensorRange::from_strict(b, ranges).ok()?)
        }
        (1, [starts, lens]) if one && starts.len() == D && lens.len() == D => {
            let masks: [(Dimension, IndexRange); D] = std::array::from_fn(|i| (sh[i].0, IndexRange::new(starts[i], lens[i])));
            Box::new(TensorMask::from_strict(b, masks).ok()?)
        }
        (2, [flags]) if one && flags.len() == D => {
            let names: Vec<Dimension> = (0..D).filter(|&i| flags[i] != 0).map(|i| sh[i].0).collect();
            Box::new(TensorReverse::from(b, &names))
        }
        (3, [names]) if one && names.len() == D => {
            let names: [Dimension; D] = std::array::from_fn(|i| dim(names[i]));
            crate::guarded(move || -> TenBox<E, D> { Box::new(TensorRename::from(b, names)) })?
        }
        (4, [perm]) if one && perm.len() == D && perm.iter().all(|&k| k < D) => {
            let names: [Dimension; D] = std::array::from_fn(|i| sh[perm[i]].0);
            Box::new(TensorAccess::try_from(b, names).ok()?)
        }
        (5, [perm]) if one && perm.len() == D && perm.iter().all(|&k| k < D) => {
            let names: [Dimension; D] = std::array::from_fn(|i| sh[perm[i]].0);
            Box::new(TensorTranspose::try_from(b, names).ok()?)
        }
        (6, [p]) if one && p.len() == 4 && p[0] < D => {
            let (k, i, pos, name) = (p[0], p[1], p[2], dim(p[3]));
            if i >= sh[k].1 || pos > D - 1 {
                return None;
            }
            match D {
                2 => {
                    let b2: Tensor<E, 2> = cast(b);
                    let idx = TensorIndex::<E, _, 2, 1>::from(b2, [(sh[k].0, i)]);
                    let v: TenBox<E, 2> = crate::guarded(move || -> TenBox<E, 2> { Box::new(TensorExpansion::<E, _, 1, 1>::from(idx, [(pos, name)])) })?;
                    cast(v)
                }
                3 => {
                    let b3: Tensor<E, 3> = cast(b);
                    let idx = TensorIndex::<E, _, 3, 1>::from(b3, [(sh[k].0, i)]);
                    let v: TenBox<E, 3> = crate::guarded(move || -> TenBox<E, 3> { Box::new(TensorExpansion::<E, _, 2, 1>::from(idx, [(pos, name)])) })?;
                    cast(v)
                }
                _ => return None,
            }
        }
        (7, [p]) if bases.len() == 2 && p.len() == 1 && p[0] < D => {
            let b2 = bases[1].clone();
            let along = sh[p[0]].0;
            crate::guarded(move || -> TenBox<E, D> { Box::new(TensorChain::<E, (_, _), D>::from((b, b2), along)) })?
        }
        (8, [p]) if bases.len() == 2 && p.len() == 2 && p[0] <= D && p[1] < 2 => {
            let b2 = bases[1].clone();
            let (pos, j) = (p[0], p[1]);
            match D {
                1 => {
                    let (x1, x2): (Tensor<E, 1>, Tensor<E, 1>) = (cast(b), cast(b2));
                    let v: TenBox<E, 1> = crate::guarded(move || -> TenBox<E, 1> {
                        let st = TensorStack::<E, (_, _), 1>::from((x1, x2), (pos, "stack"));
                        Box::new(TensorIndex::<E, _, 2, 1>::from(st, [("stack", j)]))
                    })?;
                    cast(v)
                }
                2 => {
                    let (x1, x2): (Tensor<E, 2>, Tensor<E, 2>) = (cast(b), cast(b2));
                    let v: TenBox<E, 2> = crate::guarded(move || -> TenBox<E, 2> {
                        let st = TensorStack::<E, (_, _), 2>::from((x1, x2), (pos, "stack"));
                        Box::new(TensorIndex::<E, _, 3, 1>::from(st, [("stack", j)]))
                    })?;
                    cast(v)
                }
                _ => return None,
            }
        }
        // a BORROWED source: &mut Tensor (leaked: a few elements per case)
        (9, []) if one => {
            let m: &'static mut Tensor<E, D> = Box::leak(Box::new(b));
            Box::new(m)
        }
        _ => return None,
    })
}

/// the matrix view kinds (0 MatrixRange, 2 MatrixReverse, 9 &mut Matrix, 13 a quadrant of a partitioned matrix)
pub fn build_matrix_view<E: Clone + 'static>(kind: i64, params: &[Vec<usize>], bases: &[Matrix<E>]) -> Option<MatBox<E>> {
    if bases.len() != 1 {
        return None;
    }
    let b = bases[0].clone();
    let (rows, cols) = b.size();
    Some(match (kind, params) {
        (0, [starts, lens]) if starts.len() == 2 && lens.len() == 2 => {
            if lens[0] == 0 || lens[1] == 0 || starts[0] + lens[0] > rows || starts[1] + lens[1] > cols {
                return None;
            }
            Box::new(MatrixRange::from(b, IndexRange::new(starts[0], lens[0]), IndexRange::new(starts[1], lens[1])))
        }
        (2, [flags]) if flags.len() == 2 => {
            Box::new(MatrixReverse::from(b, Reverse { rows: flags[0] != 0, columns: flags[1] != 0 }))
        }
        (9, []) => {
            let m: &'static mut Matrix<E> = Box::leak(Box::new(b));
            Box::new(m)
        }
        (13, [p]) if p.len() == 3 => {
            let (r, c, q) = (p[0], p[1], p[2]);
            if r == 0 || r >= rows || c == 0 || c >= cols || q > 3 {
                return None;
            }
            // the parts borrow the partitioned matrix: it is leaked (a few elements per case)
            let m: &'static mut Matrix<E> = Box::leak(Box::new(b));
            let quadrants = m.partition_quadrants(r, c);
            let part = match q {
                0 => quadrants.top_left,
                1 => quadrants.top_right,
                2 => quadrants.bottom_left,
                _ => quadrants.bottom_right,
            };
            Box::new(part.source())
        }
        _ => return None,
    })
}
