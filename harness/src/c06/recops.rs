//! Shared by c06.rs and c15.rs (included with #[path]): the operator kinds of the case language
//! executed on real Records / RecordTensors / RecordMatrices, in every ownership form.
//! `form` selects the form; a call that panics yields `None` (inner option).
#![allow(dead_code)]
use crate::guarded;
use crate::num::Enc;
use easy_ml::differentiation::record_operations::SwappedOperations;
use easy_ml::differentiation::{Index, Primitive, Record, RecordMatrix, RecordTensor};
use easy_ml::matrices::Matrix;
use easy_ml::numeric::extra::{Cos, Exp, Ln, Pow, Real, RealRef, Sin, Sqrt};
use easy_ml::tensors::Tensor;

pub type Ten<'a, T, const D: usize> = RecordTensor<'a, T, Tensor<(T, Index), D>, D>;
pub type Mat<'a, T> = RecordMatrix<'a, T, Matrix<(T, Index)>>;

pub type UnFn<T> = Box<dyn Fn(T) -> T>;
pub type BinFn<T> = Box<dyn Fn(T, T) -> T>;

pub fn two<T: Real + Primitive>() -> T
where
    for<'t> &'t T: RealRef<T>,
{
    T::one() + T::one()
}

/// (f, df/dx) of a unary function code (Container.unfn_of)
pub fn un_fns<T: Real + Primitive + Clone + 'static>(code: i64, c: &T) -> Option<(UnFn<T>, UnFn<T>)>
where
    for<'t> &'t T: RealRef<T>,
{
    let c1 = c.clone();
    let c2 = c.clone();
    Some(match code {
        0 => (Box::new(|x: T| -x), Box::new(|_x: T| -T::one())),
        1 => (Box::new(|x: T| x.sin()), Box::new(|x: T| x.cos())),
        2 => (Box::new(|x: T| x.cos()), Box::new(|x: T| -x.sin())),
        3 => (Box::new(|x: T| x.exp()), Box::new(|x: T| x.exp())),
        4 => (Box::new(|x: T| x.ln()), Box::new(|x: T| T::one() / x)),
        5 => (Box::new(|x: T| x.sqrt()), Box::new(|x: T| T::one() / (two::<T>() * x.sqrt()))),
        6 => (
            Box::new(|x: T| x.clone() * x.clone() * x.clone() + two::<T>() * x),
            Box::new(|x: T| (two::<T>() + T::one()) * (x.clone() * x) + two::<T>()),
        ),
        10 => (Box::new(move |x: T| x + c1.clone()), Box::new(|_x: T| T::one())),
        11 => (Box::new(move |x: T| x - c1.clone()), Box::new(|_x: T| T::one())),
        12 => (Box::new(move |x: T| x * c1.clone()), Box::new(move |_x: T| c2.clone())),
        13 => (Box::new(move |x: T| x / c1.clone()), Box::new(move |_x: T| T::one() / c2.clone())),
        14 => (
            Box::new(move |x: T| x.pow(c1.clone())),
            Box::new(move |x: T| c2.clone() * x.pow(c2.clone() - T::one())),
        ),
        15 => (
            Box::new(move |x: T| c1.clone().pow(x)),
            Box::new(move |x: T| c2.clone().pow(x) * c2.clone().ln()),
        ),
        16 => (Box::new(move |x: T| c1.clone() - x), Box::new(|_x: T| -T::one())),
        17 => (
            Box::new(move |x: T| c1.clone() / x),
            Box::new(move |x: T| -c2.clone() / (x.clone() * x)),
        ),
        _ => return None,
    })
}

/// (f, df/dx, df/dy) of a binary function code (Container.binfn_of)
pub fn bin_fns<T: Real + Primitive + Clone + 'static>(code: i64) -> Option<(BinFn<T>, BinFn<T>, BinFn<T>)>
where
    for<'t> &'t T: RealRef<T>,
{
    Some(match code {
        0 => (Box::new(|x: T, y: T| x + y), Box::new(|_x: T, _y: T| T::one()), Box::new(|_x: T, _y: T| T::one())),
        1 => (Box::new(|x: T, y: T| x - y), Box::new(|_x: T, _y: T| T::one()), Box::new(|_x: T, _y: T| -T::one())),
        2 => (Box::new(|x: T, y: T| x * y), Box::new(|_x: T, y: T| y), Box::new(|x: T, _y: T| x)),
        3 => (
            Box::new(|x: T, y: T| x / y),
            Box::new(|_x: T, y: T| T::one() / y),
            Box::new(|x: T, y: T| -x / (y.clone() * y)),
        ),
        4 => (
            Box::new(|x: T, y: T| x.pow(y)),
            Box::new(|x: T, y: T| y.clone() * x.pow(y - T::one())),
            Box::new(|x: T, y: T| x.clone().pow(y) * x.ln()),
        ),
        5 => (
            Box::new(|x: T, y: T| x.clone() * x * y.clone() + y),
            Box::new(|x: T, y: T| two::<T>() * x * y),
            Box::new(|x: T, _y: T| x.clone() * x + T::one()),
        ),
        _ => return None,
    })
}

// ------------------------------------------------------------------ scalar records
pub fn rec_un<'a, T: Real + Primitive + Clone + 'static>(
    code: i64,
    c: &T,
    x: &Record<'a, T>,
    form: usize,
) -> Option<Option<Record<'a, T>>>
where
    for<'t> &'t T: RealRef<T>,
{
    let f2 = form % 2;
    let f4 = form % 4;
    macro_rules! real {
        ($m:ident) => {
            guarded(|| if f2 == 0 { x.$m() } else { x.clone().$m() })
        };
    }
    macro_rules! num {
        ($op:tt) => {
            guarded(|| match f4 {
                0 => x $op c,
                1 => x.clone() $op c.clone(),
                2 => x $op c.clone(),
                _ => x.clone() $op c,
            })
        };
    }
    Some(match code {
        0 => guarded(|| if f2 == 0 { -x } else { -x.clone() }),
        1 => real!(sin),
        2 => real!(cos),
        3 => real!(exp),
        4 => real!(ln),
        5 => real!(sqrt),
        6 => {
            let (f, df) = un_fns::<T>(6, c)?;
            guarded(|| rehome(x.unary(f, df), &[x.history()]))
        }
        10 => num!(+),
        11 => num!(-),
        12 => num!(*),
        13 => num!(/),
        14 => guarded(|| match f4 {
            0 => x.pow(c),
            1 => x.clone().pow(c.clone()),
            2 => x.pow(c.clone()),
            _ => x.clone().pow(c),
        }),
        15 => guarded(|| match f4 {
            0 => Pow::pow(c, x),
            1 => Pow::pow(c.clone(), x.clone()),
            2 => Pow::pow(c, x.clone()),
            _ => Pow::pow(c.clone(), x),
        }),
        16 => guarded(|| match f4 {
            0 => x.sub_swapped(c),
            1 => x.clone().sub_swapped(c.clone()),
            2 => x.sub_swapped(c.clone()),
            _ => x.clone().sub_swapped(c),
        }),
        17 => guarded(|| match f4 {
            0 => x.div_swapped(c),
            1 => x.clone().div_swapped(c.clone()),
            2 => x.div_swapped(c.clone()),
            _ => x.clone().div_swapped(c),
        }),
        _ => return None,
    })
}

/// Record::unary / Record::binary return a record whose lifetime is tied to the borrow of
/// `self`; give it back the list reference of the operand it was recorded on.
pub fn rehome<'a, 'b, T: Primitive + easy_ml::numeric::Numeric>(
    r: Record<'b, T>,
    cands: &[Option<&'a easy_ml::differentiation::WengertList<T>>],
) -> Record<'a, T> {
    let h = match r.history() {
        None => None,
        Some(h) => Some(
            cands
                .iter()
                .flatten()
                .copied()
                .find(|c| std::ptr::eq(*c, h))
                .expect("result recorded on a list of neither operand"),
        ),
    };
    Record::from_existing((r.number, r.index), h)
}

pub fn rec_bin<'a, T: Real + Primitive + Clone + 'static>(
    code: i64,
    x: &Record<'a, T>,
    y: &Record<'a, T>,
    form: usize,
) -> Option<Option<Record<'a, T>>>
where
    for<'t> &'t T: RealRef<T>,
{
    let f4 = form % 4;
    macro_rules! op {
        ($op:tt) => {
            guarded(|| match f4 {
                0 => x $op y,
                1 => x.clone() $op y.clone(),
                2 => x $op y.clone(),
                _ => x.clone() $op y,
            })
        };
    }
    Some(match code {
        0 => op!(+),
        1 => op!(-),
        2 => op!(*),
        3 => op!(/),
        4 => guarded(|| match f4 {
            0 => x.pow(y),
            1 => x.clone().pow(y.clone()),
            2 => x.pow(y.clone()),
            _ => x.clone().pow(y),
        }),
        5 => {
            let (f, dx, dy) = bin_fns::<T>(5)?;
            guarded(|| rehome(x.binary(y, f, dx, dy), &[x.history(), y.history()]))
        }
        _ => return None,
    })
}

// ------------------------------------------------------------------ containers
/// generates the container operator kinds for one container type
macro_rules! container_ops {
    ($un:ident, $bin:ident, $ty:ty $(, $D:ident)?) => {
        pub fn $un<'a, T: Real + Primitive + Clone + 'static $(, const $D: usize)?>(
            assign: bool,
            code: i64,
            c: &T,
            x: &$ty,
            form: usize,
        ) -> Option<Option<$ty>>
        where
            for<'t> &'t T: RealRef<T>,
        {
            let f2 = form % 2;
            let f4 = form % 4;
            if assign {
                let (f, df) = un_fns::<T>(code, c)?;
                return Some(guarded(|| {
                    if f2 == 0 {
                        let mut y = x.clone();
                        y.unary_assign(f, df);
                        y
                    } else {
                        x.clone().do_unary_assign(f, df)
                    }
                }));
            }
            macro_rules! real {
                ($m:ident) => {
                    guarded(|| if f2 == 0 { x.$m() } else { x.clone().$m() })
                };
            }
            macro_rules! num {
                ($op:tt) => {
                    guarded(|| match f4 {
                        0 => x $op c,
                        1 => x.clone() $op c.clone(),
                        2 => x $op c.clone(),
                        _ => x.clone() $op c,
                    })
                };
            }
            Some(match code {
                0 => guarded(|| if f2 == 0 { -x } else { -x.clone() }),
                1 => real!(sin),
                2 => real!(cos),
                3 => real!(exp),
                4 => real!(ln),
                5 => real!(sqrt),
                6 => {
                    let (f, df) = un_fns::<T>(6, c)?;
                    guarded(|| x.unary(f, df))
                }
                10 => num!(+),
                11 => num!(-),
                12 => num!(*),
                13 => num!(/),
                14 => guarded(|| match f4 {
                    0 => x.pow(c),
                    1 => x.clone().pow(c.clone()),
                    2 => x.pow(c.clone()),
                    _ => x.clone().pow(c),
                }),
                15 => guarded(|| match f4 {
                    0 => Pow::pow(c, x),
                    1 => Pow::pow(c.clone(), x.clone()),
                    2 => Pow::pow(c, x.clone()),
                    _ => Pow::pow(c.clone(), x),
                }),
                16 => guarded(|| match f4 {
                    0 => x.sub_swapped(c),
                    1 => x.clone().sub_swapped(c.clone()),
                    2 => x.sub_swapped(c.clone()),
                    _ => x.clone().sub_swapped(c),
                }),
                17 => guarded(|| match f4 {
                    0 => x.div_swapped(c),
                    1 => x.clone().div_swapped(c.clone()),
                    2 => x.div_swapped(c.clone()),
                    _ => x.clone().div_swapped(c),
                }),
                _ => return None,
            })
        }

        pub fn $bin<'a, T: Real + Primitive + Clone + 'static $(, const $D: usize)?>(
            mode: i64,
            code: i64,
            x: &$ty,
            y: &$ty,
            form: usize,
        ) -> Option<Option<$ty>>
        where
            for<'t> &'t T: RealRef<T>,
        {
            let f2 = form % 2;
            let f4 = form % 4;
            let (f, dx, dy) = bin_fns::<T>(code)?;
            Some(match mode {
                0 => match code {
                    0 => guarded(|| match f4 {
                        0 => x + y,
                        1 => x.clone() + y.clone(),
                        2 => x + y.clone(),
                        _ => x.clone() + y,
                    }),
                    1 => guarded(|| match f4 {
                        0 => x - y,
                        1 => x.clone() - y.clone(),
                        2 => x - y.clone(),
                        _ => x.clone() - y,
                    }),
                    _ => return None,
                },
                1 => match (code, f2) {
                    (2, 0) => guarded(|| x.elementwise_multiply(y)),
                    (3, 0) => guarded(|| x.elementwise_divide(y)),
                    _ => guarded(|| x.binary(y, f, dx, dy)),
                },
                2 => guarded(|| {
                    if f2 == 0 {
                        let mut z = x.clone();
                        z.binary_left_assign(y, f, dx, dy);
                        z
                    } else {
                        x.clone().do_binary_left_assign(y, f, dx, dy)
                    }
                }),
                3 => guarded(|| {
                    if f2 == 0 {
                        let mut z = y.clone();
                        x.binary_right_assign(&mut z, f, dx, dy);
                        z
                    } else {
                        x.do_binary_right_assign(y.clone(), f, dx, dy)
                    }
                }),
                _ => return None,
            })
        }
    };
}

container_ops!(ten_un, ten_bin, Ten<'a, T, D>, D);
container_ops!(mat_un, mat_bin, Mat<'a, T>);

pub fn ten_matmul<'a, T: Real + Primitive + Clone + 'static>(
    x: &Ten<'a, T, 2>,
    y: &Ten<'a, T, 2>,
    form: usize,
) -> Option<Ten<'a, T, 2>>
where
    for<'t> &'t T: RealRef<T>,
{
    guarded(|| match form % 4 {
        0 => x * y,
        1 => x.clone() * y.clone(),
        2 => x * y.clone(),
        _ => x.clone() * y,
    })
}

pub fn mat_matmul<'a, T: Real + Primitive + Clone + 'static>(
    x: &Mat<'a, T>,
    y: &Mat<'a, T>,
    form: usize,
) -> Option<Mat<'a, T>>
where
    for<'t> &'t T: RealRef<T>,
{
    guarded(|| match form % 4 {
        0 => x * y,
        1 => x.clone() * y.clone(),
        2 => x * y.clone(),
        _ => x.clone() * y,
    })
}

pub fn enc_pairs<T: Enc>(v: impl Iterator<Item = (T, Index)>) -> crate::sx::Sx {
    crate::sx::l(v.map(|(x, i)| crate::sx::l(vec![x.enc(), crate::sx::z(i)])).collect())
}
