//! C13: tensor transformations, equality, similarity. Case language: coq/theories/Run/RunC13.v.
//! form 0 = method of Tensor, 1 = method of TensorView over the source term (built as a
//! `Box<dyn TensorMut>` chain; plain tensors additionally as `&Tensor` / `Tensor` views).
//! In-place forms are cross-checked against their allocating forms inside the harness.
#[path = "c09/tsrc.rs"]
mod tsrc;
mod over_views;

use crate::guarded;
use crate::sx::*;
use crate::with_d;
use easy_ml::matrices::Matrix;
use easy_ml::tensors::operations::Similar;
use easy_ml::tensors::views::{TensorRef, TensorView};
use easy_ml::tensors::Tensor;
use tsrc::*;

pub fn run(args: &[Sx]) -> Sx {
    let Some(op) = args.first().and_then(|x| x.i64()) else { return bad_case() };
    let r: Option<Sx> = (|| {
        Some(match (op, args.len()) {
            (1, 4) | (2, 4) => {
                let (form, term, dims) = (args[1].usize()?, parse_term(&args[2])?, args[3].usizes()?);
                with_d!(term.base_d(), reorder_like(op, form, &term, &dims))
            }
            (3, 3) | (4, 3) => {
                let (term, dims) = (parse_term(&args[1])?, args[2].usizes()?);
                with_d!(term.base_d(), reorder_mut_like(op, &term, &dims))
            }
            (22, 3) => {
                let (term, dims) = (parse_term(&args[1])?, args[2].usizes()?);
                with_d!(term.base_d(), four_forms(&term, &dims))
            }
            (5, 3) => {
                let (term, shape) = (parse_term(&args[1])?, args[2].pairs_usize()?);
                with_d!(term.base_d(), reshape_mut(&term, &shape))
            }
            (6, 3) => {
                let (term, shape) = (parse_term(&args[1])?, args[2].pairs_usize()?);
                with_d!(term.base_d(), reshape_owned(&term, &shape))
            }
            (7, 3) => {
                let (term, dims) = (parse_term(&args[1])?, args[2].usizes()?);
                with_d!(term.base_d(), rename(&term, &dims))
            }
            (8, 5) | (10, 5) => {
                let (form, term, a, b) = (args[1].usize()?, parse_term(&args[2])?, args[3].i64()?, args[4].i64()?);
                with_d!(term.base_d(), map_like(op, form, &term, a, b))
            }
            (9, 3) | (11, 3) | (14, 3) => {
                let (form, term) = (args[1].usize()?, parse_term(&args[2])?);
                with_d!(term.base_d(), map_like(op, form, &term, 0, 0))
            }
            (12, 4) | (13, 4) => {
                let (form, term, rhs) = (args[1].usize()?, parse_term(&args[2])?, parse_term(&args[3])?);
                if term.base_d() != rhs.base_d() {
                    return None;
                }
                with_d!(term.base_d(), elementwise(op, form, &term, &rhs))
            }
            (15, 3) => {
                let (form, term) = (args[1].usize()?, parse_term(&args[2])?);
                if term.base_d() != 0 {
                    return None;
                }
                scalar(form, &term)
            }
            (16, 2) => {
                let term = parse_term(&args[1])?;
                into_matrix(&term)
            }
            (17, 6) => {
                let (rows, cols, data, rn, cn) =
                    (args[1].usize()?, args[2].usize()?, args[3].i64s()?, args[4].usize()?, args[5].usize()?);
                if rows.checked_mul(cols) != Some(data.len()) || data.is_empty() {
                    return None;
                }
                match Matrix::from_flat_row_major((rows, cols), data).into_tensor(dim(rn), dim(cn)) {
                    Ok(t) => ok(tensor_sx(&t)?),
                    Err(e) => err(shape_sx(&e.shape())),
                }
            }
            (30, _) => over_views::run(args),
            (21, 4) => {
                let (shape, data, nans) = (args[1].pairs_usize()?, args[2].i64s()?, args[3].usizes()?);
                with_d!(shape.len(), nan_eq(&shape, &data, &nans))
            }
            (20, 3) => {
                let (lt, rt) = (parse_term(&args[1])?, parse_term(&args[2])?);
                if lt.base_d() != rt.base_d() {
                    return None;
                }
                with_d!(lt.base_d(), eq_sim(&lt, &rt))
            }
            _ => return None,
        })
    })();
    r.unwrap_or_else(bad_case)
}

const INCONSISTENT_DUMP: i64 = 1300;

/// (shape ((v)…)): the elements by get_reference at every index; the iterator must agree.
fn tensor_sx<const D: usize>(t: &Tensor<i64, D>) -> Option<Sx> {
    let lens: Vec<usize> = t.shape().iter().map(|d| d.1).collect();
    let by_get: Vec<i64> = all_indexes(&lens)
        .iter()
        .map(|i| t.get_reference(idx_arr::<D>(i)).copied())
        .collect::<Option<Vec<i64>>>()?;
    if t.iter().collect::<Vec<i64>>() != by_get {
        return None;
    }
    Some(l(vec![shape_sx(&t.shape()), l(by_get.iter().map(|v| l(vec![z(*v)])).collect())]))
}

fn out_tensor<const D: usize>(r: Option<Tensor<i64, D>>) -> Sx {
    match r {
        None => panicked(),
        Some(t) => match tensor_sx(&t) {
            Some(s) => ok(s),
            None => inconsistent(INCONSISTENT_DUMP),
        },
    }
}

fn fail_sx(f: Fail) -> Sx {
    match f {
        Fail::Panic => panicked(),
        Fail::Err(e) => err(e),
    }
}

fn base<const D: usize>(term: &Term) -> Option<Result<Tensor<i64, D>, Sx>> {
    match term {
        Term::Base(shape, data) => {
            if shape.len() != D {
                return Some(Err(panicked()));
            }
            let shape: [(&'static str, usize); D] = shape_arr(shape);
            let data = data.clone();
            Some(guarded(move || Tensor::from(shape, data)).ok_or_else(panicked))
        }
        _ => None,
    }
}

/// the source as a TensorView over a dyn chain; the pointer reclaims the base tensor afterwards
fn view<const D: usize>(term: &Term) -> Result<(TensorView<i64, Dyn<D>, D>, *mut Tensor<i64, D>), Sx> {
    match build_dyn::<D>(term) {
        Ok((s, p)) => Ok((TensorView::from(s), p)),
        Err(f) => Err(fail_sx(f)),
    }
}

fn free<const D: usize>(p: *mut Tensor<i64, D>) {
    drop(unsafe { Box::from_raw(p) });
}

macro_rules! tensor_or_return {
    ($term:expr) => {
        match base::<D>($term) {
            None => return bad_case(),
            Some(Err(e)) => return e,
            Some(Ok(t)) => t,
        }
    };
}

fn code(i: &[usize]) -> i64 {
    i.iter().fold(0i64, |acc, x| acc * 7 + *x as i64 + 1)
}

fn reorder_like<const D: usize>(op: i64, form: usize, term: &Term, dims: &[usize]) -> Sx {
    if dims.len() != D {
        return bad_case();
    }
    let dims: [&'static str; D] = names_arr(dims);
    if form == 0 {
        let t = tensor_or_return!(term);
        let a = out_tensor(guarded(|| if op == 1 { t.reorder(dims) } else { t.transpose(dims) }));
        // the view over the same tensor must agree (borrowed and owned sources)
        let b = out_tensor(guarded(|| if op == 1 { t.view().reorder(dims) } else { t.view().transpose(dims) }));
        let owned = t.clone().view_owned();
        let c = out_tensor(guarded(|| if op == 1 { owned.reorder(dims) } else { owned.transpose(dims) }));
        if a != b || a != c {
            return inconsistent(1301);
        }
        a
    } else {
        let (v, p) = match view::<D>(term) {
            Ok(x) => x,
            Err(e) => return e,
        };
        let a = out_tensor(guarded(|| if op == 1 { v.reorder(dims) } else { v.transpose(dims) }));
        drop(v);
        free(p);
        a
    }
}

fn reorder_mut_like<const D: usize>(op: i64, term: &Term, dims: &[usize]) -> Sx {
    if dims.len() != D {
        return bad_case();
    }
    let dims: [&'static str; D] = names_arr(dims);
    let t = tensor_or_return!(term);
    let mut m = t.clone();
    let in_place = guarded(|| {
        if op == 3 {
            m.reorder_mut(dims)
        } else {
            m.transpose_mut(dims)
        }
    });
    let in_place = out_tensor(in_place.map(|_| m));
    let allocating = out_tensor(guarded(|| if op == 3 { t.reorder(dims) } else { t.transpose(dims) }));
    if in_place != allocating {
        return inconsistent(1302);
    }
    in_place
}

/// (shape ((v)|()…)) of a lazy view: view_shape and get_reference at every index of that shape
fn lazy_sx<S: TensorRef<i64, D>, const D: usize>(s: &S) -> Sx {
    let shape = s.view_shape();
    let lens: Vec<usize> = shape.iter().map(|d| d.1).collect();
    let items = all_indexes(&lens).iter().map(|i| opt(s.get_reference(idx_arr::<D>(i)).map(|v| z(*v)))).collect();
    ok(l(vec![shape_sx(&shape), l(items)]))
}

/// op 22: the four forms of reorder and of transpose on ONE tensor, each reported separately
/// (allocating Tensor method, in-place Tensor method, lazy view dumped by get_reference, TensorView
/// method); the model computes each from its own transcription, so all four must also agree.
fn four_forms<const D: usize>(term: &Term, dims: &[usize]) -> Sx {
    if dims.len() != D {
        return bad_case();
    }
    let dims: [&'static str; D] = names_arr(dims);
    let t = tensor_or_return!(term);
    let mut out = vec![];
    for transpose in [false, true] {
        let allocating = out_tensor(guarded(|| if transpose { t.transpose(dims) } else { t.reorder(dims) }));
        let mut m = t.clone();
        let done = guarded(|| if transpose { m.transpose_mut(dims) } else { m.reorder_mut(dims) });
        let in_place = out_tensor(done.map(|_| m));
        let lazy = guarded(|| if transpose { lazy_sx(t.transpose_view(dims).source_ref()) } else { lazy_sx(&t.index_by(dims)) })
            .unwrap_or_else(panicked);
        let by_view = out_tensor(guarded(|| if transpose { t.view().transpose(dims) } else { t.view().reorder(dims) }));
        // further entry points that must agree with the forms above
        let owned_view = out_tensor(guarded(|| {
            let v = t.clone().view_owned();
            if transpose { v.transpose(dims) } else { v.reorder(dims) }
        }));
        if owned_view != by_view {
            return inconsistent(1340);
        }
        let mut m2 = t.clone();
        let via_mut_view = out_tensor(guarded(|| {
            let v = TensorView::from(&mut m2);
            if transpose { v.transpose(dims) } else { v.reorder(dims) }
        }));
        if via_mut_view != by_view {
            return inconsistent(1341);
        }
        out.push(l(vec![allocating, in_place, lazy, by_view]));
    }
    l(out)
}

fn reshape_mut<const D: usize>(term: &Term, shape: &[(usize, usize)]) -> Sx {
    if shape.len() != D {
        return bad_case();
    }
    let shape: [(&'static str, usize); D] = shape_arr(shape);
    let t = tensor_or_return!(term);
    let mut m = t.clone();
    let in_place = out_tensor(guarded(|| m.reshape_mut(shape)).map(|_| m));
    let owned = out_tensor(guarded(|| t.reshape_owned(shape)));
    if in_place != owned {
        return inconsistent(1303);
    }
    in_place
}

fn reshape_owned<const D: usize>(term: &Term, shape: &[(usize, usize)]) -> Sx {
    let t = tensor_or_return!(term);
    fn go<const D: usize, const D2: usize>(t: Tensor<i64, D>, shape: &[(usize, usize)]) -> Sx {
        let shape: [(&'static str, usize); D2] = shape_arr(shape);
        out_tensor(guarded(move || t.reshape_owned(shape)))
    }
    match shape.len() {
        0 => go::<D, 0>(t, shape),
        1 => go::<D, 1>(t, shape),
        2 => go::<D, 2>(t, shape),
        3 => go::<D, 3>(t, shape),
        4 => go::<D, 4>(t, shape),
        5 => go::<D, 5>(t, shape),
        6 => go::<D, 6>(t, shape),
        _ => bad_case(),
    }
}

fn rename<const D: usize>(term: &Term, dims: &[usize]) -> Sx {
    if dims.len() != D {
        return bad_case();
    }
    let dims: [&'static str; D] = names_arr(dims);
    let t = tensor_or_return!(term);
    let mut m = t.clone();
    let in_place = out_tensor(guarded(|| m.rename(dims)).map(|_| m));
    let owned = out_tensor(guarded(|| t.rename_owned(dims)));
    if in_place != owned {
        return inconsistent(1304);
    }
    in_place
}

/// ops 8 map, 9 map_with_index, 10 map_mut, 11 map_mut_with_index, 14 first
fn map_like<const D: usize>(op: i64, form: usize, term: &Term, a: i64, b: i64) -> Sx {
    let f = move |x: i64| a * x + b;
    let fi = |i: [usize; D], x: i64| 1000 * x + code(&i);
    if form == 0 {
        let t = tensor_or_return!(term);
        match op {
            8 => out_tensor(guarded(|| t.map(f))),
            9 => out_tensor(guarded(|| t.map_with_index(fi))),
            10 => {
                let mut m = t.clone();
                let r = out_tensor(guarded(|| m.map_mut(f)).map(|_| m));
                // in-place == allocating
                if r != out_tensor(guarded(|| t.map(f))) {
                    return inconsistent(1305);
                }
                r
            }
            11 => {
                let mut m = t.clone();
                let r = out_tensor(guarded(|| m.map_mut_with_index(fi)).map(|_| m));
                if r != out_tensor(guarded(|| t.map_with_index(fi))) {
                    return inconsistent(1306);
                }
                r
            }
            _ => match guarded(|| t.first()) {
                Some(v) => ok(z(v)),
                None => panicked(),
            },
        }
    } else {
        let (mut v, p) = match view::<D>(term) {
            Ok(x) => x,
            Err(e) => return e,
        };
        let r = match op {
            8 => out_tensor(guarded(|| v.map(f))),
            9 => out_tensor(guarded(|| v.map_with_index(fi))),
            10 | 11 => {
                let allocating = out_tensor(guarded(|| if op == 10 { v.map(f) } else { v.map_with_index(fi) }));
                let done = guarded(|| if op == 10 { v.map_mut(f) } else { v.map_mut_with_index(fi) });
                // the view after the in-place map shows what the allocating map returned
                let after = out_tensor(guarded(|| v.map(|x| x)));
                if done.is_some() && after != allocating {
                    return inconsistent(1307);
                }
                drop(v);
                let t = unsafe { Box::from_raw(p) };
                return match done {
                    None => panicked(),
                    Some(()) => out_tensor(Some(*t)),
                };
            }
            _ => match guarded(|| v.first()) {
                Some(x) => ok(z(x)),
                None => panicked(),
            },
        };
        drop(v);
        free(p);
        r
    }
}

fn elementwise<const D: usize>(op: i64, form: usize, term: &Term, rhs: &Term) -> Sx {
    let f = |x: i64, y: i64| 1000 * x + y;
    let fr = |x: &i64, y: &i64| 1000 * *x + *y;
    let fi = |i: [usize; D], x: i64, y: i64| (1000 * x + y) * 1000 + code(&i);
    let fir = |i: [usize; D], x: &i64, y: &i64| (1000 * *x + *y) * 1000 + code(&i);
    let mk_rhs = || view::<D>(rhs);
    let (r1, p1) = match mk_rhs() {
        Ok(x) => x,
        Err(_) => return bad_case(),
    };
    let (r2, p2) = mk_rhs().ok().unwrap();
    let result = if form == 0 {
        let t = match base::<D>(term) {
            None => return bad_case(),
            Some(Err(e)) => return e,
            Some(Ok(t)) => t,
        };
        let (a, b) = if op == 12 {
            (out_tensor(guarded(|| t.elementwise(r1, f))), out_tensor(guarded(|| t.elementwise_reference(r2, fr))))
        } else {
            (
                out_tensor(guarded(|| t.elementwise_with_index(r1, fi))),
                out_tensor(guarded(|| t.elementwise_reference_with_index(r2, fir))),
            )
        };
        if a != b {
            return inconsistent(1308);
        }
        // a plain tensor on the right may also be passed by reference
        if let Some(Ok(rt)) = base::<D>(rhs) {
            let c = if op == 12 {
                out_tensor(guarded(|| t.elementwise(&rt, f)))
            } else {
                out_tensor(guarded(|| t.elementwise_with_index(&rt, fi)))
            };
            if a != c {
                return inconsistent(1309);
            }
        }
        a
    } else {
        let (v, p) = match view::<D>(term) {
            Ok(x) => x,
            Err(e) => return e,
        };
        let (a, b) = if op == 12 {
            (out_tensor(guarded(|| v.elementwise(r1, f))), out_tensor(guarded(|| v.elementwise_reference(r2, fr))))
        } else {
            (
                out_tensor(guarded(|| v.elementwise_with_index(r1, fi))),
                out_tensor(guarded(|| v.elementwise_reference_with_index(r2, fir))),
            )
        };
        drop(v);
        free(p);
        if a != b {
            return inconsistent(1310);
        }
        a
    };
    free(p1);
    free(p2);
    result
}

fn scalar(form: usize, term: &Term) -> Sx {
    let o = |x: Option<i64>| match x {
        Some(v) => ok(z(v)),
        None => panicked(),
    };
    if form == 0 {
        let t = match base::<0>(term) {
            None => return bad_case(),
            Some(Err(e)) => return e,
            Some(Ok(t)) => t,
        };
        let a = o(guarded(|| t.scalar()));
        let b = o(guarded(|| t.clone().into_scalar()));
        l(vec![a, b])
    } else {
        let (v, p) = match view::<0>(term) {
            Ok(x) => x,
            Err(e) => return e,
        };
        let a = o(guarded(|| v.scalar()));
        let b = o(guarded(move || v.into_scalar()));
        free(p);
        l(vec![a, b])
    }
}

fn into_matrix(term: &Term) -> Sx {
    if term.base_d() != 2 {
        return bad_case();
    }
    let t = match base::<2>(term) {
        None => return bad_case(),
        Some(Err(e)) => return e,
        Some(Ok(t)) => t,
    };
    let via_into: Option<Matrix<i64>> = guarded(|| t.clone().into());
    match guarded(move || t.into_matrix()) {
        None => {
            if via_into.is_some() {
                return inconsistent(1311);
            }
            panicked()
        }
        Some(m) => {
            if via_into != Some(m.clone()) {
                return inconsistent(1312);
            }
            let mut data = vec![];
            for r in 0..m.rows() {
                for c in 0..m.columns() {
                    data.push(z(*m.get_reference(r, c)));
                }
            }
            ok(l(vec![z(m.rows()), z(m.columns()), l(data)]))
        }
    }
}

/// f64 elements with NaN at the listed positions: every eq / similar form, same-object operands
/// included. Only booleans leave this function.
#[allow(clippy::eq_op)]
fn nan_eq<const D: usize>(shape: &[(usize, usize)], data: &[i64], nans: &[usize]) -> Sx {
    let shape: [(&'static str, usize); D] = shape_arr(shape);
    let data: Vec<f64> = data
        .iter()
        .enumerate()
        .map(|(i, x)| if nans.contains(&i) { f64::NAN } else { *x as f64 })
        .collect();
    let Some(t) = guarded(move || Tensor::from(shape, data)) else { return panicked() };
    let c = t.clone();
    let flags = [
        t == t,
        t == c,
        c == t,
        t.view() == t.view(),
        t == t.view(),
        t.view() == t,
        t.similar(&t),
        t.similar(&c),
        c.similar(&t),
        t.view().similar(&t.view()),
        t.similar(&t.view()),
        t.view().similar(&t),
    ];
    // != must be the negation of == in the same-object form as well
    if (t != t) == flags[0] {
        return inconsistent(1330);
    }
    ok(l(flags.iter().map(|b| boolean(*b)).collect()))
}

fn eq_sim<const D: usize>(lt: &Term, rt: &Term) -> Sx {
    let (lv, lp) = match view::<D>(lt) {
        Ok(x) => x,
        Err(_) => return bad_case(),
    };
    let (rv, rp) = match view::<D>(rt) {
        Ok(x) => x,
        Err(_) => return bad_case(),
    };
    // view / view
    let res = [lv == rv, lv.similar(&rv), rv == lv, rv.similar(&lv)];
    let mut bad = None;
    let lb = base::<D>(lt).and_then(|x| x.ok());
    let rb = base::<D>(rt).and_then(|x| x.ok());
    if let Some(ltensor) = &lb {
        // tensor / view
        let r2 = [*ltensor == rv, ltensor.similar(&rv), rv == *ltensor, rv.similar(ltensor)];
        if r2 != res {
            bad = Some(1320);
        }
        // a view borrowing the tensor
        let lview = ltensor.view();
        let r3 = [lview == rv, lview.similar(&rv), rv == lview, rv.similar(&lview)];
        if r3 != res {
            bad = Some(1321);
        }
    }
    if let Some(rtensor) = &rb {
        // view / tensor
        let r2 = [lv == *rtensor, lv.similar(rtensor), *rtensor == lv, rtensor.similar(&lv)];
        if r2 != res {
            bad = Some(1322);
        }
    }
    if let (Some(ltensor), Some(rtensor)) = (&lb, &rb) {
        // tensor / tensor
        let r2 = [ltensor == rtensor, ltensor.similar(rtensor), rtensor == ltensor, rtensor.similar(ltensor)];
        if r2 != res {
            bad = Some(1323);
        }
        if (ltensor != rtensor) == res[0] {
            bad = Some(1324);
        }
    }
    drop(lv);
    drop(rv);
    free(lp);
    free(rp);
    match bad {
        Some(c) => inconsistent(c),
        None => l(res.iter().map(|b| boolean(*b)).collect()),
    }
}
