//! C03: tensor and matrix arithmetic through every operand form.
//!
//!   (3 op ty X Y)        op = 1 tadd  2 tsub  4 tdot  5 tmatmul  7 telementwise (f = times)
//!                             8 telementwise_with_index (f i a b = a * b + code i)
//!   (3 3 ty X k s)       tscalar: k = 0 add | 1 sub | 2 mul | 3 div ; s the scalar
//!   (3 6 ty X)           tneg  (map(|x| -x); Tensor has no Neg impl)
//!   (3 op ty MX MY)      op = 11 madd  12 msub  15 mmatmul
//!   (3 13 ty MX k s)     mscalar
//!   (3 16 ty MX)         mneg
//!
//!   (3 17 ty MX MY)      PartialEq: Matrix == Matrix, Matrix == MatrixView, MatrixView == Matrix,
//!                        MatrixView == MatrixView (and !=), and the tensor API on the same data
//!   (3 40 ty op form args..)  exactly ONE operand form of operator `op` (1 2 5 3 11 12 15 13 16 17),
//!                        numbered as in coq/theories/Model/ArithForms.v; nothing is cross-checked
//!                        inside the harness, the model evaluates the transcription of that impl
//!
//! ty: 0 Rat, 1 Fp, 2 Wrapping<i64>.  Operand terms: see coq/theories/Run/RunC03.v.
//! Every operand is used as a container (the tensor / matrix holding the view's elements in view
//! order) and as a view (a TensorView / MatrixView over the chain of adaptors the term names);
//! all 16 owned/borrowed x container/view forms of a binary operator (8 for scalar operators,
//! 12 Into-forms for the named methods) are evaluated and must agree: `(-8 code)` otherwise.
//! Matrix cases are additionally recomputed through the tensor API on the same data
//! (codes 7xx).
//!
//!   (3 30 fop args..)    IEEE-754 oracle: the case `(3 fop _ args..)` at element type f64 (elements
//!                        given as bit patterns: 0, -0.0, inf, NaN, subnormals ...). Floats never reach
//!                        the model: the harness checks that all operand forms agree bit for bit (all
//!                        NaNs are one value), that the tensor and matrix APIs agree and that the result
//!                        equals the operation evaluated directly with IEEE + - * / (scalar and matrix
//!                        products: the left fold of the products); prints (1), else (-8 30xx).
use crate::guarded;
use crate::num::{Enc, Fp, Rat};
use crate::sx::*;
use easy_ml::interop::{MatrixRefTensor, TensorRefMatrix};
use easy_ml::matrices::views::{
    IndexRange as MIndexRange, MatrixRange, MatrixRef, MatrixReverse, MatrixView, Reverse,
};
use easy_ml::matrices::Matrix;
use easy_ml::numeric::{FromUsize, Numeric, NumericRef};
use easy_ml::tensors::indexing::{TensorAccess, TensorTranspose};
use easy_ml::tensors::views::{
    IndexRange, TensorMask, TensorRange, TensorRef, TensorRename, TensorReverse, TensorView,
};
use easy_ml::tensors::Tensor;
use num_bigint::BigInt;
use num_integer::Integer;
use num_traits::ToPrimitive;
use std::num::Wrapping;

// ------------------------------------------------------------------ Wrapping<i64>, tag 2
impl Enc for Wrapping<i64> {
    fn enc(&self) -> Sx {
        z(self.0)
    }
    fn dec(s: &Sx) -> Option<Self> {
        let m = s.int()?.mod_floor(&(BigInt::from(1) << 64));
        Some(Wrapping(m.to_u64()? as i64))
    }
    fn small(v: i64) -> Self {
        Wrapping(v)
    }
}

macro_rules! with_ty3 {
    ($ty:expr, $f:ident ( $($arg:expr),* )) => {
        match $ty {
            0 => $f::<Rat>($($arg),*),
            1 => $f::<Fp>($($arg),*),
            2 => $f::<Wrapping<i64>>($($arg),*),
            _ => bad_case(),
        }
    };
}

macro_rules! with_d3 {
    ($d:expr, $f:ident :: < $T:ty > ( $($arg:expr),* )) => {
        match $d {
            0 => $f::<$T, 0>($($arg),*),
            1 => $f::<$T, 1>($($arg),*),
            2 => $f::<$T, 2>($($arg),*),
            3 => $f::<$T, 3>($($arg),*),
            4 => $f::<$T, 4>($($arg),*),
            _ => bad_case(),
        }
    };
}

pub fn run(args: &[Sx]) -> Sx {
    if args.len() < 3 {
        return bad_case();
    }
    let (Some(op), Some(ty)) = (args[0].i64(), args[1].i64()) else { return bad_case() };
    if op == 30 {
        // (3 30 fop ..): the IEEE-754 oracle; `ty` is the operation
        return float_oracle(ty, &args[2..]);
    }
    with_ty3!(ty, run_ty(op, &args[2..]))
}

fn run_ty<T>(op: i64, args: &[Sx]) -> Sx
where
    T: Numeric + Enc + PartialEq + 'static,
    for<'a> &'a T: NumericRef<T>,
{
    if op == 40 {
        // (3 40 ty op form args..): one operand form only
        if args.len() < 3 {
            return bad_case();
        }
        let (Some(op2), Some(form)) = (args[0].i64(), args[1].usize()) else { return bad_case() };
        let limit = match op2 {
            1 | 2 | 5 | 11 | 12 | 15 => 16,
            3 | 13 => 8,
            16 | 17 => 4,
            _ => return bad_case(),
        };
        if form >= limit {
            return bad_case();
        }
        return run_op::<T>(op2, &args[2..], Some(form));
    }
    run_op::<T>(op, args, None)
}

fn run_op<T>(op: i64, args: &[Sx], only: Option<usize>) -> Sx
where
    T: Numeric + Enc + PartialEq + 'static,
    for<'a> &'a T: NumericRef<T>,
{
    if only.is_some() && matches!(op, 4 | 6 | 7 | 8) {
        return bad_case();
    }
    match op {
        1 | 2 | 7 | 8 if args.len() == 2 => {
            let Some(d) = operand_dims(&args[0]) else { return bad_case() };
            if operand_dims(&args[1]) != Some(d) {
                return bad_case();
            }
            with_d3!(d, t_binary_case::<T>(op, &args[0], &args[1], only))
        }
        3 if args.len() == 3 => {
            let Some(d) = operand_dims(&args[0]) else { return bad_case() };
            let (Some(k), Some(s)) = (args[1].i64(), T::dec(&args[2])) else { return bad_case() };
            if !(0..=3).contains(&k) {
                return bad_case();
            }
            with_d3!(d, t_scalar_case::<T>(&args[0], k, &s, only))
        }
        4 if args.len() == 2 => t_dot_case::<T>(&args[0], &args[1]),
        5 if args.len() == 2 => t_matmul_case::<T>(&args[0], &args[1], only),
        6 if args.len() == 1 => {
            let Some(d) = operand_dims(&args[0]) else { return bad_case() };
            with_d3!(d, t_neg_case::<T>(&args[0]))
        }
        11 | 12 | 15 if args.len() == 2 => m_binary_case::<T>(op, &args[0], &args[1], only),
        17 if args.len() == 2 => m_eq_case::<T>(&args[0], &args[1], only),
        13 if args.len() == 3 => {
            let (Some(k), Some(s)) = (args[1].i64(), T::dec(&args[2])) else { return bad_case() };
            if !(0..=3).contains(&k) {
                return bad_case();
            }
            m_scalar_case::<T>(&args[0], k, &s, only)
        }
        16 if args.len() == 1 => m_neg_case::<T>(&args[0], only),
        _ => bad_case(),
    }
}

fn operand_dims(x: &Sx) -> Option<usize> {
    let v = x.list()?;
    if v.len() != 3 {
        return None;
    }
    Some(v[0].list()?.len())
}

/// All forms must have produced the same line.
fn canon(results: Vec<Sx>, code: i64) -> Sx {
    for (i, r) in results.iter().enumerate() {
        if *r != results[0] {
            return inconsistent(code + i as i64);
        }
    }
    results.into_iter().next().unwrap_or_else(bad_case)
}

// ================================================================== tensor operands
type DynT<T, const D: usize> = Box<dyn TensorRef<T, D>>;

struct TOp<T, const D: usize> {
    shape: [(&'static str, usize); D],
    data: Vec<T>,
    steps: Vec<Sx>,
    /// the container form: the view's elements in view order under the view's shape
    container: Tensor<T, D>,
}

fn row_major_indexes<const D: usize>(shape: &[(&'static str, usize); D]) -> Vec<[usize; D]> {
    let mut out = vec![[0usize; D]];
    for d in 0..D {
        let mut next = Vec::with_capacity(out.len() * shape[d].1);
        for idx in &out {
            for i in 0..shape[d].1 {
                let mut j = *idx;
                j[d] = i;
                next.push(j);
            }
        }
        out = next;
    }
    out
}

fn apply_step<T: 'static, const D: usize>(v: DynT<T, D>, st: &Sx) -> Option<DynT<T, D>> {
    let st = st.list()?;
    if st.len() != 2 {
        return None;
    }
    let names = |s: &Sx| -> Option<Vec<&'static str>> {
        Some(s.usizes()?.into_iter().map(dim).collect())
    };
    let ranges = |s: &Sx| -> Option<[Option<IndexRange>; D]> {
        let p = s.pairs_usize()?;
        if p.len() != D {
            return None;
        }
        Some(std::array::from_fn(|d| Some(IndexRange::new(p[d].0, p[d].1))))
    };
    match st[0].i64()? {
        1 => {
            let n = names(&st[1])?;
            if n.len() != D {
                return None;
            }
            let n: [&'static str; D] = std::array::from_fn(|d| n[d]);
            Some(Box::new(TensorAccess::try_from(v, n).ok()?))
        }
        2 => {
            let n = names(&st[1])?;
            if n.len() != D {
                return None;
            }
            let n: [&'static str; D] = std::array::from_fn(|d| n[d]);
            Some(Box::new(TensorTranspose::try_from(v, n).ok()?))
        }
        3 => {
            let n = names(&st[1])?;
            Some(Box::new(guarded(move || TensorReverse::from(v, &n))?))
        }
        4 => Some(Box::new(TensorRange::from_all_strict(v, ranges(&st[1])?).ok()?)),
        5 => Some(Box::new(TensorMask::from_all_strict(v, ranges(&st[1])?).ok()?)),
        6 => {
            let n = names(&st[1])?;
            if n.len() != D {
                return None;
            }
            let n: [&'static str; D] = std::array::from_fn(|d| n[d]);
            Some(Box::new(guarded(move || TensorRename::from(v, n))?))
        }
        _ => None,
    }
}

impl<T: Clone + Enc + 'static, const D: usize> TOp<T, D> {
    fn decode(x: &Sx) -> Option<TOp<T, D>> {
        let v = x.list()?;
        if v.len() != 3 {
            return None;
        }
        let shape = v[0].pairs_usize()?;
        if shape.len() != D {
            return None;
        }
        let shape: [(&'static str, usize); D] = shape_arr(&shape);
        let data: Vec<T> = crate::num::dec_list(&v[1])?;
        let steps = v[2].list()?.to_vec();
        Tensor::try_from(shape, data.clone()).ok()?;
        let mut op =
            TOp { shape, data: data.clone(), steps, container: Tensor::from(shape, data) };
        let view = op.dyn_view()?;
        // materialise by plain indexing (independent of the iterators under test)
        let vs = view.view_shape();
        let mut elems = Vec::new();
        for idx in row_major_indexes(&vs) {
            elems.push(view.get_reference(idx)?.clone());
        }
        op.container = Tensor::try_from(vs, elems).ok()?;
        Some(op)
    }
    fn base(&self) -> Tensor<T, D> {
        Tensor::from(self.shape, self.data.clone())
    }
    fn dyn_view(&self) -> Option<DynT<T, D>> {
        let mut v: DynT<T, D> = Box::new(self.base());
        for st in &self.steps {
            v = apply_step(v, st)?;
        }
        Some(v)
    }
    fn plain(&self) -> bool {
        self.steps.is_empty()
    }
}

fn enc_tensor<T: Enc + Clone, const D: usize>(t: &Tensor<T, D>) -> Sx {
    l(vec![shape_sx(&t.shape()), l(t.iter().map(|x| x.enc()).collect())])
}
fn out_tensor<T: Enc + Clone, const D: usize>(r: Option<Tensor<T, D>>) -> Sx {
    match r {
        Some(t) => ok(enc_tensor(&t)),
        None => panicked(),
    }
}
fn out_scalar<T: Enc>(r: Option<T>) -> Sx {
    match r {
        Some(t) => ok(t.enc()),
        None => panicked(),
    }
}

/// The 16 owned/borrowed x container/view forms of a binary operator.
macro_rules! forms16 {
    ($out:ident, $op:tt, $cx:expr, $vx:expr, $cy:expr, $vy:expr) => {{
        let mut r: Vec<Sx> = Vec::with_capacity(16);
        r.push($out(guarded(|| $cx() $op $cy())));
        r.push($out(guarded(|| $cx() $op &$cy())));
        r.push($out(guarded(|| &$cx() $op $cy())));
        r.push($out(guarded(|| &$cx() $op &$cy())));
        r.push($out(guarded(|| $cx() $op $vy())));
        r.push($out(guarded(|| $cx() $op &$vy())));
        r.push($out(guarded(|| &$cx() $op $vy())));
        r.push($out(guarded(|| &$cx() $op &$vy())));
        r.push($out(guarded(|| $vx() $op $cy())));
        r.push($out(guarded(|| $vx() $op &$cy())));
        r.push($out(guarded(|| &$vx() $op $cy())));
        r.push($out(guarded(|| &$vx() $op &$cy())));
        r.push($out(guarded(|| $vx() $op $vy())));
        r.push($out(guarded(|| $vx() $op &$vy())));
        r.push($out(guarded(|| &$vx() $op $vy())));
        r.push($out(guarded(|| &$vx() $op &$vy())));
        r
    }};
}

/// Form `$f` (0..16) of the 16, in the order of `forms16!`.
macro_rules! form16_at {
    ($out:ident, $op:tt, $f:expr, $cx:expr, $vx:expr, $cy:expr, $vy:expr) => {
        match $f {
            0 => $out(guarded(|| $cx() $op $cy())),
            1 => $out(guarded(|| $cx() $op &$cy())),
            2 => $out(guarded(|| &$cx() $op $cy())),
            3 => $out(guarded(|| &$cx() $op &$cy())),
            4 => $out(guarded(|| $cx() $op $vy())),
            5 => $out(guarded(|| $cx() $op &$vy())),
            6 => $out(guarded(|| &$cx() $op $vy())),
            7 => $out(guarded(|| &$cx() $op &$vy())),
            8 => $out(guarded(|| $vx() $op $cy())),
            9 => $out(guarded(|| $vx() $op &$cy())),
            10 => $out(guarded(|| &$vx() $op $cy())),
            11 => $out(guarded(|| &$vx() $op &$cy())),
            12 => $out(guarded(|| $vx() $op $vy())),
            13 => $out(guarded(|| $vx() $op &$vy())),
            14 => $out(guarded(|| &$vx() $op $vy())),
            15 => $out(guarded(|| &$vx() $op &$vy())),
            _ => bad_case(),
        }
    };
}
/// All 16 forms (must agree) or only form `$only`.
macro_rules! forms16_or_one {
    ($only:expr, $code:expr, $out:ident, $op:tt, $cx:expr, $vx:expr, $cy:expr, $vy:expr) => {
        match $only {
            None => canon(forms16!($out, $op, $cx, $vx, $cy, $vy), $code),
            Some(f) => form16_at!($out, $op, f, $cx, $vx, $cy, $vy),
        }
    };
}
/// Form `$f` (0..8) of the 8 scalar forms, in the order of `forms8!`.
macro_rules! form8_at {
    ($out:ident, $op:tt, $f:expr, $cx:expr, $vx:expr, $s:expr) => {
        match $f {
            0 => $out(guarded(|| $cx() $op $s.clone())),
            1 => $out(guarded(|| $cx() $op &$s)),
            2 => $out(guarded(|| &$cx() $op $s.clone())),
            3 => $out(guarded(|| &$cx() $op &$s)),
            4 => $out(guarded(|| $vx() $op $s.clone())),
            5 => $out(guarded(|| $vx() $op &$s)),
            6 => $out(guarded(|| &$vx() $op $s.clone())),
            7 => $out(guarded(|| &$vx() $op &$s)),
            _ => bad_case(),
        }
    };
}

/// The 8 forms of a container/view (owned, borrowed) op scalar (owned, borrowed).
macro_rules! forms8 {
    ($out:ident, $op:tt, $cx:expr, $vx:expr, $s:expr) => {{
        let mut r: Vec<Sx> = Vec::with_capacity(8);
        r.push($out(guarded(|| $cx() $op $s.clone())));
        r.push($out(guarded(|| $cx() $op &$s)));
        r.push($out(guarded(|| &$cx() $op $s.clone())));
        r.push($out(guarded(|| &$cx() $op &$s)));
        r.push($out(guarded(|| $vx() $op $s.clone())));
        r.push($out(guarded(|| $vx() $op &$s)));
        r.push($out(guarded(|| &$vx() $op $s.clone())));
        r.push($out(guarded(|| &$vx() $op &$s)));
        r
    }};
}

/// The 12 forms of a named method taking `rhs: Into<TensorView>`: receiver container / view,
/// argument container or view, owned / & / &mut.
macro_rules! forms_into {
    ($out:ident, $cx:expr, $vx:expr, $cy:expr, $vy:expr, |$l:ident, $r:ident| $call:expr) => {{
        let mut r: Vec<Sx> = Vec::with_capacity(12);
        r.push($out(guarded(|| { let $l = $cx(); let $r = $cy(); $call })));
        r.push($out(guarded(|| { let $l = $cx(); let t = $cy(); let $r = &t; $call })));
        r.push($out(guarded(|| { let $l = $cx(); let mut t = $cy(); let $r = &mut t; $call })));
        r.push($out(guarded(|| { let $l = $cx(); let $r = $vy(); $call })));
        r.push($out(guarded(|| { let $l = $cx(); let t = $vy(); let $r = &t; $call })));
        r.push($out(guarded(|| { let $l = $cx(); let mut t = $vy(); let $r = &mut t; $call })));
        r.push($out(guarded(|| { let $l = $vx(); let $r = $cy(); $call })));
        r.push($out(guarded(|| { let $l = $vx(); let t = $cy(); let $r = &t; $call })));
        r.push($out(guarded(|| { let $l = $vx(); let mut t = $cy(); let $r = &mut t; $call })));
        r.push($out(guarded(|| { let $l = $vx(); let $r = $vy(); $call })));
        r.push($out(guarded(|| { let $l = $vx(); let t = $vy(); let $r = &t; $call })));
        r.push($out(guarded(|| { let $l = $vx(); let mut t = $vy(); let $r = &mut t; $call })));
        r
    }};
}

fn idx_code<const D: usize>(i: [usize; D]) -> usize {
    i.iter().fold(0usize, |acc, x| acc * 7 + x)
}

fn t_binary_forms<T, SX, SY, const D: usize>(
    op: i64,
    cx: &dyn Fn() -> Tensor<T, D>,
    vx: &dyn Fn() -> TensorView<T, SX, D>,
    cy: &dyn Fn() -> Tensor<T, D>,
    vy: &dyn Fn() -> TensorView<T, SY, D>,
    only: Option<usize>,
) -> Sx
where
    T: Numeric + Enc + PartialEq + 'static,
    for<'a> &'a T: NumericRef<T>,
    SX: TensorRef<T, D>,
    SY: TensorRef<T, D>,
{
    match op {
        1 => forms16_or_one!(only, 100, out_tensor, +, cx, vx, cy, vy),
        2 => forms16_or_one!(only, 200, out_tensor, -, cx, vx, cy, vy),
        7 => {
            let mut r = forms_into!(out_tensor, cx, vx, cy, vy, |a, b| a.elementwise(b, |p: T, q: T| p * q));
            r.extend(forms_into!(out_tensor, cx, vx, cy, vy, |a, b| a
                .elementwise_reference(b, |p: &T, q: &T| p * q)));
            canon(r, 300)
        }
        8 => {
            let f = |i: [usize; D], p: T, q: T| p * q + T::from_usize(idx_code(i)).unwrap();
            let g = |i: [usize; D], p: &T, q: &T| p * q + T::from_usize(idx_code(i)).unwrap();
            let mut r = forms_into!(out_tensor, cx, vx, cy, vy, |a, b| a.elementwise_with_index(b, f));
            r.extend(forms_into!(out_tensor, cx, vx, cy, vy, |a, b| a
                .elementwise_reference_with_index(b, g)));
            canon(r, 400)
        }
        _ => bad_case(),
    }
}

fn t_binary_case<T, const D: usize>(op: i64, x: &Sx, y: &Sx, only: Option<usize>) -> Sx
where
    T: Numeric + Enc + PartialEq + 'static,
    for<'a> &'a T: NumericRef<T>,
{
    let (Some(x), Some(y)) = (TOp::<T, D>::decode(x), TOp::<T, D>::decode(y)) else {
        return bad_case();
    };
    let cx = || x.container.clone();
    let cy = || y.container.clone();
    // plain operands: a TensorView directly over an owned Tensor; otherwise the adaptor chain
    match (x.plain(), y.plain()) {
        (true, true) => t_binary_forms::<T, _, _, D>(
            op,
            &cx,
            &|| TensorView::from(x.base()),
            &cy,
            &|| TensorView::from(y.base()),
            only,
        ),
        (true, false) => t_binary_forms::<T, _, _, D>(
            op,
            &cx,
            &|| TensorView::from(x.base()),
            &cy,
            &|| TensorView::from(y.dyn_view().unwrap()),
            only,
        ),
        (false, true) => t_binary_forms::<T, _, _, D>(
            op,
            &cx,
            &|| TensorView::from(x.dyn_view().unwrap()),
            &cy,
            &|| TensorView::from(y.base()),
            only,
        ),
        (false, false) => t_binary_forms::<T, _, _, D>(
            op,
            &cx,
            &|| TensorView::from(x.dyn_view().unwrap()),
            &cy,
            &|| TensorView::from(y.dyn_view().unwrap()),
            only,
        ),
    }
}

fn t_scalar_case<T, const D: usize>(x: &Sx, k: i64, s: &T, only: Option<usize>) -> Sx
where
    T: Numeric + Enc + PartialEq + 'static,
    for<'a> &'a T: NumericRef<T>,
{
    let s: T = s.clone();
    let Some(x) = TOp::<T, D>::decode(x) else { return bad_case() };
    let cx = || x.container.clone();
    let vx = || TensorView::from(x.dyn_view().unwrap());
    if let Some(f) = only {
        return match k {
            0 => form8_at!(out_tensor, +, f, cx, vx, s),
            1 => form8_at!(out_tensor, -, f, cx, vx, s),
            2 => form8_at!(out_tensor, *, f, cx, vx, s),
            _ => form8_at!(out_tensor, /, f, cx, vx, s),
        };
    }
    let mut r = match k {
        0 => forms8!(out_tensor, +, cx, vx, s),
        1 => forms8!(out_tensor, -, cx, vx, s),
        2 => forms8!(out_tensor, *, cx, vx, s),
        _ => forms8!(out_tensor, /, cx, vx, s),
    };
    if x.plain() {
        // a view borrowing the tensor
        let b = x.base();
        let vb = || TensorView::from(&b);
        r.push(match k {
            0 => out_tensor(guarded(|| vb() + &s)),
            1 => out_tensor(guarded(|| vb() - &s)),
            2 => out_tensor(guarded(|| vb() * &s)),
            _ => out_tensor(guarded(|| vb() / &s)),
        });
    }
    canon(r, 500)
}

fn t_neg_case<T, const D: usize>(x: &Sx) -> Sx
where
    T: Numeric + Enc + PartialEq + 'static,
    for<'a> &'a T: NumericRef<T>,
{
    let Some(x) = TOp::<T, D>::decode(x) else { return bad_case() };
    let r = vec![
        out_tensor(guarded(|| x.container.map(|e| -e))),
        out_tensor(guarded(|| TensorView::from(x.dyn_view().unwrap()).map(|e| -e))),
        out_tensor(guarded(|| TensorView::from(&x.container).map(|e| -e))),
    ];
    canon(r, 600)
}

fn t_dot_case<T>(x: &Sx, y: &Sx) -> Sx
where
    T: Numeric + Enc + PartialEq + 'static,
    for<'a> &'a T: NumericRef<T>,
{
    let (Some(x), Some(y)) = (TOp::<T, 1>::decode(x), TOp::<T, 1>::decode(y)) else {
        return bad_case();
    };
    let cx = || x.container.clone();
    let cy = || y.container.clone();
    let vx = || TensorView::from(x.dyn_view().unwrap());
    let vy = || TensorView::from(y.dyn_view().unwrap());
    let r = forms_into!(out_scalar, cx, vx, cy, vy, |a, b| a.scalar_product(b));
    canon(r, 650)
}

fn t_matmul_forms<T, SX, SY>(
    cx: &dyn Fn() -> Tensor<T, 2>,
    vx: &dyn Fn() -> TensorView<T, SX, 2>,
    cy: &dyn Fn() -> Tensor<T, 2>,
    vy: &dyn Fn() -> TensorView<T, SY, 2>,
    only: Option<usize>,
) -> Sx
where
    T: Numeric + Enc + PartialEq + 'static,
    for<'a> &'a T: NumericRef<T>,
    SX: TensorRef<T, 2>,
    SY: TensorRef<T, 2>,
{
    forms16_or_one!(only, 800, out_tensor, *, cx, vx, cy, vy)
}

fn t_matmul_case<T>(x: &Sx, y: &Sx, only: Option<usize>) -> Sx
where
    T: Numeric + Enc + PartialEq + 'static,
    for<'a> &'a T: NumericRef<T>,
{
    let (Some(x), Some(y)) = (TOp::<T, 2>::decode(x), TOp::<T, 2>::decode(y)) else {
        return bad_case();
    };
    let cx = || x.container.clone();
    let cy = || y.container.clone();
    match (x.plain(), y.plain()) {
        (true, true) => t_matmul_forms::<T, _, _>(
            &cx,
            &|| TensorView::from(x.base()),
            &cy,
            &|| TensorView::from(y.base()),
            only,
        ),
        (true, false) => t_matmul_forms::<T, _, _>(
            &cx,
            &|| TensorView::from(x.base()),
            &cy,
            &|| TensorView::from(y.dyn_view().unwrap()),
            only,
        ),
        (false, true) => t_matmul_forms::<T, _, _>(
            &cx,
            &|| TensorView::from(x.dyn_view().unwrap()),
            &cy,
            &|| TensorView::from(y.base()),
            only,
        ),
        (false, false) => t_matmul_forms::<T, _, _>(
            &cx,
            &|| TensorView::from(x.dyn_view().unwrap()),
            &cy,
            &|| TensorView::from(y.dyn_view().unwrap()),
            only,
        ),
    }
}

// ================================================================== matrix operands
type DynM<T> = Box<dyn MatrixRef<T>>;

struct MOp<T> {
    rows: usize,
    cols: usize,
    data: Vec<T>,
    steps: Vec<Sx>,
    container: Matrix<T>,
}

fn apply_mstep<T: 'static>(v: DynM<T>, st: &Sx) -> Option<DynM<T>> {
    let st = st.list()?;
    match st.first()?.i64()? {
        1 if st.len() == 5 => {
            let (r0, rl, c0, cl) = (st[1].usize()?, st[2].usize()?, st[3].usize()?, st[4].usize()?);
            Some(Box::new(MatrixRange::from(v, MIndexRange::new(r0, rl), MIndexRange::new(c0, cl))))
        }
        2 if st.len() == 3 => Some(Box::new(MatrixReverse::from(
            v,
            Reverse { rows: st[1].bool()?, columns: st[2].bool()? },
        ))),
        3 if st.len() == 1 => {
            let t = TensorRefMatrix::from(v).ok()?;
            Some(Box::new(MatrixRefTensor::from(TensorAccess::try_from(t, ["column", "row"]).ok()?)))
        }
        _ => None,
    }
}

impl<T: Clone + Enc + 'static> MOp<T> {
    fn decode(x: &Sx) -> Option<MOp<T>> {
        let v = x.list()?;
        if v.len() != 4 {
            return None;
        }
        let (rows, cols) = (v[0].usize()?, v[1].usize()?);
        let data: Vec<T> = crate::num::dec_list(&v[2])?;
        let steps = v[3].list()?.to_vec();
        if rows.checked_mul(cols) != Some(data.len()) || data.is_empty() {
            return None;
        }
        let mut op = MOp {
            rows,
            cols,
            data: data.clone(),
            steps,
            container: Matrix::from_flat_row_major((rows, cols), data),
        };
        let view = op.dyn_view()?;
        let (vr, vc) = (view.view_rows(), view.view_columns());
        if vr == 0 || vc == 0 {
            return None;
        }
        let mut elems = Vec::new();
        for i in 0..vr {
            for j in 0..vc {
                elems.push(view.try_get_reference(i, j)?.clone());
            }
        }
        op.container = Matrix::from_flat_row_major((vr, vc), elems);
        Some(op)
    }
    fn base(&self) -> Matrix<T> {
        Matrix::from_flat_row_major((self.rows, self.cols), self.data.clone())
    }
    fn dyn_view(&self) -> Option<DynM<T>> {
        let mut v: DynM<T> = Box::new(self.base());
        for st in &self.steps {
            v = apply_mstep(v, st)?;
        }
        Some(v)
    }
    fn plain(&self) -> bool {
        self.steps.is_empty()
    }
    /// the same elements as a tensor named (d<a>, d<b>)
    fn as_tensor(&self, a: usize, b: usize) -> Tensor<T, 2> {
        let (r, c) = self.container.size();
        Tensor::from([(dim(a), r), (dim(b), c)], self.container.row_major_iter().collect())
    }
}

fn enc_matrix<T: Enc + Clone>(m: &Matrix<T>) -> Sx {
    let (r, c) = m.size();
    l(vec![z(r), z(c), l(m.row_major_iter().map(|x| x.enc()).collect())])
}
fn out_matrix<T: Enc + Clone>(r: Option<Matrix<T>>) -> Sx {
    match r {
        Some(m) => ok(enc_matrix(&m)),
        None => panicked(),
    }
}
/// A tensor result in the matrix encoding (names dropped).
fn out_tensor_as_matrix<T: Enc + Clone>(r: Option<Tensor<T, 2>>) -> Sx {
    match r {
        Some(t) => {
            let s = t.shape();
            ok(l(vec![z(s[0].1), z(s[1].1), l(t.iter().map(|x| x.enc()).collect())]))
        }
        None => panicked(),
    }
}

fn m_binary_forms<T, SX, SY>(
    op: i64,
    cx: &dyn Fn() -> Matrix<T>,
    vx: &dyn Fn() -> MatrixView<T, SX>,
    cy: &dyn Fn() -> Matrix<T>,
    vy: &dyn Fn() -> MatrixView<T, SY>,
    only: Option<usize>,
) -> Sx
where
    T: Numeric + Enc + PartialEq + 'static,
    for<'a> &'a T: NumericRef<T>,
    SX: MatrixRef<T> + easy_ml::matrices::views::NoInteriorMutability,
    SY: MatrixRef<T> + easy_ml::matrices::views::NoInteriorMutability,
{
    match op {
        11 => forms16_or_one!(only, 1100, out_matrix, +, cx, vx, cy, vy),
        12 => forms16_or_one!(only, 1200, out_matrix, -, cx, vx, cy, vy),
        15 => forms16_or_one!(only, 1500, out_matrix, *, cx, vx, cy, vy),
        _ => bad_case(),
    }
}

fn m_binary_case<T>(op: i64, x: &Sx, y: &Sx, only: Option<usize>) -> Sx
where
    T: Numeric + Enc + PartialEq + 'static,
    for<'a> &'a T: NumericRef<T>,
{
    let (Some(x), Some(y)) = (MOp::<T>::decode(x), MOp::<T>::decode(y)) else {
        return bad_case();
    };
    let cx = || x.container.clone();
    let cy = || y.container.clone();
    let result = match (x.plain(), y.plain()) {
        (true, true) => m_binary_forms::<T, _, _>(
            op,
            &cx,
            &|| MatrixView::from(x.base()),
            &cy,
            &|| MatrixView::from(y.base()),
            only,
        ),
        (true, false) => m_binary_forms::<T, _, _>(
            op,
            &cx,
            &|| MatrixView::from(x.base()),
            &cy,
            &|| MatrixView::from(y.dyn_view().unwrap()),
            only,
        ),
        (false, true) => m_binary_forms::<T, _, _>(
            op,
            &cx,
            &|| MatrixView::from(x.dyn_view().unwrap()),
            &cy,
            &|| MatrixView::from(y.base()),
            only,
        ),
        (false, false) => m_binary_forms::<T, _, _>(
            op,
            &cx,
            &|| MatrixView::from(x.dyn_view().unwrap()),
            &cy,
            &|| MatrixView::from(y.dyn_view().unwrap()),
            only,
        ),
    };
    if only.is_some() {
        return result;
    }
    // ---- the tensor API on the same data must compute the same flat data
    // (a) plain tensors holding the same elements
    let (ya, yb) = if op == 15 { (2, 3) } else { (0, 1) };
    let (tx, ty) = (x.as_tensor(0, 1), y.as_tensor(ya, yb));
    let via_tensor = match op {
        11 => out_tensor_as_matrix(guarded(|| &tx + &ty)),
        12 => out_tensor_as_matrix(guarded(|| &tx - &ty)),
        _ => out_tensor_as_matrix(guarded(|| &tx * &ty)),
    };
    if via_tensor != result {
        return inconsistent(700);
    }
    // (b) the matrix views themselves as tensor sources (TensorRefMatrix), and the tensors as
    // matrix sources (MatrixRefTensor)
    let tvx = || {
        TensorView::from(TensorRefMatrix::with_names(x.dyn_view().unwrap(), [dim(0), dim(1)]).unwrap())
    };
    let tvy = || {
        TensorView::from(TensorRefMatrix::with_names(y.dyn_view().unwrap(), [dim(ya), dim(yb)]).unwrap())
    };
    let via_interop = match op {
        11 => out_tensor_as_matrix(guarded(|| tvx() + tvy())),
        12 => out_tensor_as_matrix(guarded(|| tvx() - &ty)),
        _ => out_tensor_as_matrix(guarded(|| &tx * tvy())),
    };
    if via_interop != result {
        return inconsistent(701);
    }
    let mvx = || MatrixView::from(MatrixRefTensor::from(x.as_tensor(0, 1)));
    let mvy = || MatrixView::from(MatrixRefTensor::from(y.as_tensor(ya, yb)));
    let via_back = match op {
        11 => out_matrix(guarded(|| mvx() + mvy())),
        12 => out_matrix(guarded(|| mvx() - &y.container)),
        _ => out_matrix(guarded(|| &x.container * mvy())),
    };
    if via_back != result {
        return inconsistent(702);
    }
    result
}

fn m_scalar_case<T>(x: &Sx, k: i64, s: &T, only: Option<usize>) -> Sx
where
    T: Numeric + Enc + PartialEq + 'static,
    for<'a> &'a T: NumericRef<T>,
{
    let s: T = s.clone();
    let Some(x) = MOp::<T>::decode(x) else { return bad_case() };
    let cx = || x.container.clone();
    let vx = || MatrixView::from(x.dyn_view().unwrap());
    if let Some(f) = only {
        return match k {
            0 => form8_at!(out_matrix, +, f, cx, vx, s),
            1 => form8_at!(out_matrix, -, f, cx, vx, s),
            2 => form8_at!(out_matrix, *, f, cx, vx, s),
            _ => form8_at!(out_matrix, /, f, cx, vx, s),
        };
    }
    let r = match k {
        0 => forms8!(out_matrix, +, cx, vx, s),
        1 => forms8!(out_matrix, -, cx, vx, s),
        2 => forms8!(out_matrix, *, cx, vx, s),
        _ => forms8!(out_matrix, /, cx, vx, s),
    };
    let result = canon(r, 1300);
    let t = x.as_tensor(0, 1);
    let via_tensor = match k {
        0 => out_tensor_as_matrix(guarded(|| &t + &s)),
        1 => out_tensor_as_matrix(guarded(|| &t - &s)),
        2 => out_tensor_as_matrix(guarded(|| &t * &s)),
        _ => out_tensor_as_matrix(guarded(|| &t / &s)),
    };
    if via_tensor != result {
        return inconsistent(710);
    }
    result
}

fn m_neg_case<T>(x: &Sx, only: Option<usize>) -> Sx
where
    T: Numeric + Enc + PartialEq + 'static,
    for<'a> &'a T: NumericRef<T>,
{
    let Some(x) = MOp::<T>::decode(x) else { return bad_case() };
    let cx = || x.container.clone();
    let vx = || MatrixView::from(x.dyn_view().unwrap());
    if let Some(f) = only {
        return match f {
            0 => out_matrix(guarded(|| -cx())),
            1 => out_matrix(guarded(|| -&cx())),
            2 => out_matrix(guarded(|| -vx())),
            _ => out_matrix(guarded(|| -&vx())),
        };
    }
    let r = vec![
        out_matrix(guarded(|| -cx())),
        out_matrix(guarded(|| -&cx())),
        out_matrix(guarded(|| -vx())),
        out_matrix(guarded(|| -&vx())),
    ];
    let result = canon(r, 1600);
    let t = x.as_tensor(0, 1);
    if out_tensor_as_matrix(guarded(|| t.map(|e| -e))) != result {
        return inconsistent(720);
    }
    result
}

/// (3 17 ty MX MY): the four PartialEq impls on matrices / matrix views (`==` and `!=`), the tensor
/// API on the same data; with `only = Some(form)` just that impl.
fn m_eq_case<T>(x: &Sx, y: &Sx, only: Option<usize>) -> Sx
where
    T: Numeric + Enc + PartialEq + 'static,
    for<'a> &'a T: NumericRef<T>,
{
    let (Some(x), Some(y)) = (MOp::<T>::decode(x), MOp::<T>::decode(y)) else {
        return bad_case();
    };
    let out = |r: Option<bool>| match r {
        Some(b) => ok(boolean(b)),
        None => panicked(),
    };
    let vx = || MatrixView::from(x.dyn_view().unwrap());
    let vy = || MatrixView::from(y.dyn_view().unwrap());
    let form = |f: usize| match f {
        0 => out(guarded(|| x.container == y.container)),
        1 => out(guarded(|| x.container == vy())),
        2 => out(guarded(|| vx() == y.container)),
        _ => out(guarded(|| vx() == vy())),
    };
    if let Some(f) = only {
        return form(f);
    }
    let mut r: Vec<Sx> = (0..4).map(form).collect();
    // `!=` is the negation
    r.push(out(guarded(|| !(x.container != y.container))));
    r.push(out(guarded(|| !(x.container != vy()))));
    r.push(out(guarded(|| !(vx() != y.container))));
    r.push(out(guarded(|| !(vx() != vy()))));
    // views directly over the containers (row major on both sides), mixed with the adaptor chains
    r.push(out(guarded(|| MatrixView::from(&x.container) == MatrixView::from(&y.container))));
    r.push(out(guarded(|| MatrixView::from(&x.container) == vy())));
    r.push(out(guarded(|| vx() == MatrixView::from(&y.container))));
    // the tensor API on the same data
    let (tx, ty) = (x.as_tensor(0, 1), y.as_tensor(0, 1));
    r.push(out(guarded(|| tx == ty)));
    let tvx = || {
        TensorView::from(TensorRefMatrix::with_names(x.dyn_view().unwrap(), [dim(0), dim(1)]).unwrap())
    };
    let tvy = || {
        TensorView::from(TensorRefMatrix::with_names(y.dyn_view().unwrap(), [dim(0), dim(1)]).unwrap())
    };
    r.push(out(guarded(|| tvx() == tvy())));
    r.push(out(guarded(|| tvx() == ty)));
    r.push(out(guarded(|| tx == tvy())));
    canon(r, 1700)
}

// ================================================================== f64 oracle
impl Enc for f64 {
    /// bit pattern; every NaN is the same value (payload and sign of a NaN are unspecified)
    fn enc(&self) -> Sx {
        if self.is_nan() {
            z(-1)
        } else {
            z(self.to_bits())
        }
    }
    fn dec(s: &Sx) -> Option<Self> {
        Some(f64::from_bits(s.int()?.to_u64()?))
    }
    fn small(v: i64) -> Self {
        v as f64
    }
}

fn fold_products(a: &[f64], b: &[f64]) -> f64 {
    let mut it = a.iter().zip(b.iter()).map(|(x, y)| x * y);
    let first = it.next().expect("non-empty");
    it.fold(first, |acc, p| acc + p)
}
fn scalar_f(k: i64, a: f64, s: f64) -> f64 {
    match k {
        0 => a + s,
        1 => a - s,
        2 => a * s,
        _ => a / s,
    }
}

fn expected_t_binary<const D: usize>(fop: i64, x: &Sx, y: &Sx) -> Sx {
    let (Some(x), Some(y)) = (TOp::<f64, D>::decode(x), TOp::<f64, D>::decode(y)) else {
        return bad_case();
    };
    if x.container.shape() != y.container.shape() {
        return bad_case();
    }
    let (a, b): (Vec<f64>, Vec<f64>) = (x.container.iter().collect(), y.container.iter().collect());
    let data: Vec<f64> = a
        .iter()
        .zip(b.iter())
        .map(|(p, q)| match fop {
            1 => p + q,
            2 => p - q,
            _ => p * q,
        })
        .collect();
    ok(l(vec![shape_sx(&x.container.shape()), enc_list_f(&data)]))
}
fn enc_list_f(v: &[f64]) -> Sx {
    l(v.iter().map(|x| x.enc()).collect())
}
fn expected_t_unary<const D: usize>(x: &Sx, k: Option<(i64, f64)>) -> Sx {
    let Some(x) = TOp::<f64, D>::decode(x) else { return bad_case() };
    let data: Vec<f64> = x
        .container
        .iter()
        .map(|a| match k {
            Some((k, s)) => scalar_f(k, a, s),
            None => -a,
        })
        .collect();
    ok(l(vec![shape_sx(&x.container.shape()), enc_list_f(&data)]))
}
fn expected_m_unary(x: &Sx, k: Option<(i64, f64)>) -> Sx {
    let Some(x) = MOp::<f64>::decode(x) else { return bad_case() };
    let (r, c) = x.container.size();
    let data: Vec<f64> = x
        .container
        .row_major_iter()
        .map(|a| match k {
            Some((k, s)) => scalar_f(k, a, s),
            None => -a,
        })
        .collect();
    ok(l(vec![z(r), z(c), enc_list_f(&data)]))
}

fn float_oracle(fop: i64, args: &[Sx]) -> Sx {
    let actual = run_ty::<f64>(fop, args);
    let expected = match fop {
        1 | 2 | 7 if args.len() == 2 => {
            let Some(d) = operand_dims(&args[0]) else { return bad_case() };
            crate::with_d!(d, expected_t_binary(fop, &args[0], &args[1]))
        }
        3 if args.len() == 3 => {
            let Some(d) = operand_dims(&args[0]) else { return bad_case() };
            let (Some(k), Some(s)) = (args[1].i64(), f64::dec(&args[2])) else { return bad_case() };
            crate::with_d!(d, expected_t_unary(&args[0], Some((k, s))))
        }
        6 if args.len() == 1 => {
            let Some(d) = operand_dims(&args[0]) else { return bad_case() };
            crate::with_d!(d, expected_t_unary(&args[0], None))
        }
        4 if args.len() == 2 => {
            let (Some(x), Some(y)) = (TOp::<f64, 1>::decode(&args[0]), TOp::<f64, 1>::decode(&args[1]))
            else {
                return bad_case();
            };
            if x.container.shape() != y.container.shape() {
                return bad_case();
            }
            let (a, b): (Vec<f64>, Vec<f64>) = (x.container.iter().collect(), y.container.iter().collect());
            ok(fold_products(&a, &b).enc())
        }
        5 if args.len() == 2 => {
            let (Some(x), Some(y)) = (TOp::<f64, 2>::decode(&args[0]), TOp::<f64, 2>::decode(&args[1]))
            else {
                return bad_case();
            };
            let (xs, ys) = (x.container.shape(), y.container.shape());
            if xs[1].1 != ys[0].1 || xs[0].0 == ys[1].0 {
                return bad_case();
            }
            let (a, b): (Vec<f64>, Vec<f64>) = (x.container.iter().collect(), y.container.iter().collect());
            let (m, n, k) = (xs[0].1, xs[1].1, ys[1].1);
            let mut data = Vec::with_capacity(m * k);
            for i in 0..m {
                for j in 0..k {
                    let row: Vec<f64> = (0..n).map(|t| a[i * n + t]).collect();
                    let col: Vec<f64> = (0..n).map(|t| b[t * k + j]).collect();
                    data.push(fold_products(&row, &col));
                }
            }
            ok(l(vec![shape_sx(&[xs[0], ys[1]]), enc_list_f(&data)]))
        }
        11 | 12 | 15 if args.len() == 2 => {
            let (Some(x), Some(y)) = (MOp::<f64>::decode(&args[0]), MOp::<f64>::decode(&args[1])) else {
                return bad_case();
            };
            let ((m, n), (n2, k)) = (x.container.size(), y.container.size());
            let (a, b): (Vec<f64>, Vec<f64>) =
                (x.container.row_major_iter().collect(), y.container.row_major_iter().collect());
            if fop == 15 {
                if n != n2 {
                    return bad_case();
                }
                let mut data = Vec::with_capacity(m * k);
                for i in 0..m {
                    for j in 0..k {
                        let row: Vec<f64> = (0..n).map(|t| a[i * n + t]).collect();
                        let col: Vec<f64> = (0..n).map(|t| b[t * k + j]).collect();
                        data.push(fold_products(&row, &col));
                    }
                }
                ok(l(vec![z(m), z(k), enc_list_f(&data)]))
            } else {
                if (m, n) != (n2, k) {
                    return bad_case();
                }
                let data: Vec<f64> =
                    a.iter().zip(b.iter()).map(|(p, q)| if fop == 11 { p + q } else { p - q }).collect();
                ok(l(vec![z(m), z(n), enc_list_f(&data)]))
            }
        }
        13 if args.len() == 3 => {
            let (Some(k), Some(s)) = (args[1].i64(), f64::dec(&args[2])) else { return bad_case() };
            expected_m_unary(&args[0], Some((k, s)))
        }
        16 if args.len() == 1 => expected_m_unary(&args[0], None),
        _ => return bad_case(),
    };
    if expected == bad_case() || actual == bad_case() {
        return bad_case();
    }
    if actual == expected {
        l(vec![z(1)])
    } else if actual.list().and_then(|v| v.first()).and_then(|c| c.i64()) == Some(-8) {
        actual
    } else {
        inconsistent(3000 + fop)
    }
}
