//! The straight-line program language shared by C04 (Record) and C05 (Trace): parser, the table
//! of caller-supplied functions (identical to user1_table / user2_table in Model/AD.v) and the
//! Record interpreter that executes every instruction through a selectable ownership / kind form.
//!   body instruction: (0 x) var | (1 c) const | (2 o a b) rec(op)rec | (3 o a c) rec(op)num |
//!                     (4 o c b) num(op)rec | (5 u a) unary | (6 (a..)) sum | (7 f a) | (8 f a b)
use crate::num::Enc;
use crate::sx::*;
use easy_ml::differentiation::record_operations::SwappedOperations;
use easy_ml::differentiation::{Primitive, Record, Trace, WengertList};
use easy_ml::numeric::extra::{Cos, Exp, Ln, Pow, Real, RealRef, Sin, Sqrt};
use easy_ml::numeric::ZeroOne;

#[derive(Clone, Debug)]
pub enum Ins<T> {
    Var(T),
    Const(T),
    Bin(u8, usize, usize),
    BinC(u8, usize, T),
    CBin(u8, T, usize),
    Un(u8, usize),
    Sum(Vec<usize>),
    User1(usize, usize),
    User2(usize, usize, usize),
}

pub fn parse_prog<T: Enc>(body: &Sx) -> Option<Vec<Ins<T>>> {
    parse_prog_with(body, &T::dec)
}

/// f64 numbers of the float oracle: (m e) = m * 2^e exactly (|m| < 2^53, |e| <= 60)
pub fn dec_f64(s: &Sx) -> Option<f64> {
    let v = s.list()?;
    if v.len() != 2 {
        return None;
    }
    let (m, e) = (v[0].i64()?, v[1].i64()?);
    if m.abs() >= (1i64 << 53) || e.abs() > 60 {
        return None;
    }
    Some(m as f64 * 2f64.powi(e as i32))
}

pub fn parse_prog_with<T>(body: &Sx, dec: &dyn Fn(&Sx) -> Option<T>) -> Option<Vec<Ins<T>>> {
    let mut prog = vec![];
    for (k, s) in body.list()?.iter().enumerate() {
        let v = s.list()?;
        let tag = v.first()?.i64()?;
        let earlier = |x: &Sx| -> Option<usize> {
            let a = x.usize()?;
            if a < k {
                Some(a)
            } else {
                None
            }
        };
        let ins = match (tag, v.len()) {
            (0, 2) => Ins::Var(dec(&v[1])?),
            (1, 2) => Ins::Const(dec(&v[1])?),
            (2, 4) => {
                let o = v[1].i64()?;
                if !(0..=4).contains(&o) {
                    return None;
                }
                Ins::Bin(o as u8, earlier(&v[2])?, earlier(&v[3])?)
            }
            (3, 4) => {
                let o = v[1].i64()?;
                if !(0..=4).contains(&o) {
                    return None;
                }
                Ins::BinC(o as u8, earlier(&v[2])?, dec(&v[3])?)
            }
            (4, 4) => {
                let o = v[1].i64()?;
                if ![1, 3, 4].contains(&o) {
                    return None;
                }
                Ins::CBin(o as u8, dec(&v[2])?, earlier(&v[3])?)
            }
            (5, 3) => {
                let u = v[1].i64()?;
                if !(0..=5).contains(&u) {
                    return None;
                }
                Ins::Un(u as u8, earlier(&v[2])?)
            }
            (6, 2) => Ins::Sum(v[1].list()?.iter().map(earlier).collect::<Option<Vec<_>>>()?),
            (7, 3) => {
                let f = v[1].i64()?;
                if !(0..=3).contains(&f) {
                    return None;
                }
                Ins::User1(f as usize, earlier(&v[2])?)
            }
            (8, 4) => {
                let f = v[1].i64()?;
                if !(0..=3).contains(&f) {
                    return None;
                }
                Ins::User2(f as usize, earlier(&v[2])?, earlier(&v[3])?)
            }
            _ => return None,
        };
        prog.push(ins);
    }
    Some(prog)
}

pub fn var_nodes<T>(prog: &[Ins<T>]) -> Vec<usize> {
    prog.iter().enumerate().filter(|(_, i)| matches!(i, Ins::Var(_))).map(|(k, _)| k).collect()
}

pub fn parse_outs(outs: &Sx, n: usize) -> Option<Vec<usize>> {
    let v = outs.usizes()?;
    if v.iter().any(|&o| o >= n) {
        return None;
    }
    Some(v)
}

// ---- caller-supplied functions (Model/AD.v: user1_table, user2_table) ----
pub trait Num: Real + Primitive + PartialEq + std::fmt::Debug {}
impl<T: Real + Primitive + PartialEq + std::fmt::Debug> Num for T {}

fn two<T: Num>() -> T {
    T::one() + T::one()
}
pub fn user1_f<T: Num>(k: usize, x: T) -> T {
    match k {
        0 => x.clone() * x,
        1 => (x.clone() * x.clone()) * x.clone() + two::<T>() * x,
        2 => T::one() / x,
        _ => x + T::one(),
    }
}
pub fn user1_df<T: Num>(k: usize, x: T) -> T {
    match k {
        0 => x.clone() + x,
        1 => (two::<T>() + T::one()) * (x.clone() * x) + two::<T>(),
        2 => -(T::one() / (x.clone() * x)),
        _ => x,
    }
}
pub fn user2_f<T: Num>(k: usize, x: T, y: T) -> T {
    match k {
        0 => x.clone() * y + x,
        1 => x / y,
        2 => x - y.clone() * y,
        _ => x * y,
    }
}
pub fn user2_dx<T: Num>(k: usize, x: T, y: T) -> T {
    match k {
        0 => y + T::one(),
        1 => T::one() / y,
        2 => T::one(),
        _ => x,
    }
}
pub fn user2_dy<T: Num>(k: usize, x: T, y: T) -> T {
    match k {
        0 => x,
        1 => -(x / (y.clone() * y)),
        2 => -(y.clone() + y),
        _ => y,
    }
}

// ---- the same computation on plain numbers (the crate's operators on T itself) ----
pub fn run_plain<T: Num>(prog: &[Ins<T>]) -> Vec<T>
where
    for<'t> &'t T: RealRef<T>,
{
    let mut v: Vec<T> = Vec::with_capacity(prog.len());
    let bop = |o: u8, x: T, y: T| -> T {
        match o {
            0 => x + y,
            1 => x - y,
            2 => x * y,
            3 => x / y,
            _ => x.pow(y),
        }
    };
    for ins in prog {
        let r = match ins {
            Ins::Var(x) => x.clone(),
            Ins::Const(c) => c.clone(),
            Ins::Bin(o, a, b) => bop(*o, v[*a].clone(), v[*b].clone()),
            Ins::BinC(o, a, c) => bop(*o, v[*a].clone(), c.clone()),
            Ins::CBin(o, c, b) => bop(*o, c.clone(), v[*b].clone()),
            Ins::Un(u, a) => {
                let x = v[*a].clone();
                match u {
                    0 => -x,
                    1 => x.sin(),
                    2 => x.cos(),
                    3 => x.exp(),
                    4 => x.ln(),
                    _ => x.sqrt(),
                }
            }
            Ins::Sum(l) => l.iter().map(|&a| v[a].clone()).sum(),
            Ins::User1(g, a) => user1_f(*g, v[*a].clone()),
            Ins::User2(g, a, b) => user2_f(*g, v[*a].clone(), v[*b].clone()),
        };
        v.push(r);
    }
    v
}

// ---- iterator SHAPES for every place where an iterator is handed to the crate (Sum) ----
/// The same logical sequence of items is handed to `Sum::sum` through iterators of different
/// SHAPE; every shape must give the same answer as the exact-size Vec iterator (shape 0).
/// HONEST shapes (their size_hint is a true statement about the remaining items):
///   0 vec::IntoIter (n, Some(n))        1 filter(|_| true) (0, Some(n))      2 hint (0, None)
///   3 from_fn (0, None)                 4 chain(vec half, filtered half)     5 flat_map(Some) (0, None)
///   6 take_while / skip_while           7 Box<dyn Iterator> over scan        8 hint (n, None)
///   9 not fused: after its first None the iterator would yield one more item (a consumer must
///     stop at the first None, as std's sums over plain numbers do)
///  10 by `&mut iterator` (Sum::sum(iter.by_ref())) over a filter_map
/// LYING shapes (size_hint is safe code and may be wrong; the items yielded are still the
/// logical sequence, and summation has no reason to consult the hint at all):
///  11 (0, Some(0))   12 (usize::MAX, None)   13 (1, Some(1))   14 (n + 1, Some(n + 1))
///  15 (usize::MAX, Some(usize::MAX))
/// (the shape machinery itself now lives in the shared module `crate::shapes`, which every
/// property's harness uses at its iterator hand-off sites - notes/ITERS.md; it adds the honest
/// shapes 16 loose upper bound (0, Some(n + 3)), 17 peeked Peekable, 18 VecDeque::into_iter)
pub const SUM_SHAPES: u8 = crate::shapes::SHAPES;

pub fn sum_shaped<S: std::iter::Sum<S> + Clone>(shape: u8, items: Vec<S>) -> S {
    crate::shapes::sum_shaped(shape, items)
}

pub fn has_sum<T>(prog: &[Ins<T>]) -> bool {
    prog.iter().any(|i| matches!(i, Ins::Sum(_)))
}

// ---- the Record interpreter ----
/// mode 0..=3: every operator through ownership form `mode` (0 ref(op)ref, 1 value(op)value,
/// 2 value(op)ref, 3 ref(op)value; unary forms: mode % 2); mode 4: the form varies per instruction;
/// mode 5: the OTHER operand kind wherever one exists (record(op)number <-> record(op)constant
/// record, number(op)record <-> constant record(op)record, Sum <-> fold with +).
pub fn form_of(mode: u8, k: usize) -> usize {
    match mode {
        0..=3 => mode as usize,
        4 => (k * 7 + 3) % 4 ^ (k / 4 % 2),
        _ => 0,
    }
}

fn rr<'a, T: Num>(o: u8, f: usize, a: &Record<'a, T>, b: &Record<'a, T>) -> Record<'a, T>
where
    for<'t> &'t T: RealRef<T>,
{
    macro_rules! forms {
        ($op:tt) => {
            match f {
                0 => a $op b,
                1 => a.clone() $op b.clone(),
                2 => a.clone() $op b,
                _ => a $op b.clone(),
            }
        };
    }
    match o {
        0 => forms!(+),
        1 => forms!(-),
        2 => forms!(*),
        3 => forms!(/),
        _ => match f {
            0 => Pow::pow(a, b),
            1 => Pow::pow(a.clone(), b.clone()),
            2 => Pow::pow(a.clone(), b),
            _ => Pow::pow(a, b.clone()),
        },
    }
}

fn rn<'a, T: Num>(o: u8, f: usize, a: &Record<'a, T>, c: &T) -> Record<'a, T>
where
    for<'t> &'t T: RealRef<T>,
{
    macro_rules! forms {
        ($op:tt) => {
            match f {
                0 => a $op c,
                1 => a.clone() $op c.clone(),
                2 => a.clone() $op c,
                _ => a $op c.clone(),
            }
        };
    }
    match o {
        0 => forms!(+),
        1 => forms!(-),
        2 => forms!(*),
        3 => forms!(/),
        _ => match f {
            0 => Pow::pow(a, c),
            1 => Pow::pow(a.clone(), c.clone()),
            2 => Pow::pow(a.clone(), c),
            _ => Pow::pow(a, c.clone()),
        },
    }
}

fn nr<'a, T: Num>(o: u8, f: usize, c: &T, b: &Record<'a, T>) -> Record<'a, T>
where
    for<'t> &'t T: RealRef<T>,
{
    match o {
        1 => match f {
            0 => SwappedOperations::sub_swapped(b, c),
            1 => SwappedOperations::sub_swapped(b.clone(), c.clone()),
            2 => SwappedOperations::sub_swapped(b.clone(), c),
            _ => SwappedOperations::sub_swapped(b, c.clone()),
        },
        3 => match f {
            0 => SwappedOperations::div_swapped(b, c),
            1 => SwappedOperations::div_swapped(b.clone(), c.clone()),
            2 => SwappedOperations::div_swapped(b.clone(), c),
            _ => SwappedOperations::div_swapped(b, c.clone()),
        },
        _ => match f {
            0 => Pow::pow(c, b),
            1 => Pow::pow(c.clone(), b.clone()),
            2 => Pow::pow(c.clone(), b),
            _ => Pow::pow(c, b.clone()),
        },
    }
}

fn un<'a, T: Num>(u: u8, f: usize, a: &Record<'a, T>) -> Record<'a, T>
where
    for<'t> &'t T: RealRef<T>,
{
    macro_rules! forms {
        ($tr:ident :: $m:ident) => {
            if f % 2 == 0 {
                $tr::$m(a)
            } else {
                $tr::$m(a.clone())
            }
        };
    }
    match u {
        0 => {
            if f % 2 == 0 {
                -a
            } else {
                -(a.clone())
            }
        }
        1 => forms!(Sin::sin),
        2 => forms!(Cos::cos),
        3 => forms!(Exp::exp),
        4 => forms!(Ln::ln),
        _ => forms!(Sqrt::sqrt),
    }
}

/// Re-wraps the result of Record::unary / Record::binary (whose lifetime is tied to the borrow
/// of the operand) as a record of the tape's own lifetime; None if it is not on `list`.
fn rewrap<'a, T: Num>(r: Record<'_, T>, list: &'a WengertList<T>) -> Option<Record<'a, T>> {
    let h = match r.history() {
        None => None,
        Some(h) => {
            if !std::ptr::eq(h, list) {
                return None;
            }
            Some(list)
        }
    };
    Some(Record::from_existing((r.number.clone(), r.index), h))
}

/// Runs the program on `list`; Err(code) if an API returned something impossible.
pub fn run_records<'a, T: Num>(
    list: &'a WengertList<T>,
    prog: &[Ins<T>],
    mode: u8,
) -> Result<Vec<Record<'a, T>>, i64>
where
    for<'t> &'t T: RealRef<T>,
{
    run_records_shaped::<T>(list, prog, mode, 0)
}

/// `shape`: the iterator shape (see `sum_shaped`) through which every Sum instruction hands its
/// items to `impl Sum for Record`
pub fn run_records_shaped<'a, T: Num>(
    list: &'a WengertList<T>,
    prog: &[Ins<T>],
    mode: u8,
    shape: u8,
) -> Result<Vec<Record<'a, T>>, i64>
where
    for<'t> &'t T: RealRef<T>,
{
    let mut nodes: Vec<Record<'a, T>> = Vec::with_capacity(prog.len());
    for (k, ins) in prog.iter().enumerate() {
        let f = form_of(mode, k);
        let other = mode == 5;
        let r: Record<'a, T> = match ins {
            Ins::Var(x) => {
                if f % 2 == 0 {
                    Record::variable(x.clone(), list)
                } else {
                    list.variable(x.clone())
                }
            }
            Ins::Const(c) => Record::constant(c.clone()),
            Ins::Bin(o, a, b) => {
                let (a, b) = (&nodes[*a], &nodes[*b]);
                if other && a.history().is_some() && b.history().is_none() {
                    rn::<T>(*o, 0, a, &b.number)
                } else if other && a.history().is_none() && b.history().is_some() {
                    match *o {
                        0 | 2 => rn::<T>(*o, 0, b, &a.number),
                        _ => nr::<T>(*o, 0, &a.number, b),
                    }
                } else {
                    rr::<T>(*o, f, a, b)
                }
            }
            Ins::BinC(o, a, c) => {
                if other {
                    rr::<T>(*o, 0, &nodes[*a], &Record::constant(c.clone()))
                } else {
                    rn::<T>(*o, f, &nodes[*a], c)
                }
            }
            Ins::CBin(o, c, b) => {
                if other {
                    rr::<T>(*o, 0, &Record::constant(c.clone()), &nodes[*b])
                } else {
                    nr::<T>(*o, f, c, &nodes[*b])
                }
            }
            Ins::Un(u, a) => un::<T>(*u, f, &nodes[*a]),
            Ins::Sum(l) => {
                if other {
                    let mut total = Record::<T>::zero();
                    for &a in l {
                        total = rr::<T>(0, a % 4, &total, &nodes[a]);
                    }
                    total
                } else {
                    sum_shaped::<Record<'a, T>>(shape, l.iter().map(|&a| nodes[a].clone()).collect())
                }
            }
            Ins::User1(g, a) => {
                let a = nodes[*a].clone();
                let g = *g;
                let r = a.unary(|x| user1_f(g, x), |x| user1_df(g, x));
                rewrap(r, list).ok_or(301)?
            }
            Ins::User2(g, a, b) => {
                let (a, b) = (nodes[*a].clone(), nodes[*b].clone());
                let g = *g;
                let r = a.binary(&b, |x, y| user2_f(g, x, y), |x, y| user2_dx(g, x, y), |x, y| user2_dy(g, x, y));
                rewrap(r, list).ok_or(302)?
            }
        };
        if let Some(h) = r.history() {
            if !std::ptr::eq(h, list) {
                return Err(303);
            }
        }
        nodes.push(r);
    }
    Ok(nodes)
}

// ---- the Trace interpreter (same forms / modes as run_records) ----
fn tt<T: Num>(o: u8, f: usize, a: &Trace<T>, b: &Trace<T>) -> Trace<T>
where
    for<'t> &'t T: RealRef<T>,
{
    macro_rules! forms {
        ($op:tt) => {
            match f {
                0 => a $op b,
                1 => a.clone() $op b.clone(),
                2 => a.clone() $op b,
                _ => a $op b.clone(),
            }
        };
    }
    match o {
        0 => forms!(+),
        1 => forms!(-),
        2 => forms!(*),
        3 => forms!(/),
        _ => match f {
            0 => Pow::pow(a, b),
            1 => Pow::pow(a.clone(), b.clone()),
            2 => Pow::pow(a.clone(), b),
            _ => Pow::pow(a, b.clone()),
        },
    }
}

fn tn<T: Num>(o: u8, f: usize, a: &Trace<T>, c: &T) -> Trace<T>
where
    for<'t> &'t T: RealRef<T>,
{
    macro_rules! forms {
        ($op:tt) => {
            match f {
                0 => a $op c,
                1 => a.clone() $op c.clone(),
                2 => a.clone() $op c,
                _ => a $op c.clone(),
            }
        };
    }
    match o {
        0 => forms!(+),
        1 => forms!(-),
        2 => forms!(*),
        3 => forms!(/),
        _ => match f {
            0 => Pow::pow(a, c),
            1 => Pow::pow(a.clone(), c.clone()),
            2 => Pow::pow(a.clone(), c),
            _ => Pow::pow(a, c.clone()),
        },
    }
}

fn npow<T: Num>(f: usize, c: &T, b: &Trace<T>) -> Trace<T>
where
    for<'t> &'t T: RealRef<T>,
{
    match f {
        0 => Pow::pow(c, b),
        1 => Pow::pow(c.clone(), b.clone()),
        2 => Pow::pow(c.clone(), b),
        _ => Pow::pow(c, b.clone()),
    }
}

fn tun<T: Num>(u: u8, f: usize, a: &Trace<T>) -> Trace<T>
where
    for<'t> &'t T: RealRef<T>,
{
    macro_rules! forms {
        ($tr:ident :: $m:ident) => {
            if f % 2 == 0 {
                $tr::$m(a)
            } else {
                $tr::$m(a.clone())
            }
        };
    }
    match u {
        0 => {
            if f % 2 == 0 {
                -a
            } else {
                -(a.clone())
            }
        }
        1 => forms!(Sin::sin),
        2 => forms!(Cos::cos),
        3 => forms!(Exp::exp),
        4 => forms!(Ln::ln),
        _ => forms!(Sqrt::sqrt),
    }
}

/// `seeded`: the trace to use for the variable instruction at position `seed`
pub fn run_traces<T: Num>(prog: &[Ins<T>], seed: usize, seeded: Trace<T>, mode: u8) -> Vec<Trace<T>>
where
    for<'t> &'t T: RealRef<T>,
{
    run_traces_shaped::<T>(prog, seed, seeded, mode, 0)
}

/// `shape`: the iterator shape (see `sum_shaped`) handed to `impl Sum for Trace`
pub fn run_traces_shaped<T: Num>(prog: &[Ins<T>], seed: usize, seeded: Trace<T>, mode: u8, shape: u8) -> Vec<Trace<T>>
where
    for<'t> &'t T: RealRef<T>,
{
    let mut nodes: Vec<Trace<T>> = Vec::with_capacity(prog.len());
    let other = mode == 5;
    for (k, ins) in prog.iter().enumerate() {
        let f = form_of(mode, k);
        let r: Trace<T> = match ins {
            Ins::Var(x) => {
                if k == seed {
                    seeded.clone()
                } else {
                    Trace::constant(x.clone())
                }
            }
            Ins::Const(c) => Trace::constant(c.clone()),
            Ins::Bin(o, a, b) => tt::<T>(*o, f, &nodes[*a], &nodes[*b]),
            Ins::BinC(o, a, c) => {
                if other {
                    tt::<T>(*o, 0, &nodes[*a], &Trace::constant(c.clone()))
                } else {
                    tn::<T>(*o, f, &nodes[*a], c)
                }
            }
            // number - trace and number / trace do not exist: lift the number
            Ins::CBin(o, c, b) => {
                if *o == 4 && !other {
                    npow::<T>(f, c, &nodes[*b])
                } else {
                    tt::<T>(*o, f, &Trace::constant(c.clone()), &nodes[*b])
                }
            }
            Ins::Un(u, a) => tun::<T>(*u, f, &nodes[*a]),
            Ins::Sum(l) => {
                if other {
                    let mut total = Trace::<T>::zero();
                    for &a in l {
                        total = tt::<T>(0, a % 4, &total, &nodes[a]);
                    }
                    total
                } else {
                    sum_shaped::<Trace<T>>(shape, l.iter().map(|&a| nodes[a].clone()).collect())
                }
            }
            Ins::User1(g, a) => {
                let g = *g;
                nodes[*a].unary(|x| user1_f(g, x), |x| user1_df(g, x))
            }
            Ins::User2(g, a, b) => {
                let g = *g;
                nodes[*a].binary(&nodes[*b], |x, y| user2_f(g, x, y), |x, y| user2_dx(g, x, y), |x, y| user2_dy(g, x, y))
            }
        };
        nodes.push(r);
    }
    nodes
}


// ---- float oracle (C04 op 2, C05 op 2): f64 through Record and Trace, checked on the Rust side only ----
fn same_bits(a: f64, b: f64) -> bool {
    a.to_bits() == b.to_bits() || (a.is_nan() && b.is_nan())
}
/// numeric equality; +0.0 and -0.0 are the same value (Neg is 0 - x with a tape and -x without),
/// NaN equals NaN
fn same_value(a: f64, b: f64) -> bool {
    a == b || (a.is_nan() && b.is_nan())
}
fn close(f: f64, r: f64) -> bool {
    if !f.is_finite() || !r.is_finite() {
        return !f.is_finite() && !r.is_finite();
    }
    (f - r).abs() <= 1e-12 * 1f64.max(f.abs()).max(r.abs())
}

/// The domain predicate of the "numbers == plain f64" flag, evaluated on the plain f64 run (the
/// reference computation): node k is OUTSIDE the domain if it is a pole at a zero divisor -- a
/// division (operator, div_swapped, the caller-supplied 1/x and x/y) whose divisor is +0.0 or
/// -0.0, or a power of a zero base with a negative exponent -- or if one of its operands is
/// outside.  +0.0 and -0.0 are the same number (Neg for Record / Trace is `0 - x`, which is +0.0
/// at x = +0.0 where plain `-x` is -0.0); the sign of a zero is observable only through such a
/// pole (1/+0 = +inf, 1/-0 = -inf), which the property excludes ("all input points in the
/// functions' domains"), so numbers at and downstream of a pole are not compared.  Everything
/// else -- NaN from ln / sqrt of a negative number, overflow to infinity, 0^0, ... -- IS compared.
pub fn in_pole_free_domain(prog: &[Ins<f64>], plain: &[f64]) -> Vec<bool> {
    let mut ok: Vec<bool> = Vec::with_capacity(prog.len());
    for ins in prog {
        let pole2 = |o: u8, x: f64, y: f64| match o {
            3 => y == 0.0,
            4 => x == 0.0 && y < 0.0,
            _ => false,
        };
        let r = match ins {
            Ins::Var(_) | Ins::Const(_) => true,
            Ins::Bin(o, a, b) => ok[*a] && ok[*b] && !pole2(*o, plain[*a], plain[*b]),
            Ins::BinC(o, a, c) => ok[*a] && !pole2(*o, plain[*a], *c),
            Ins::CBin(o, c, b) => ok[*b] && !pole2(*o, *c, plain[*b]),
            Ins::Un(_, a) => ok[*a],
            Ins::Sum(l) => l.iter().all(|&a| ok[a]),
            // user1 entry 2 is 1 / x
            Ins::User1(g, a) => ok[*a] && !(*g == 2 && plain[*a] == 0.0),
            // user2 entry 1 is x / y
            Ins::User2(g, a, b) => ok[*a] && ok[*b] && !(*g == 1 && plain[*b] == 0.0),
        };
        ok.push(r);
    }
    ok
}

/// Returns the three flags (forms agree bit for bit, forward derivative == reverse derivative,
/// numbers == the plain f64 computation on `in_pole_free_domain`) for the given seeds (positions
/// of variable instructions).
/// Forward against reverse: the Record run turns every constant instruction into a variable so
/// that EVERY local partial derivative is on the tape; if any entry of the complete reverse
/// derivative vector is not finite (0^negative, ln of a non-positive base of a power, division by
/// zero ...: forward mode multiplies such a partial by a zero tangent and gets NaN where reverse
/// mode never reads it) the comparison is skipped for that output.
pub fn float_oracle(prog: &[Ins<f64>], outs: &[usize], seeds: &[usize]) -> (bool, bool, bool) {
    let (mut forms, mut fwd_rev, mut values) = (true, true, true);
    let plain = run_plain::<f64>(prog);
    let dom = in_pole_free_domain(prog, &plain);
    // Record, ownership forms 0..=4
    let mut rec_canon: Option<Vec<(u64, bool, Vec<u64>)>> = None;
    // modes 0..5 with the exact-size Vec iterator; then, if the program sums, every other iterator
    // SHAPE (in ownership form shape % 5)
    let shapes: u8 = if has_sum(prog) { SUM_SHAPES } else { 1 };
    let runs: Vec<(u8, u8)> = (0..5u8).map(|m| (m, 0)).chain((1..shapes).map(|s| (s % 5, s))).collect();
    for &(mode, shape) in &runs {
        let list = WengertList::<f64>::new();
        let Ok(nodes) = run_records_shaped::<f64>(&list, prog, mode, shape) else { return (false, false, false) };
        if !nodes.iter().zip(plain.iter()).zip(dom.iter()).all(|((r, p), d)| !*d || same_value(r.number, *p)) {
            values = false;
        }
        let obs: Vec<(u64, bool, Vec<u64>)> = outs
            .iter()
            .map(|&o| {
                let d: Vec<f64> = nodes[o].try_derivatives().map(|d| d.into()).unwrap_or_default();
                let canon = |x: f64| if x.is_nan() { u64::MAX } else { x.to_bits() };
                (canon(nodes[o].number), nodes[o].history().is_none(), d.into_iter().map(canon).collect())
            })
            .collect();
        match &rec_canon {
            None => rec_canon = Some(obs),
            Some(c) => {
                if *c != obs {
                    forms = false;
                }
            }
        }
    }
    // reverse mode with every leaf a variable
    let all_vars: Vec<Ins<f64>> =
        prog.iter().map(|i| if let Ins::Const(c) = i { Ins::Var(*c) } else { i.clone() }).collect();
    let list = WengertList::<f64>::new();
    let Ok(recs) = run_records::<f64>(&list, &all_vars, 0) else { return (false, false, false) };
    let any_leafless = recs.iter().any(|r| r.history().is_none());
    for &seed in seeds {
        let Some(Ins::Var(x0)) = prog.get(seed) else { return (false, false, false) };
        let mut canon: Option<Vec<(f64, f64)>> = None;
        for &(mode, shape) in &runs {
            let nodes = run_traces_shaped::<f64>(prog, seed, Trace::variable(*x0), mode, shape);
            if !nodes.iter().zip(plain.iter()).zip(dom.iter()).all(|((t, p), d)| !*d || same_value(t.number, *p)) {
                values = false;
            }
            let obs: Vec<(f64, f64)> = outs.iter().map(|&o| (nodes[o].number, nodes[o].derivative)).collect();
            match &canon {
                None => canon = Some(obs),
                Some(c) => {
                    if !c.iter().zip(obs.iter()).all(|(a, b)| same_bits(a.0, b.0) && same_bits(a.1, b.1)) {
                        forms = false;
                    }
                }
            }
        }
        let canon = canon.unwrap();
        if any_leafless {
            continue;
        }
        for (i, &o) in outs.iter().enumerate() {
            let Some(d) = recs[o].try_derivatives() else { continue };
            let reverse = d.at(&recs[seed]);
            let full: Vec<f64> = d.into();
            if full.iter().any(|x| !x.is_finite()) {
                continue;
            }
            if !close(canon[i].1, reverse) {
                fwd_rev = false;
            }
        }
    }
    (forms, fwd_rev, values)
}
