//! op 14: views over leaves with a ZERO-SIZED element type (`Tensor<[u8; 0], D>` built with
//! `vec![[0u8; 0]; n]`: O(1) memory for any n up to usize::MAX), so that dimension lengths near
//! usize::MAX are reachable through the public API (finding F16: the total length of a
//! TensorChain).  Term language (a subset of C02's): (0 id shape) leaf, (1 t (1 strict ranges))
//! TensorRange::from_all(_strict), (2 t (1 strict masks)) TensorMask, (6 t names) TensorReverse,
//! (9 (ts) pos name kind) TensorStack, (10 (ts) name kind) TensorChain; kind 0 = array of erased
//! sources, 1 = tuple.  Observed: the constructor outcome, view_shape, and PRESENCE through
//! get_reference and get_reference_mut at the probes.  Never an element value, never an iteration.
//! Result: (0 (shape ((0 ()) | (0 (1)) | (2) ...))) or the first failing constructor's (1 e) / (2);
//! (-8 1650) if view_shape panics, (-8 1651) if the shared and the mutable getter disagree.
use super::view_build::{e_shape, e_strict, index_range, params, Params};
use crate::guarded;
use crate::sx::*;
use easy_ml::tensors::views::{
    IndexRange, TensorChain, TensorMask, TensorMut, TensorRange, TensorReverse, TensorStack,
};
use easy_ml::tensors::Tensor;

pub type Z = [u8; 0];
pub type Dyn<const D: usize> = Box<dyn TensorMut<Z, D>>;
pub enum V {
    D1(Dyn<1>),
    D2(Dyn<2>),
    D3(Dyn<3>),
}

fn leaf<const D: usize>(shape: &[(usize, usize)]) -> Result<Dyn<D>, Sx> {
    let mut n: usize = 1;
    for d in shape {
        n = match n.checked_mul(d.1) {
            Some(x) => x,
            None => return Err(bad_case()),
        };
    }
    let data: Vec<Z> = vec![[0u8; 0]; n];
    match guarded(|| Tensor::try_from(shape_arr::<D>(shape), data)) {
        None => Err(panicked()),
        Some(Ok(t)) => Ok(Box::new(t)),
        Some(Err(e)) => Err(err(e_shape(&e))),
    }
}

fn ranged<const D: usize>(src: Dyn<D>, p: &Params, mask: bool) -> Result<Dyn<D>, Sx> {
    let Params::All(strict, rs) = p else { return Err(bad_case()) };
    if rs.len() != D {
        return Err(bad_case());
    }
    let arr: [Option<IndexRange>; D] = std::array::from_fn(|i| rs[i].map(|(s, l)| index_range(s, l, i)));
    match (mask, *strict) {
        (false, false) => match guarded(move || TensorRange::from_all(src, arr)) {
            None => Err(panicked()),
            Some(Ok(v)) => Ok(Box::new(v)),
            Some(Err(e)) => Err(err(e_shape(&e))),
        },
        (false, true) => match guarded(move || TensorRange::from_all_strict(src, arr)) {
            None => Err(panicked()),
            Some(Ok(v)) => Ok(Box::new(v)),
            Some(Err(e)) => Err(err(e_strict(&e))),
        },
        (true, false) => match guarded(move || TensorMask::from_all(src, arr)) {
            None => Err(panicked()),
            Some(Ok(v)) => Ok(Box::new(v)),
            Some(Err(e)) => Err(err(e_shape(&e))),
        },
        (true, true) => match guarded(move || TensorMask::from_all_strict(src, arr)) {
            None => Err(panicked()),
            Some(Ok(v)) => Ok(Box::new(v)),
            Some(Err(e)) => Err(err(e_strict(&e))),
        },
    }
}

fn reverse<const D: usize>(src: Dyn<D>, names: &[usize]) -> Result<Dyn<D>, Sx> {
    let names: Vec<&'static str> = names.iter().map(|n| dim(*n)).collect();
    match guarded(move || TensorReverse::from(src, &names)) {
        None => Err(panicked()),
        Some(v) => Ok(Box::new(v)),
    }
}

fn to_array<T, const N: usize>(v: Vec<T>) -> [T; N] {
    match v.try_into() {
        Ok(a) => a,
        Err(_) => unreachable!(),
    }
}

fn chain<const D: usize>(mut v: Vec<Dyn<D>>, along: &'static str, kind: i64) -> Result<Dyn<D>, Sx> {
    let built: Option<Dyn<D>> = match (kind, v.len()) {
        (0, 1) => guarded(move || Box::new(TensorChain::<Z, [Dyn<D>; 1], D>::from(to_array(v), along)) as Dyn<D>),
        (0, 2) => guarded(move || Box::new(TensorChain::<Z, [Dyn<D>; 2], D>::from(to_array(v), along)) as Dyn<D>),
        (0, 3) => guarded(move || Box::new(TensorChain::<Z, [Dyn<D>; 3], D>::from(to_array(v), along)) as Dyn<D>),
        (0, 4) => guarded(move || Box::new(TensorChain::<Z, [Dyn<D>; 4], D>::from(to_array(v), along)) as Dyn<D>),
        (1, 2) => {
            let b = v.pop().unwrap();
            let a = v.pop().unwrap();
            guarded(move || Box::new(TensorChain::<Z, (Dyn<D>, Dyn<D>), D>::from((a, b), along)) as Dyn<D>)
        }
        (1, 3) => {
            let c = v.pop().unwrap();
            let b = v.pop().unwrap();
            let a = v.pop().unwrap();
            guarded(move || Box::new(TensorChain::<Z, (Dyn<D>, Dyn<D>, Dyn<D>), D>::from((a, b, c), along)) as Dyn<D>)
        }
        (1, 4) => {
            let e = v.pop().unwrap();
            let c = v.pop().unwrap();
            let b = v.pop().unwrap();
            let a = v.pop().unwrap();
            guarded(move || {
                Box::new(TensorChain::<Z, (Dyn<D>, Dyn<D>, Dyn<D>, Dyn<D>), D>::from((a, b, c, e), along)) as Dyn<D>
            })
        }
        _ => return Err(bad_case()),
    };
    built.ok_or_else(panicked)
}

macro_rules! stack_impl {
    ($name:ident, $d:literal, $d1:literal) => {
        fn $name(mut v: Vec<Dyn<$d>>, pos: usize, name: &'static str, kind: i64) -> Result<Dyn<$d1>, Sx> {
            let built: Option<Dyn<$d1>> = match (kind, v.len()) {
                (0, 1) => guarded(move || Box::new(TensorStack::<Z, [Dyn<$d>; 1], $d>::from(to_array(v), (pos, name))) as Dyn<$d1>),
                (0, 2) => guarded(move || Box::new(TensorStack::<Z, [Dyn<$d>; 2], $d>::from(to_array(v), (pos, name))) as Dyn<$d1>),
                (0, 3) => guarded(move || Box::new(TensorStack::<Z, [Dyn<$d>; 3], $d>::from(to_array(v), (pos, name))) as Dyn<$d1>),
                (1, 2) => {
                    let b = v.pop().unwrap();
                    let a = v.pop().unwrap();
                    guarded(move || Box::new(TensorStack::<Z, (Dyn<$d>, Dyn<$d>), $d>::from((a, b), (pos, name))) as Dyn<$d1>)
                }
                (1, 3) => {
                    let c = v.pop().unwrap();
                    let b = v.pop().unwrap();
                    let a = v.pop().unwrap();
                    guarded(move || {
                        Box::new(TensorStack::<Z, (Dyn<$d>, Dyn<$d>, Dyn<$d>), $d>::from((a, b, c), (pos, name))) as Dyn<$d1>
                    })
                }
                _ => return Err(bad_case()),
            };
            built.ok_or_else(panicked)
        }
    };
}
stack_impl!(stack_1, 1, 2);
stack_impl!(stack_2, 2, 3);

fn all_d<const D: usize>(vs: Vec<V>, pick: fn(V) -> Option<Dyn<D>>) -> Option<Vec<Dyn<D>>> {
    vs.into_iter().map(pick).collect()
}
fn p1(v: V) -> Option<Dyn<1>> { if let V::D1(x) = v { Some(x) } else { None } }
fn p2(v: V) -> Option<Dyn<2>> { if let V::D2(x) = v { Some(x) } else { None } }
fn p3(v: V) -> Option<Dyn<3>> { if let V::D3(x) = v { Some(x) } else { None } }

pub fn build(t: &Sx) -> Result<V, Sx> {
    let Some(v) = t.list() else { return Err(bad_case()) };
    let Some(tag) = v.first().and_then(|x| x.i64()) else { return Err(bad_case()) };
    match (tag, v.len()) {
        (0, 3) => {
            let Some(shape) = v[2].pairs_usize() else { return Err(bad_case()) };
            match shape.len() {
                1 => leaf::<1>(&shape).map(V::D1),
                2 => leaf::<2>(&shape).map(V::D2),
                3 => leaf::<3>(&shape).map(V::D3),
                _ => Err(bad_case()),
            }
        }
        (1, 3) | (2, 3) => {
            let src = build(&v[1])?;
            let Some(p) = params(&v[2]) else { return Err(bad_case()) };
            let mask = tag == 2;
            match src {
                V::D1(s) => ranged(s, &p, mask).map(V::D1),
                V::D2(s) => ranged(s, &p, mask).map(V::D2),
                V::D3(s) => ranged(s, &p, mask).map(V::D3),
            }
        }
        (6, 3) => {
            let src = build(&v[1])?;
            let Some(names) = v[2].usizes() else { return Err(bad_case()) };
            match src {
                V::D1(s) => reverse(s, &names).map(V::D1),
                V::D2(s) => reverse(s, &names).map(V::D2),
                V::D3(s) => reverse(s, &names).map(V::D3),
            }
        }
        (9, 5) | (10, 4) => {
            let Some(ts) = v[1].list() else { return Err(bad_case()) };
            if ts.is_empty() {
                return Err(bad_case());
            }
            let mut srcs = vec![];
            for t in ts {
                srcs.push(build(t)?);
            }
            let d = match &srcs[0] { V::D1(_) => 1, V::D2(_) => 2, V::D3(_) => 3 };
            if tag == 10 {
                let (Some(n), Some(kind)) = (v[2].usize(), v[3].i64()) else { return Err(bad_case()) };
                match d {
                    1 => chain(all_d(srcs, p1).ok_or_else(bad_case)?, dim(n), kind).map(V::D1),
                    2 => chain(all_d(srcs, p2).ok_or_else(bad_case)?, dim(n), kind).map(V::D2),
                    _ => chain(all_d(srcs, p3).ok_or_else(bad_case)?, dim(n), kind).map(V::D3),
                }
            } else {
                let (Some(pos), Some(n), Some(kind)) = (v[2].usize(), v[3].usize(), v[4].i64()) else {
                    return Err(bad_case());
                };
                match d {
                    1 => stack_1(all_d(srcs, p1).ok_or_else(bad_case)?, pos, dim(n), kind).map(V::D2),
                    2 => stack_2(all_d(srcs, p2).ok_or_else(bad_case)?, pos, dim(n), kind).map(V::D3),
                    _ => Err(bad_case()),
                }
            }
        }
        _ => Err(bad_case()),
    }
}

fn observe<const D: usize>(mut view: Dyn<D>, probes: &[Vec<usize>]) -> Sx {
    let Some(shape) = guarded(|| view.view_shape()) else { return inconsistent(1650) };
    let mut out = vec![];
    for p in probes {
        if p.len() != D {
            return bad_case();
        }
        let p: [usize; D] = idx_arr(p);
        let shared = guarded(|| view.get_reference(p).is_some());
        let mutable = guarded(|| view.get_reference_mut(p).is_some());
        if shared != mutable {
            return inconsistent(1651);
        }
        out.push(match shared {
            None => panicked(),
            Some(present) => ok(opt(if present { Some(z(1)) } else { None })),
        });
    }
    // the shape must be the same after the accesses (view_shape is recomputed by every adaptor)
    if guarded(|| view.view_shape()) != Some(shape) {
        return inconsistent(1650);
    }
    ok(l(vec![shape_sx(&shape), l(out)]))
}

pub fn zst_case(term: &Sx, probes: &[Vec<usize>]) -> Sx {
    match build(term) {
        Err(failure) => failure,
        Ok(V::D1(v)) => observe(v, probes),
        Ok(V::D2(v)) => observe(v, probes),
        Ok(V::D3(v)) => observe(v, probes),
    }
}
