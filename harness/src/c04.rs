//! C04: reverse-mode automatic differentiation with Record.
//!   (4 1 ty body outputs)          the language is documented in coq/theories/Run/RunC04.v
//!   (4 2 body outputs)             float oracle (f64, checked on the Rust side, flags only)
//! Every program is executed six times on fresh tapes: all operators through ownership form
//! 0 (ref op ref), 1 (value op value), 2 (value op ref), 3 (ref op value), a per-instruction
//! mix, and with the other operand KIND (record op number <-> record op constant-record,
//! sub_swapped / div_swapped / number.pow(record) <-> constant-record op record, Sum <-> fold of
//! +).  All six must produce the same observation (and every record's number must equal the same
//! computation carried out on plain numbers with the element type's own operators).  A program
//! with a Sum instruction is run 15 more times, handing the summed records to `impl Sum for
//! Record` through iterators of every other SHAPE (prog.rs `sum_shaped`; `inconsistent 600+shape`
//! / `650+shape`).  Printed once:
//!   ( ((number is_constant index derivs) per output) (index of every variable) )
use crate::guarded;
use crate::num::Enc;
use crate::sx::*;
use crate::with_ty;
use easy_ml::differentiation::{Record, WengertList};
use easy_ml::numeric::extra::RealRef;

mod prog;
use prog::*;

pub fn run(args: &[Sx]) -> Sx {
    match args.first().and_then(|x| x.i64()) {
        Some(1) if args.len() == 4 => {
            let Some(ty) = args[1].i64() else { return bad_case() };
            with_ty!(ty, go(&args[2], &args[3]))
        }
        // float oracle: (4 2 body outputs), numbers (m e) = m * 2^e as f64; every variable is seeded in
        // turn; result: three 0/1 flags (forms agree, forward == reverse, numbers == plain f64)
        Some(2) if args.len() == 3 => {
            let Some(prog) = parse_prog_with::<f64>(&args[1], &dec_f64) else { return bad_case() };
            let Some(outs) = parse_outs(&args[2], prog.len()) else { return bad_case() };
            let seeds = var_nodes(&prog);
            let (a, b, c) = float_oracle(&prog, &outs, &seeds);
            l(vec![boolean(a), boolean(b), boolean(c)])
        }
        _ => bad_case(),
    }
}

fn observe<'a, T: Num + Enc>(nodes: &[Record<'a, T>], vars: &[usize], outs: &[usize]) -> Result<Sx, i64>
where
    for<'t> &'t T: RealRef<T>,
{
    let mut res = vec![];
    for &o in outs {
        let r = &nodes[o];
        let is_const = r.history().is_none();
        let derivs = match r.try_derivatives() {
            None => {
                if !is_const {
                    return Err(201);
                }
                // the panicking form must panic
                if guarded(|| r.derivatives()).is_some() {
                    return Err(202);
                }
                nil()
            }
            Some(d) => {
                if is_const {
                    return Err(203);
                }
                let d2 = match guarded(|| r.derivatives()) {
                    Some(d2) => d2,
                    None => return Err(204),
                };
                let full: Vec<T> = d.clone().into();
                let full2: Vec<T> = d2.clone().into();
                if full != full2 {
                    return Err(205);
                }
                let mut at = vec![];
                for &v in vars {
                    let x = &nodes[v];
                    let a = d.at(x);
                    if d[x] != a || d2.at(x) != a || full.get(x.index) != Some(&a) {
                        return Err(206);
                    }
                    at.push(a.enc());
                }
                l(vec![l(vec![l(at), l(full.iter().map(|x| x.enc()).collect())])])
            }
        };
        res.push(l(vec![r.number.enc(), boolean(is_const), z(r.index), derivs]));
    }
    Ok(l(vec![l(res), l(vars.iter().map(|&v| z(nodes[v].index)).collect())]))
}

fn go<T: Num + Enc>(body: &Sx, outs: &Sx) -> Sx
where
    for<'t> &'t T: RealRef<T>,
{
    let Some(prog) = parse_prog::<T>(body) else { return bad_case() };
    let Some(outs) = parse_outs(outs, prog.len()) else { return bad_case() };
    let vars = var_nodes(&prog);
    let plain = run_plain::<T>(&prog);
    let mut canonical: Option<Sx> = None;
    for mode in 0..6u8 {
        let list = WengertList::<T>::new();
        let obs = match run_records::<T>(&list, &prog, mode) {
            Err(code) => return inconsistent(code),
            Ok(nodes) => match if nodes.iter().zip(plain.iter()).all(|(r, p)| r.number == *p) {
                observe::<T>(&nodes, &vars, &outs)
            } else {
                // the number carried by a record must be the same computation on plain numbers
                Err(250)
            } {
                Err(code) => return inconsistent(code),
                Ok(s) => s,
            },
        };
        match &canonical {
            None => canonical = Some(obs),
            Some(c) => {
                if *c != obs {
                    return inconsistent(400 + mode as i64);
                }
            }
        }
    }
    let canonical = canonical.unwrap();
    // every Sum instruction again with its items handed to `impl Sum for Record` through every
    // other iterator SHAPE (prog.rs `sum_shaped`: unknown lower bound, from_fn, chain, flat_map,
    // not fused, by &mut, lying size hints ...), in ownership form shape % 5
    if has_sum(&prog) {
        for shape in 1..SUM_SHAPES {
            let list = WengertList::<T>::new();
            let obs = match run_records_shaped::<T>(&list, &prog, shape % 5, shape) {
                Err(code) => return inconsistent(code),
                Ok(nodes) => {
                    if !nodes.iter().zip(plain.iter()).all(|(r, p)| r.number == *p) {
                        return inconsistent(650 + shape as i64);
                    }
                    match observe::<T>(&nodes, &vars, &outs) {
                        Err(code) => return inconsistent(code),
                        Ok(s) => s,
                    }
                }
            };
            if obs != canonical {
                return inconsistent(600 + shape as i64);
            }
        }
    }
    canonical
}
