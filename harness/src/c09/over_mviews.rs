//! C09 op 6: the matrix iterators over a stack of C12 matrix views as the source
//! (`(9 6 order mode wi rows cols data leaf wrappers arg k)`; leaf / wrappers in the language of
//! coq/theories/Run/RunC12.v):
//!   leaf    (0) the matrix | (1 (rp) (cp) j) part j of matrix.partition(&rp, &cp)
//!           | (2 r c j) quadrant j of matrix.partition_quadrants(r, c)
//!   wrapper (0 r0 rl c0 cl) MatrixRange::from(v, (r0, rl), (c0, cl)) | (1 a b c d) MatrixRange::from(v, a..b, c..d)
//!           | (2 rr cc) MatrixReverse | (3 n0 n1) MatrixRefTensor::from(TensorRefMatrix::with_names(v, ..)?)
//!           | (4) MatrixRefTensor::from(TensorRefMatrix::from(v)?)
//! The stack is built over a leaked `&'static mut Matrix<i64>` as a chain of the crate's own
//! `Box<dyn MatrixMut<i64>>`; every API form of the iterator (c09/matrix.rs `forms`,
//! `view_mut_forms`) is driven on a freshly built stack and the root matrix is dumped afterwards.
use super::matrix::{forms, mleaf, view_mut_forms, MDyn, Ptr};
use crate::guarded;
use crate::sx::*;
use easy_ml::interop::{MatrixRefTensor, TensorRefMatrix};
use easy_ml::matrices::views::{MatrixRange, MatrixReverse, Reverse};

pub enum Wrapper {
    Range(usize, usize, usize, usize),
    StdRange(usize, usize, usize, usize),
    Reverse(bool, bool),
    TensorNames(usize, usize),
    Tensor,
}

pub enum Leaf {
    Matrix,
    Part(Vec<usize>, Vec<usize>, usize),
    Quadrant(usize, usize, usize),
}

pub fn wrapper(s: &Sx) -> Option<Wrapper> {
    let v = s.list()?;
    let tag = v.first()?.i64()?;
    Some(match (tag, v.len()) {
        (0, 5) => Wrapper::Range(v[1].usize()?, v[2].usize()?, v[3].usize()?, v[4].usize()?),
        (1, 5) => Wrapper::StdRange(v[1].usize()?, v[2].usize()?, v[3].usize()?, v[4].usize()?),
        (2, 3) => Wrapper::Reverse(v[1].bool()?, v[2].bool()?),
        (3, 3) => Wrapper::TensorNames(v[1].usize()?, v[2].usize()?),
        (4, 1) => Wrapper::Tensor,
        _ => return None,
    })
}

pub fn leaf(s: &Sx) -> Option<Leaf> {
    let v = s.list()?;
    let tag = v.first()?.i64()?;
    Some(match (tag, v.len()) {
        (0, 1) => Leaf::Matrix,
        (1, 4) => {
            let (rp, cp, k) = (v[1].usizes()?, v[2].usizes()?, v[3].usize()?);
            if k >= (rp.len() + 1) * (cp.len() + 1) {
                return None;
            }
            Leaf::Part(rp, cp, k)
        }
        (2, 4) => {
            let k = v[3].usize()?;
            if k >= 4 {
                return None;
            }
            Leaf::Quadrant(v[1].usize()?, v[2].usize()?, k)
        }
        _ => return None,
    })
}

fn name_code(n: &str) -> usize {
    match n {
        "row" => 1000,
        "column" => 1001,
        other => undim(other),
    }
}
fn shape2_sx(shape: &[(&'static str, usize); 2]) -> Sx {
    l(shape.iter().map(|(n, len)| l(vec![z(name_code(n)), z(*len)])).collect())
}

pub fn free(p: Ptr) {
    drop(unsafe { Box::from_raw(p) });
}

/// Err(result line): the partition panicked / a tensor wrapper was refused
pub fn build(rows: usize, cols: usize, data: &[i64], lf: &Leaf, ws: &[Wrapper]) -> Result<(MDyn, Ptr), Sx> {
    let Some((m, p)) = mleaf(rows, cols, data) else { return Err(panicked()) };
    let mut cur: MDyn = match lf {
        Leaf::Matrix => Box::new(m),
        Leaf::Part(rp, cp, k) => {
            let (rp, cp) = (rp.clone(), cp.clone());
            match guarded(move || m.partition(&rp, &cp)) {
                None => {
                    free(p);
                    return Err(panicked());
                }
                Some(parts) => Box::new(parts.into_iter().nth(*k).unwrap().source()),
            }
        }
        Leaf::Quadrant(r, c, k) => {
            let (r, c) = (*r, *c);
            match guarded(move || m.partition_quadrants(r, c)) {
                None => {
                    free(p);
                    return Err(panicked());
                }
                Some(q) => Box::new(
                    match k {
                        0 => q.top_left,
                        1 => q.top_right,
                        2 => q.bottom_left,
                        _ => q.bottom_right,
                    }
                    .source(),
                ),
            }
        }
    };
    for (i, w) in ws.iter().enumerate() {
        cur = match *w {
            Wrapper::Range(r0, rl, c0, cl) => match i % 2 {
                0 => Box::new(MatrixRange::from(cur, (r0, rl), (c0, cl))),
                _ => Box::new(MatrixRange::from(cur, [r0, rl], [c0, cl])),
            },
            Wrapper::StdRange(a, b, c, d) => Box::new(MatrixRange::from(cur, a..b, c..d)),
            Wrapper::Reverse(rows, columns) => Box::new(MatrixReverse::from(cur, Reverse { rows, columns })),
            Wrapper::TensorNames(n0, n1) => match TensorRefMatrix::with_names(cur, [dim(n0), dim(n1)]) {
                Ok(t) => Box::new(MatrixRefTensor::from(t)),
                Err(e) => {
                    free(p);
                    return Err(err(shape2_sx(&e.shape())));
                }
            },
            Wrapper::Tensor => match TensorRefMatrix::from(cur) {
                Ok(t) => Box::new(MatrixRefTensor::from(t)),
                Err(e) => {
                    free(p);
                    return Err(err(shape2_sx(&e.shape())));
                }
            },
        };
    }
    Ok((cur, p))
}

pub fn run(args: &[Sx]) -> Sx {
    // args = [6, order, mode, wi, rows, cols, data, leaf, wrappers, arg, k]
    let (Some(order), Some(mode), Some(wi), Some(rows), Some(cols), Some(data)) =
        (args[1].usize(), args[2].usize(), args[3].bool(), args[4].usize(), args[5].usize(), args[6].i64s())
    else {
        return bad_case();
    };
    let (Some(lf), Some(ws), Some(arg), Some(k)) = (
        leaf(&args[7]),
        args[8].list().and_then(|v| v.iter().map(wrapper).collect::<Option<Vec<_>>>()),
        args[9].usize(),
        args[10].usize(),
    ) else {
        return bad_case();
    };
    let major = order == 2 || order == 3;
    if order > 4 || mode > 3 || (mode == 3 && !major) || (wi && !major) {
        return bad_case();
    }
    if rows == 0 || cols == 0 || rows > 64 || cols > 64 || rows * cols != data.len() {
        return bad_case();
    }
    match build(rows, cols, &data, &lf, &ws) {
        Err(line) => return line,
        Ok((s, p)) => {
            drop(s);
            free(p);
        }
    }
    let mk = || build(rows, cols, &data, &lf, &ws).ok().expect("stack");
    let r: Result<Sx, i64> = (|| {
        let canonical = forms::<MDyn>(&mk, order, mode, wi, arg, k)?;
        if mode == 2 {
            let v = view_mut_forms::<MDyn>(&mk, order, wi, arg, k)?;
            if canonical != v {
                return Err(1044);
            }
        }
        Ok(canonical)
    })();
    match r {
        Ok(x) => x,
        Err(c) => inconsistent(c),
    }
}
