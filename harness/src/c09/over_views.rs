//! C09 op 5: the four tensor iterators (+ WithIndex) over ANY view of the C02 algebra as the source
//! (`(9 5 kind wi term k)`, term language of coq/theories/Run/RunC02.v incl. TensorIndex /
//! TensorExpansion / TensorStack / TensorChain / wrappers / matrix-backed leaves / convenience
//! constructors).  The views are built by the C02 dynamic interpreter (harness/src/c02/build.rs,
//! shared through #[path]); elements are (i64, usize) pairs whose first component identifies the
//! element (leaf*1000 + offset).  Every API form that constructs the same iterator is driven on a
//! freshly built view and all forms must agree; after the iteration the view is dropped and every
//! leaf's data is dumped.
//!   kind 0 TensorIterator  1 TensorReferenceIterator  2 TensorReferenceMutIterator (all references of
//!   the prefix held at once, addresses compared, then written back last-first with old + 1000*j)
//!   3 TensorOwnedIterator (placeholder = Default = (0, 0)).  Views entered through a shared
//!   reference (read-only family) support kinds 0 and 1 only.
#[path = "../c02/build.rs"]
#[allow(dead_code, unused_imports, unused_macros)]
mod vbuild;

use super::{drive, idx_sx, val, val_at};
use crate::sx::*;
use easy_ml::tensors::indexing::{
    TensorIterator, TensorOwnedIterator, TensorReferenceIterator, TensorReferenceMutIterator, WithIndex,
};
use easy_ml::tensors::views::{TensorMut, TensorRef, TensorView};
use vbuild::{build, fam_mut, fam_ref, leaf_ids, AnyView, Arena, E};

fn build_view(t: &Sx) -> Result<(AnyView, Arena), Sx> {
    let mut ids = vec![];
    if !leaf_ids(t, &mut ids) {
        return Err(bad_case());
    }
    let mut sorted = ids.clone();
    sorted.sort();
    sorted.dedup();
    if sorted.len() != ids.len() {
        return Err(bad_case());
    }
    let mut arena = Arena::new();
    let v = build(t, &mut arena)?;
    Ok((v, arena))
}

fn write_back(refs: Vec<(i64, &mut E)>) -> Result<(), i64> {
    let mut addrs: Vec<usize> = refs.iter().map(|(_, r)| (*r) as *const E as usize).collect();
    addrs.sort();
    addrs.dedup();
    if addrs.len() != refs.len() {
        return Err(950);
    }
    for (j, (old, r)) in refs.into_iter().enumerate().rev() {
        r.0 = old + 1000 * (j as i64 + 1);
    }
    Ok(())
}

/// number of API forms per (kind, wi)
fn forms_of(kind: usize, wi: bool) -> usize {
    match (kind, wi) {
        (0, true) => 3,
        (3, _) => 3,
        _ => 2,
    }
}

/// ONE API form of iterator `kind` over the shared face of a source
fn one_form_ref<S: TensorRef<E, D>, const D: usize>(s: &S, kind: usize, wi: bool, form: usize, k: usize) -> Result<(Sx, Sx), i64> {
    let enc = |v: E| val(v.0);
    let enc_wi = |(i, v): ([usize; D], E)| val_at(idx_sx(i), v.0);
    let encr = |v: &E| val(v.0);
    let encr_wi = |(i, v): ([usize; D], &E)| val_at(idx_sx(i), v.0);
    Ok(match (kind, wi, form) {
        (0, false, 0) => {
            let (a, b, _) = drive(TensorIterator::from(s), k, enc)?;
            (a, b)
        }
        (0, false, _) => {
            let (a, b, _) = drive(TensorView::from(s).iter(), k, enc)?;
            (a, b)
        }
        (0, true, 0) => {
            let (a, b, _) = drive(TensorIterator::from(s).with_index(), k, enc_wi)?;
            (a, b)
        }
        (0, true, 1) => {
            let (a, b, _) = drive(TensorView::from(s).iter().with_index(), k, enc_wi)?;
            (a, b)
        }
        (0, true, _) => {
            let w: WithIndex<_> = TensorIterator::from(s).into();
            let (a, b, _) = drive(w, k, enc_wi)?;
            (a, b)
        }
        (_, false, 0) => {
            let (a, b, _) = drive(TensorReferenceIterator::from(s), k, encr)?;
            (a, b)
        }
        (_, false, _) => {
            let (a, b, _) = drive(TensorView::from(s).iter_reference(), k, encr)?;
            (a, b)
        }
        (_, true, 0) => {
            let (a, b, _) = drive(TensorReferenceIterator::from(s).with_index(), k, encr_wi)?;
            (a, b)
        }
        (_, true, _) => {
            let (a, b, _) = drive(TensorView::from(s).iter_reference().with_index(), k, encr_wi)?;
            (a, b)
        }
    })
}

/// ONE API form of the mutable / owning iterators; consumes the source
fn one_form_mut<S: TensorMut<E, D>, const D: usize>(mut s: S, kind: usize, wi: bool, form: usize, k: usize) -> Result<(Sx, Sx), i64> {
    let enc = |v: E| val(v.0);
    let enc_wi = |(i, v): ([usize; D], E)| val_at(idx_sx(i), v.0);
    if kind == 2 {
        let mut refs: Vec<(i64, &mut E)> = vec![];
        let out = match (wi, form) {
            (false, 0) => {
                let (a, b, _) = drive(TensorReferenceMutIterator::from(&mut s), k, |r| {
                    let v = r.0;
                    refs.push((v, r));
                    val(v)
                })?;
                (a, b)
            }
            (true, 0) => {
                let (a, b, _) = drive(TensorReferenceMutIterator::from(&mut s).with_index(), k, |(i, r)| {
                    let v = r.0;
                    refs.push((v, r));
                    val_at(idx_sx(i), v)
                })?;
                (a, b)
            }
            (false, _) => {
                let mut view = TensorView::from(&mut s);
                let (a, b, _) = drive(view.iter_reference_mut(), k, |r| {
                    let v = r.0;
                    // the reference borrows from the source behind `view`, which outlives `refs`' use
                    let r: &mut E = unsafe { &mut *(r as *mut E) };
                    refs.push((v, r));
                    val(v)
                })?;
                (a, b)
            }
            (true, _) => {
                let mut view = TensorView::from(&mut s);
                let (a, b, _) = drive(view.iter_reference_mut().with_index(), k, |(i, r)| {
                    let v = r.0;
                    let r: &mut E = unsafe { &mut *(r as *mut E) };
                    refs.push((v, r));
                    val_at(idx_sx(i), v)
                })?;
                (a, b)
            }
        };
        write_back(refs)?;
        drop(s);
        return Ok(out);
    }
    // kind 3
    Ok(match (wi, form) {
        (false, 0) => {
            let (a, b, _) = drive(TensorOwnedIterator::from(s), k, enc)?;
            (a, b)
        }
        (true, 0) => {
            let (a, b, _) = drive(TensorOwnedIterator::from(s).with_index(), k, enc_wi)?;
            (a, b)
        }
        (false, 1) => {
            let (a, b, _) = drive(TensorView::from(s).iter_owned(), k, enc)?;
            (a, b)
        }
        (true, 1) => {
            let (a, b, _) = drive(TensorView::from(s).iter_owned().with_index(), k, enc_wi)?;
            (a, b)
        }
        (false, _) => {
            let r = {
                let (a, b, _) = drive(TensorOwnedIterator::from(&mut s), k, enc)?;
                (a, b)
            };
            drop(s);
            r
        }
        (true, _) => {
            let r = {
                let (a, b, _) = drive(TensorOwnedIterator::from(&mut s).with_index(), k, enc_wi)?;
                (a, b)
            };
            drop(s);
            r
        }
    })
}

fn shared_of_mut<const D: usize>(s: fam_mut::Dyn<D>, kind: usize, wi: bool, form: usize, k: usize) -> Result<(Sx, Sx), i64> {
    let r = one_form_ref::<_, D>(&s, kind, wi, form, k);
    drop(s);
    r
}
fn shared_of_ref<const D: usize>(s: fam_ref::Dyn<D>, kind: usize, wi: bool, form: usize, k: usize) -> Result<(Sx, Sx), i64> {
    let r = one_form_ref::<_, D>(&s, kind, wi, form, k);
    drop(s);
    r
}
fn exclusive<const D: usize>(s: fam_mut::Dyn<D>, kind: usize, wi: bool, form: usize, k: usize) -> Result<(Sx, Sx), i64> {
    one_form_mut::<_, D>(s, kind, wi, form, k)
}

macro_rules! each {
    ($Fam:ident, $v:expr, $f:ident ( $($arg:expr),* )) => {
        match $v {
            $Fam::DynView::D0(x) => $f::<0>(x, $($arg),*),
            $Fam::DynView::D1(x) => $f::<1>(x, $($arg),*),
            $Fam::DynView::D2(x) => $f::<2>(x, $($arg),*),
            $Fam::DynView::D3(x) => $f::<3>(x, $($arg),*),
            $Fam::DynView::D4(x) => $f::<4>(x, $($arg),*),
            $Fam::DynView::D5(x) => $f::<5>(x, $($arg),*),
            $Fam::DynView::D6(x) => $f::<6>(x, $($arg),*),
        }
    };
}

pub fn run(args: &[Sx]) -> Sx {
    // args = [5, kind, wi, term, k]
    let (Some(kind), Some(wi), Some(k)) = (args[1].usize(), args[2].bool(), args[4].usize()) else {
        return bad_case();
    };
    if kind > 3 {
        return bad_case();
    }
    let term = &args[3];
    let mut canonical: Option<Sx> = None;
    for form in 0..forms_of(kind, wi) {
        let (view, arena) = match build_view(term) {
            Ok(x) => x,
            Err(failure) => return failure,
        };
        let out = match view {
            AnyView::M(m) => {
                if kind <= 1 {
                    each!(fam_mut, m, shared_of_mut(kind, wi, form, k))
                } else {
                    each!(fam_mut, m, exclusive(kind, wi, form, k))
                }
            }
            AnyView::R(r) => {
                if kind <= 1 {
                    each!(fam_ref, r, shared_of_ref(kind, wi, form, k))
                } else {
                    return bad_case(); // a view entered through `&S` has no mutable face
                }
            }
        };
        let (len0, steps) = match out {
            Ok(x) => x,
            Err(code) => return inconsistent(code),
        };
        let result = l(vec![len0, steps, arena.dump()]);
        drop(arena);
        match &canonical {
            None => canonical = Some(result),
            Some(c) => {
                if *c != result {
                    return inconsistent(960 + form as i64);
                }
            }
        }
    }
    ok(canonical.unwrap())
}
