//! Tensor source terms shared by the C09 and C13 harness modules (included by both through
//! `mod tsrc` / `#[path]`): parsing of the term language of Model/TSource.v and construction of
//! the source as a `Box<dyn TensorMut>` chain over a leaked (`&'static mut`) base tensor.
use crate::guarded;
use crate::sx::*;
use easy_ml::tensors::indexing::{TensorAccess, TensorTranspose};
use easy_ml::tensors::views::{TensorMask, TensorMut, TensorRange, TensorRef, TensorRename, TensorReverse};
use easy_ml::tensors::Tensor;

pub enum Term {
    Base(Vec<(usize, usize)>, Vec<i64>),
    Rev(Box<Term>, Vec<usize>),
    Range(Box<Term>, Vec<(usize, usize)>),
    Access(Box<Term>, Vec<usize>),
    Transpose(Box<Term>, Vec<usize>),
    Mask(Box<Term>, Vec<(usize, usize)>),
    Rename(Box<Term>, Vec<usize>),
}

impl Term {
    pub fn base_d(&self) -> usize {
        match self {
            Term::Base(s, _) => s.len(),
            Term::Rev(t, _) | Term::Range(t, _) | Term::Access(t, _) | Term::Transpose(t, _) | Term::Mask(t, _) | Term::Rename(t, _) => t.base_d(),
        }
    }
}

pub fn parse_term(s: &Sx) -> Option<Term> {
    let v = s.list()?;
    match (v.first()?.i64()?, v.len()) {
        (0, 3) => Some(Term::Base(v[1].pairs_usize()?, v[2].i64s()?)),
        (1, 3) => Some(Term::Rev(Box::new(parse_term(&v[1])?), v[2].usizes()?)),
        (2, 3) => Some(Term::Range(Box::new(parse_term(&v[1])?), v[2].pairs_usize()?)),
        (3, 3) => Some(Term::Access(Box::new(parse_term(&v[1])?), v[2].usizes()?)),
        (4, 3) => Some(Term::Transpose(Box::new(parse_term(&v[1])?), v[2].usizes()?)),
        (5, 3) => Some(Term::Mask(Box::new(parse_term(&v[1])?), v[2].pairs_usize()?)),
        (6, 3) => Some(Term::Rename(Box::new(parse_term(&v[1])?), v[2].usizes()?)),
        _ => None,
    }
}

pub enum Fail {
    Panic,
    Err(Sx),
}

pub type Leaf<const D: usize> = &'static mut Tensor<i64, D>;
pub type Dyn<const D: usize> = Box<dyn TensorMut<i64, D>>;

/// The base tensor lives in a leaked box so that views over `&'static mut Tensor` are 'static;
/// `take` reclaims it once every view over it has been dropped.
pub fn leaf<const D: usize>(shape: &[(usize, usize)], data: &[i64]) -> Result<(Leaf<D>, *mut Tensor<i64, D>), Fail> {
    if shape.len() != D {
        return Err(Fail::Panic);
    }
    let shape: [(&'static str, usize); D] = shape_arr(shape);
    let data = data.to_vec();
    let tensor = guarded(move || Tensor::from(shape, data)).ok_or(Fail::Panic)?;
    let ptr = Box::into_raw(Box::new(tensor));
    Ok((unsafe { &mut *ptr }, ptr))
}

pub fn all_indexes(lens: &[usize]) -> Vec<Vec<usize>> {
    let mut out = vec![vec![]];
    for &len in lens {
        let mut next = vec![];
        for p in &out {
            for i in 0..len {
                let mut q = p.clone();
                q.push(i);
                next.push(q);
            }
        }
        out = next;
    }
    out
}

/// Dump of the base tensor, read element by element (not through the iterators under test).
pub fn dump_tensor<const D: usize>(t: &Tensor<i64, D>) -> Sx {
    let lens: Vec<usize> = t.shape().iter().map(|d| d.1).collect();
    l(all_indexes(&lens)
        .iter()
        .map(|i| z(*t.get_reference(idx_arr::<D>(i)).expect("dump index")))
        .collect())
}

pub fn take<const D: usize>(p: *mut Tensor<i64, D>) -> Sx {
    let t = unsafe { Box::from_raw(p) };
    dump_tensor(&t)
}

pub fn build_dyn<const D: usize>(t: &Term) -> Result<(Dyn<D>, *mut Tensor<i64, D>), Fail> {
    match t {
        Term::Base(shape, data) => {
            let (r, p) = leaf::<D>(shape, data)?;
            Ok((Box::new(r), p))
        }
        Term::Rev(inner, names) => {
            let (s, p) = build_dyn::<D>(inner)?;
            let names: Vec<&'static str> = names.iter().map(|n| dim(*n)).collect();
            match guarded(move || TensorReverse::from(s, &names)) {
                Some(v) => Ok((Box::new(v), p)),
                None => Err(Fail::Panic),
            }
        }
        Term::Range(inner, ranges) => {
            let (s, p) = build_dyn::<D>(inner)?;
            if ranges.len() != D {
                return Err(Fail::Panic);
            }
            let ranges: [Option<(usize, usize)>; D] = std::array::from_fn(|d| Some(ranges[d]));
            match TensorRange::from_all(s, ranges) {
                Ok(v) => Ok((Box::new(v), p)),
                Err(e) => Err(Fail::Err(shape_sx(&e.shape()))),
            }
        }
        Term::Access(inner, names) => {
            let (s, p) = build_dyn::<D>(inner)?;
            if names.len() != D {
                return Err(Fail::Panic);
            }
            let names: [&'static str; D] = names_arr(names);
            match guarded(move || TensorAccess::from(s, names)) {
                Some(v) => Ok((Box::new(v), p)),
                None => Err(Fail::Panic),
            }
        }
        Term::Transpose(inner, names) => {
            let (s, p) = build_dyn::<D>(inner)?;
            if names.len() != D {
                return Err(Fail::Panic);
            }
            let names: [&'static str; D] = names_arr(names);
            match guarded(move || TensorTranspose::from(s, names)) {
                Some(v) => Ok((Box::new(v), p)),
                None => Err(Fail::Panic),
            }
        }
        Term::Mask(inner, masks) => {
            let (s, p) = build_dyn::<D>(inner)?;
            if masks.len() != D {
                return Err(Fail::Panic);
            }
            let masks: [Option<(usize, usize)>; D] = std::array::from_fn(|d| Some(masks[d]));
            match TensorMask::from_all(s, masks) {
                Ok(v) => Ok((Box::new(v), p)),
                Err(e) => Err(Fail::Err(shape_sx(&e.shape()))),
            }
        }
        Term::Rename(inner, names) => {
            let (s, p) = build_dyn::<D>(inner)?;
            if names.len() != D {
                return Err(Fail::Panic);
            }
            let names: [&'static str; D] = names_arr(names);
            match guarded(move || TensorRename::from(s, names)) {
                Some(v) => Ok((Box::new(v), p)),
                None => Err(Fail::Panic),
            }
        }
    }
}

