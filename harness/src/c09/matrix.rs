//! C09, matrix iterators: (9 3 order mode wi src arg k)
//!   order 0 column(arg) 1 row(arg) 2 column-major 3 row-major 4 diagonal
//!   mode 0 copy 1 reference 2 mutable reference 3 owned ; wi = WithIndex
//!   src = (0 rows cols data) | (1 src (rstart rlen) (cstart clen)) | (2 src revrows revcols)
use super::{drive, val, val_at, write_back};
use crate::guarded;
use crate::sx::*;
use easy_ml::matrices::iterators::*;
use easy_ml::matrices::views::{
    IndexRange, MatrixMut, MatrixRange, MatrixRef, MatrixReverse, MatrixView, NoInteriorMutability, Reverse,
};
use easy_ml::matrices::Matrix;

pub enum MTerm {
    Base(usize, usize, Vec<i64>),
    Range(Box<MTerm>, (usize, usize), (usize, usize)),
    Rev(Box<MTerm>, bool, bool),
}

fn pair(s: &Sx) -> Option<(usize, usize)> {
    let v = s.usizes()?;
    if v.len() == 2 {
        Some((v[0], v[1]))
    } else {
        None
    }
}

pub fn parse_mterm(s: &Sx) -> Option<MTerm> {
    let v = s.list()?;
    match (v.first()?.i64()?, v.len()) {
        (0, 4) => Some(MTerm::Base(v[1].usize()?, v[2].usize()?, v[3].i64s()?)),
        (1, 4) => Some(MTerm::Range(Box::new(parse_mterm(&v[1])?), pair(&v[2])?, pair(&v[3])?)),
        (2, 4) => Some(MTerm::Rev(Box::new(parse_mterm(&v[1])?), v[2].bool()?, v[3].bool()?)),
        _ => None,
    }
}

pub type MLeaf = &'static mut Matrix<i64>;
pub type MDyn = Box<dyn MatrixMut<i64>>;
pub type Ptr = *mut Matrix<i64>;

pub(super) fn mleaf(rows: usize, cols: usize, data: &[i64]) -> Option<(MLeaf, Ptr)> {
    let data = data.to_vec();
    let m = guarded(move || Matrix::from_flat_row_major((rows, cols), data))?;
    let ptr = Box::into_raw(Box::new(m));
    Some((unsafe { &mut *ptr }, ptr))
}

fn dump_matrix(m: &Matrix<i64>) -> Sx {
    let mut out = vec![];
    for r in 0..m.rows() {
        for c in 0..m.columns() {
            out.push(z(*m.get_reference(r, c)));
        }
    }
    l(out)
}

fn take(p: Ptr) -> Sx {
    let m = unsafe { Box::from_raw(p) };
    dump_matrix(&m)
}

fn ir(r: (usize, usize)) -> IndexRange {
    IndexRange::new(r.0, r.1)
}

fn build_dyn(t: &MTerm) -> Option<(MDyn, Ptr)> {
    match t {
        MTerm::Base(r, c, data) => {
            let (m, p) = mleaf(*r, *c, data)?;
            Some((Box::new(m), p))
        }
        MTerm::Range(inner, rr, cr) => {
            let (s, p) = build_dyn(inner)?;
            Some((Box::new(MatrixRange::from(s, ir(*rr), ir(*cr))), p))
        }
        MTerm::Rev(inner, rv, cv) => {
            let (s, p) = build_dyn(inner)?;
            Some((Box::new(MatrixReverse::from(s, Reverse { rows: *rv, columns: *cv })), p))
        }
    }
}

fn rc(p: (usize, usize)) -> Sx {
    l(vec![z(p.0), z(p.1)])
}

/// None = the iterator constructor panicked
type Out = Option<(Sx, Sx)>;

fn ctor<I: ExactSizeIterator>(
    mkit: impl FnOnce() -> I,
    k: usize,
    enc: impl FnMut(I::Item) -> Sx,
) -> Result<Out, i64> {
    match guarded(mkit) {
        None => Ok(None),
        Some(it) => {
            let (a, b, _) = drive(it, k, enc)?;
            Ok(Some((a, b)))
        }
    }
}

macro_rules! same {
    ($a:expr, $b:expr, $code:expr) => {
        if $a != $b {
            return Err($code);
        }
    };
}

fn finish(out: Out, data: Sx) -> Sx {
    match out {
        None => panicked(),
        Some((a, b)) => ok(l(vec![a, b, data])),
    }
}

/// shared-borrow forms: the iterator expressions are evaluated against `&s`
macro_rules! shared_forms {
    ($mk:expr, $k:expr, $enc:expr, $code:expr; |$s:ident, $v:ident| $($it:expr),+) => {{
        let (src, p) = $mk();
        let mut outs: Vec<Out> = vec![];
        {
            let $s = &src;
            let $v = MatrixView::from($s);
            $( outs.push(ctor(|| $it, $k, $enc)?); )+
        }
        for o in &outs[1..] {
            same!(&outs[0], o, $code);
        }
        drop(src);
        Ok(finish(outs.swap_remove(0), take(p)))
    }};
}

/// mutable-borrow forms: each form gets a fresh source; references are held and written at the end
macro_rules! mut_forms {
    ($mk:expr, $k:expr, $code:expr, $wi:expr; |$s:ident| $($it:expr),+) => {{
        let mut results: Vec<Sx> = vec![];
        $(
            {
                let (mut src, p) = $mk();
                let out = {
                    let $s = &mut src;
                    let mut refs: Vec<(i64, &mut i64)> = vec![];
                    let out = ctor(|| $it, $k, |item| $wi(item, &mut refs))?;
                    write_back(refs)?;
                    out
                };
                drop(src);
                results.push(finish(out, take(p)));
            }
        )+
        for r in &results[1..] {
            same!(&results[0], r, $code);
        }
        Ok(results.swap_remove(0))
    }};
}

fn plain<'a>(r: &'a mut i64, refs: &mut Vec<(i64, &'a mut i64)>) -> Sx {
    let v = *r;
    refs.push((v, r));
    val(v)
}
fn indexed<'a>(item: ((usize, usize), &'a mut i64), refs: &mut Vec<(i64, &'a mut i64)>) -> Sx {
    let (i, r) = item;
    let v = *r;
    refs.push((v, r));
    val_at(rc(i), v)
}

/// owned forms: each form consumes a fresh source
macro_rules! owned_forms {
    ($mk:expr, $k:expr, $enc:expr, $code:expr; |$s:ident| $($it:expr),+) => {{
        let mut results: Vec<Sx> = vec![];
        $(
            {
                let ($s, p) = $mk();
                let out = ctor(move || $it, $k, $enc)?;
                results.push(finish(out, take(p)));
            }
        )+
        for r in &results[1..] {
            same!(&results[0], r, $code);
        }
        Ok(results.swap_remove(0))
    }};
}

pub(super) fn forms<S: MatrixMut<i64> + NoInteriorMutability>(
    mk: &dyn Fn() -> (S, Ptr),
    order: usize,
    mode: usize,
    wi: bool,
    arg: usize,
    k: usize,
) -> Result<Sx, i64> {
    let enc = |v: i64| val(v);
    let encr = |v: &i64| val(*v);
    let enc_wi = |(i, v): ((usize, usize), i64)| val_at(rc(i), v);
    let encr_wi = |(i, v): ((usize, usize), &i64)| val_at(rc(i), *v);
    match (order, mode, wi) {
        (0, 0, _) => shared_forms!(mk, k, enc, 960; |s, v| ColumnIterator::from(s, arg), v.column_iter(arg)),
        (0, 1, _) => shared_forms!(mk, k, encr, 961; |s, v| ColumnReferenceIterator::from(s, arg), v.column_reference_iter(arg)),
        (0, _, _) => mut_forms!(mk, k, 962, plain; |s| ColumnReferenceMutIterator::from(s, arg)),
        (1, 0, _) => shared_forms!(mk, k, enc, 963; |s, v| RowIterator::from(s, arg), v.row_iter(arg)),
        (1, 1, _) => shared_forms!(mk, k, encr, 964; |s, v| RowReferenceIterator::from(s, arg), v.row_reference_iter(arg)),
        (1, _, _) => mut_forms!(mk, k, 965, plain; |s| RowReferenceMutIterator::from(s, arg)),
        (4, 0, _) => shared_forms!(mk, k, enc, 966; |s, v| DiagonalIterator::from(s), v.diagonal_iter()),
        (4, 1, _) => shared_forms!(mk, k, encr, 967; |s, v| DiagonalReferenceIterator::from(s), v.diagonal_reference_iter()),
        (4, _, _) => mut_forms!(mk, k, 968, plain; |s| DiagonalReferenceMutIterator::from(s)),
        (2, 0, false) => shared_forms!(mk, k, enc, 970; |s, v| ColumnMajorIterator::from(s), v.column_major_iter()),
        (2, 0, true) => shared_forms!(mk, k, enc_wi, 971; |s, v| ColumnMajorIterator::from(s).with_index(),
            v.column_major_iter().with_index(), WithIndex::from(ColumnMajorIterator::from(s))),
        (2, 1, false) => shared_forms!(mk, k, encr, 972; |s, v| ColumnMajorReferenceIterator::from(s), v.column_major_reference_iter()),
        (2, 1, true) => shared_forms!(mk, k, encr_wi, 973; |s, v| ColumnMajorReferenceIterator::from(s).with_index(),
            v.column_major_reference_iter().with_index()),
        (2, 2, false) => mut_forms!(mk, k, 974, plain; |s| ColumnMajorReferenceMutIterator::from(s)),
        (2, 2, true) => mut_forms!(mk, k, 975, indexed; |s| ColumnMajorReferenceMutIterator::from(s).with_index()),
        (2, _, false) => owned_forms!(mk, k, enc, 976; |s| ColumnMajorOwnedIterator::from(s), ColumnMajorOwnedIterator::from_numeric(s)),
        (2, _, true) => owned_forms!(mk, k, enc_wi, 977; |s| ColumnMajorOwnedIterator::from(s).with_index(),
            ColumnMajorOwnedIterator::from_numeric(s).with_index()),
        (3, 0, false) => shared_forms!(mk, k, enc, 980; |s, v| RowMajorIterator::from(s), v.row_major_iter()),
        (3, 0, true) => shared_forms!(mk, k, enc_wi, 981; |s, v| RowMajorIterator::from(s).with_index(),
            v.row_major_iter().with_index(), WithIndex::from(RowMajorIterator::from(s))),
        (3, 1, false) => shared_forms!(mk, k, encr, 982; |s, v| RowMajorReferenceIterator::from(s), v.row_major_reference_iter()),
        (3, 1, true) => shared_forms!(mk, k, encr_wi, 983; |s, v| RowMajorReferenceIterator::from(s).with_index(),
            v.row_major_reference_iter().with_index()),
        (3, 2, false) => mut_forms!(mk, k, 984, plain; |s| RowMajorReferenceMutIterator::from(s)),
        (3, 2, true) => mut_forms!(mk, k, 985, indexed; |s| RowMajorReferenceMutIterator::from(s).with_index()),
        (3, _, false) => owned_forms!(mk, k, enc, 986; |s| RowMajorOwnedIterator::from(s), RowMajorOwnedIterator::from_numeric(s)),
        (_, _, false) => owned_forms!(mk, k, enc, 987; |s| RowMajorOwnedIterator::from(s), RowMajorOwnedIterator::from_numeric(s)),
        (_, _, true) => owned_forms!(mk, k, enc_wi, 988; |s| RowMajorOwnedIterator::from(s).with_index(),
            RowMajorOwnedIterator::from_numeric(s).with_index()),
    }
}

/// The convenience methods of Matrix and MatrixView's mutable methods over a Matrix.
fn matrix_forms(
    rows: usize,
    cols: usize,
    data: &[i64],
    order: usize,
    mode: usize,
    wi: bool,
    arg: usize,
    k: usize,
) -> Result<Sx, i64> {
    let mk = || mleaf(rows, cols, data).unwrap();
    let enc = |v: i64| val(v);
    let encr = |v: &i64| val(*v);
    let enc_wi = |(i, v): ((usize, usize), i64)| val_at(rc(i), v);
    let encr_wi = |(i, v): ((usize, usize), &i64)| val_at(rc(i), *v);
    match (order, mode, wi) {
        (0, 0, _) => shared_forms!(mk, k, enc, 1000; |s, v| s.column_iter(arg), ColumnIterator::new(s, arg)),
        (0, 1, _) => shared_forms!(mk, k, encr, 1001; |s, v| s.column_reference_iter(arg), ColumnReferenceIterator::new(s, arg)),
        (0, _, _) => mut_forms!(mk, k, 1002, plain; |s| s.column_reference_mut_iter(arg), ColumnReferenceMutIterator::new(s, arg)),
        (1, 0, _) => shared_forms!(mk, k, enc, 1003; |s, v| s.row_iter(arg), RowIterator::new(s, arg)),
        (1, 1, _) => shared_forms!(mk, k, encr, 1004; |s, v| s.row_reference_iter(arg), RowReferenceIterator::new(s, arg)),
        (1, _, _) => mut_forms!(mk, k, 1005, plain; |s| s.row_reference_mut_iter(arg), RowReferenceMutIterator::new(s, arg)),
        (4, 0, _) => shared_forms!(mk, k, enc, 1006; |s, v| s.diagonal_iter(), DiagonalIterator::new(s)),
        (4, 1, _) => shared_forms!(mk, k, encr, 1007; |s, v| s.diagonal_reference_iter(), DiagonalReferenceIterator::new(s)),
        (4, _, _) => mut_forms!(mk, k, 1008, plain; |s| s.diagonal_reference_mut_iter(), DiagonalReferenceMutIterator::new(s)),
        (2, 0, false) => shared_forms!(mk, k, enc, 1010; |s, v| s.column_major_iter(), ColumnMajorIterator::new(s)),
        (2, 0, true) => shared_forms!(mk, k, enc_wi, 1011; |s, v| s.column_major_iter().with_index()),
        (2, 1, false) => shared_forms!(mk, k, encr, 1012; |s, v| s.column_major_reference_iter(), ColumnMajorReferenceIterator::new(s)),
        (2, 1, true) => shared_forms!(mk, k, encr_wi, 1013; |s, v| s.column_major_reference_iter().with_index()),
        (2, 2, false) => mut_forms!(mk, k, 1014, plain; |s| s.column_major_reference_mut_iter(), ColumnMajorReferenceMutIterator::new(s)),
        (2, 2, true) => mut_forms!(mk, k, 1015, indexed; |s| s.column_major_reference_mut_iter().with_index()),
        (3, 0, false) => shared_forms!(mk, k, enc, 1020; |s, v| s.row_major_iter(), RowMajorIterator::new(s)),
        (3, 0, true) => shared_forms!(mk, k, enc_wi, 1021; |s, v| s.row_major_iter().with_index()),
        (3, 1, false) => shared_forms!(mk, k, encr, 1022; |s, v| s.row_major_reference_iter(), RowMajorReferenceIterator::new(s)),
        (3, 1, true) => shared_forms!(mk, k, encr_wi, 1023; |s, v| s.row_major_reference_iter().with_index()),
        (3, 2, false) => mut_forms!(mk, k, 1024, plain; |s| s.row_major_reference_mut_iter(), RowMajorReferenceMutIterator::new(s)),
        (3, 2, true) => mut_forms!(mk, k, 1025, indexed; |s| s.row_major_reference_mut_iter().with_index()),
        _ => {
            // owned iterators over an owned Matrix: items and lengths only (the matrix is consumed)
            let m = Matrix::from_flat_row_major((rows, cols), data.to_vec());
            let out = match (order, wi) {
                (2, false) => ctor(move || m.column_major_owned_iter(), k, enc)?,
                (2, true) => ctor(move || m.column_major_owned_iter().with_index(), k, enc_wi)?,
                (_, false) => ctor(move || m.row_major_owned_iter(), k, enc)?,
                (_, true) => ctor(move || m.row_major_owned_iter().with_index(), k, enc_wi)?,
            };
            Ok(match out {
                None => panicked(),
                Some((a, b)) => ok(l(vec![a, b])),
            })
        }
    }
}

/// MatrixView's mutable iterator methods (the view is the owner of the exclusive borrow).
pub(super) fn view_mut_forms<S: MatrixMut<i64> + NoInteriorMutability>(
    mk: &dyn Fn() -> (S, Ptr),
    order: usize,
    wi: bool,
    arg: usize,
    k: usize,
) -> Result<Sx, i64> {
    let mk2 = || {
        let (s, p) = mk();
        (MatrixView::from(s), p)
    };
    match (order, wi) {
        (0, _) => mut_forms!(mk2, k, 1030, plain; |s| s.column_reference_mut_iter(arg)),
        (1, _) => mut_forms!(mk2, k, 1031, plain; |s| s.row_reference_mut_iter(arg)),
        (4, _) => mut_forms!(mk2, k, 1032, plain; |s| s.diagonal_reference_mut_iter()),
        (2, false) => mut_forms!(mk2, k, 1033, plain; |s| s.column_major_reference_mut_iter()),
        (2, true) => mut_forms!(mk2, k, 1034, indexed; |s| s.column_major_reference_mut_iter().with_index()),
        (_, false) => mut_forms!(mk2, k, 1035, plain; |s| s.row_major_reference_mut_iter()),
        (_, true) => mut_forms!(mk2, k, 1036, indexed; |s| s.row_major_reference_mut_iter().with_index()),
    }
}

pub fn run(args: &[Sx]) -> Sx {
    let (Some(order), Some(mode), Some(wi), Some(term), Some(arg), Some(k)) = (
        args[1].usize(),
        args[2].usize(),
        args[3].bool(),
        parse_mterm(&args[4]),
        args[5].usize(),
        args[6].usize(),
    ) else {
        return bad_case();
    };
    let major = order == 2 || order == 3;
    if order > 4 || mode > 3 || (mode == 3 && !major) || (wi && !major) {
        return bad_case();
    }
    match build_dyn(&term) {
        None => return panicked(),
        Some((s, p)) => {
            drop(s);
            drop(unsafe { Box::from_raw(p) });
        }
    }
    let r: Result<Sx, i64> = (|| {
        let canonical = forms::<MDyn>(&|| build_dyn(&term).unwrap(), order, mode, wi, arg, k)?;
        if mode == 2 {
            let v = view_mut_forms::<MDyn>(&|| build_dyn(&term).unwrap(), order, wi, arg, k)?;
            same!(canonical, v, 1040);
        }
        // statically typed compositions
        let stat: Option<Sx> = match &term {
            MTerm::Base(r, c, data) => {
                let b = matrix_forms(*r, *c, data, order, mode, wi, arg, k)?;
                if mode == 3 {
                    // owned Matrix: compare (len0, steps) only
                    let strip = |x: &Sx| match x.list() {
                        Some(v) if v.len() == 2 && v[0] == z(0) => {
                            let inner = v[1].list().unwrap();
                            ok(l(vec![inner[0].clone(), inner[1].clone()]))
                        }
                        _ => x.clone(),
                    };
                    same!(strip(&canonical), b, 1041);
                } else {
                    same!(canonical, b, 1042);
                }
                Some(forms::<MLeaf>(&|| mleaf(*r, *c, data).unwrap(), order, mode, wi, arg, k)?)
            }
            MTerm::Range(inner, rr, cr) => match &**inner {
                MTerm::Base(r, c, data) => Some(forms::<MatrixRange<i64, MLeaf>>(
                    &|| {
                        let (m, p) = mleaf(*r, *c, data).unwrap();
                        (MatrixRange::from(m, ir(*rr), ir(*cr)), p)
                    },
                    order, mode, wi, arg, k,
                )?),
                MTerm::Rev(inner2, rv, cv) => match &**inner2 {
                    MTerm::Base(r, c, data) => Some(forms::<MatrixRange<i64, MatrixReverse<i64, MLeaf>>>(
                        &|| {
                            let (m, p) = mleaf(*r, *c, data).unwrap();
                            (MatrixRange::from(MatrixReverse::from(m, Reverse { rows: *rv, columns: *cv }), ir(*rr), ir(*cr)), p)
                        },
                        order, mode, wi, arg, k,
                    )?),
                    _ => None,
                },
                MTerm::Range(inner2, rr2, cr2) => match &**inner2 {
                    MTerm::Base(r, c, data) => Some(forms::<MatrixRange<i64, MatrixRange<i64, MLeaf>>>(
                        &|| {
                            let (m, p) = mleaf(*r, *c, data).unwrap();
                            (MatrixRange::from(MatrixRange::from(m, ir(*rr2), ir(*cr2)), ir(*rr), ir(*cr)), p)
                        },
                        order, mode, wi, arg, k,
                    )?),
                    _ => None,
                },
            },
            MTerm::Rev(inner, rv, cv) => match &**inner {
                MTerm::Base(r, c, data) => Some(forms::<MatrixReverse<i64, MLeaf>>(
                    &|| {
                        let (m, p) = mleaf(*r, *c, data).unwrap();
                        (MatrixReverse::from(m, Reverse { rows: *rv, columns: *cv }), p)
                    },
                    order, mode, wi, arg, k,
                )?),
                MTerm::Range(inner2, rr, cr) => match &**inner2 {
                    MTerm::Base(r, c, data) => Some(forms::<MatrixReverse<i64, MatrixRange<i64, MLeaf>>>(
                        &|| {
                            let (m, p) = mleaf(*r, *c, data).unwrap();
                            (MatrixReverse::from(MatrixRange::from(m, ir(*rr), ir(*cr)), Reverse { rows: *rv, columns: *cv }), p)
                        },
                        order, mode, wi, arg, k,
                    )?),
                    _ => None,
                },
                _ => None,
            },
        };
        if let Some(s) = stat {
            same!(canonical, s, 1043);
        }
        Ok(canonical)
    })();
    match r {
        Ok(x) => x,
        Err(c) => inconsistent(c),
    }
}
