//! C18 wave 2: (18 3 6 ..) error values (Display / {:?} / {:#?}), (18 3 7 ..) derived Debug of plain data,
//! (18 3 8 ..) decomposition / quadrant Displays -- compared byte for byte with Model/FormatDebug.v.
//! Every error value is built through its constructor / public fields AND, where the public API can produce
//! exactly that payload, obtained from the failing call itself; all forms must give the same text.
use super::{agree, dprec, show, text_sx, Tok};
use crate::sx::*;
use easy_ml::differentiation::iterators::{InconsistentHistory, InvalidRecordIteratorError};
use easy_ml::differentiation::{Record, WengertList};
use easy_ml::distributions::MultivariateGaussianError;
use easy_ml::linear_algebra;
use easy_ml::matrices::Matrix;
use easy_ml::tensors::indexing::TensorAccess;
use easy_ml::tensors::views::{
    DataLayout, IndexRange, IndexRangeValidationError, StrictIndexRangeValidationError, TensorRange,
};
use easy_ml::tensors::{InvalidDimensionsError, InvalidShapeError, Tensor};
use std::fmt::{Debug, Display};

macro_rules! with_dp {
    ($d:expr, $p:expr, $f:ident ( $($arg:expr),* )) => {
        match ($d, $p) {
            (0, 0) => $f::<0, 0>($($arg),*), (0, 1) => $f::<0, 1>($($arg),*), (0, 2) => $f::<0, 2>($($arg),*), (0, 3) => $f::<0, 3>($($arg),*),
            (1, 0) => $f::<1, 0>($($arg),*), (1, 1) => $f::<1, 1>($($arg),*), (1, 2) => $f::<1, 2>($($arg),*), (1, 3) => $f::<1, 3>($($arg),*),
            (2, 0) => $f::<2, 0>($($arg),*), (2, 1) => $f::<2, 1>($($arg),*), (2, 2) => $f::<2, 2>($($arg),*), (2, 3) => $f::<2, 3>($($arg),*),
            (3, 0) => $f::<3, 0>($($arg),*), (3, 1) => $f::<3, 1>($($arg),*), (3, 2) => $f::<3, 2>($($arg),*), (3, 3) => $f::<3, 3>($($arg),*),
            (4, 0) => $f::<4, 0>($($arg),*), (4, 1) => $f::<4, 1>($($arg),*), (4, 2) => $f::<4, 2>($($arg),*), (4, 3) => $f::<4, 3>($($arg),*),
            _ => $crate::sx::bad_case(),
        }
    };
}

/// form 0: Display (through four entry points of std::fmt: flags of the caller must not matter),
/// 1: {:?}, 2: {:#?}
fn render<X: Display + Debug>(form: usize, x: &X) -> String {
    match form {
        0 => {
            let forms = [format!("{}", x), x.to_string(), format!("{:.3}", x), format!("{:#}", x)];
            if forms.iter().all(|f| f == &forms[0]) {
                forms[0].clone()
            } else {
                format!("\u{1}DIFFERS\u{1}{:?}", forms)
            }
        }
        1 => format!("{:?}", x),
        _ => format!("{:#?}", x),
    }
}

fn render_dbg<X: Debug>(form: usize, x: &X) -> String {
    match form {
        1 => format!("{:?}", x),
        _ => format!("{:#?}", x),
    }
}

fn finish(forms: Vec<String>, code: i64) -> Sx {
    match agree(forms, code) {
        Ok(t) => ok(text_sx(&t)),
        Err(e) => e,
    }
}

fn small_product(shape: &[(usize, usize)]) -> Option<usize> {
    let mut p = 1usize;
    for s in shape {
        p = p.checked_mul(s.1)?;
        if p > 64 {
            return None;
        }
    }
    Some(p)
}

fn e_shape<const D: usize>(form: usize, shape: &[(usize, usize)]) -> Sx {
    let sh = shape_arr::<D>(shape);
    let e = InvalidShapeError::new(sh);
    let mut forms = vec![render(form, &e), render(form, &e.clone())];
    if e.shape() != sh || e.shape_ref() != &sh {
        return inconsistent(1840);
    }
    if !e.is_valid() {
        // the failing constructor itself reports this shape
        if let Some(p) = small_product(shape) {
            match Tensor::<i64, D>::try_from(sh, vec![0; p]) {
                Err(real) => forms.push(render(form, &real)),
                Ok(_) => return inconsistent(1841),
            }
        }
    }
    finish(forms, 1842)
}

fn e_dims<const D: usize, const P: usize>(form: usize, provided: &[usize], valid: &[usize]) -> Sx {
    let e = InvalidDimensionsError::<D, P>::new(names_arr::<P>(provided), names_arr::<D>(valid));
    if e.provided_names() != names_arr::<P>(provided) || e.valid_names() != names_arr::<D>(valid) {
        return inconsistent(1843);
    }
    finish(vec![render(form, &e), render(form, &e.clone())], 1844)
}

fn e_access<const D: usize>(form: usize, shape: &[(usize, usize)], requested: &[usize]) -> Sx {
    let sh = shape_arr::<D>(shape);
    let req = names_arr::<D>(requested);
    let e = easy_ml::tensors::indexing::InvalidDimensionsError { actual: sh, requested: req };
    let mut forms = vec![render(form, &e), render(form, &e.clone())];
    // the failing constructor: a valid tensor of this shape indexed by names that are not a permutation
    if InvalidShapeError::new(sh).is_valid() {
        if let Some(p) = small_product(shape) {
            let t = Tensor::<i64, D>::from(sh, vec![0; p]);
            if let Err(real) = TensorAccess::try_from(&t, req) {
                if real != e {
                    return inconsistent(1845);
                }
                forms.push(render(form, &real));
            }
            if let Err(real) = easy_ml::tensors::indexing::TensorTranspose::try_from(&t, req) {
                forms.push(render(form, &real));
            }
        }
    }
    finish(forms, 1846)
}

fn irv<const D: usize, const P: usize>(s: &[Sx]) -> Option<IndexRangeValidationError<D, P>> {
    match (s[0].i64()?, s.len()) {
        (0, 2) => {
            let shape = s[1].pairs_usize()?;
            if shape.len() != D {
                return None;
            }
            Some(IndexRangeValidationError::InvalidShape(InvalidShapeError::new(shape_arr::<D>(&shape))))
        }
        (1, 3) => {
            let (p, v) = (s[1].usizes()?, s[2].usizes()?);
            if p.len() != P || v.len() != D {
                return None;
            }
            Some(IndexRangeValidationError::InvalidDimensions(InvalidDimensionsError::new(names_arr::<P>(&p), names_arr::<D>(&v))))
        }
        _ => None,
    }
}

fn irv_dp(s: &[Sx]) -> Option<(usize, usize)> {
    match (s[0].i64()?, s.len()) {
        (0, 2) => Some((s[1].list()?.len(), 1)),
        (1, 3) => Some((s[2].list()?.len(), s[1].list()?.len())),
        _ => None,
    }
}

fn e_irv<const D: usize, const P: usize>(form: usize, s: &[Sx]) -> Sx {
    let Some(e) = irv::<D, P>(s) else { return bad_case() };
    let mut forms = vec![render(form, &e), render(form, &e.clone())];
    // Display of the enum is the Debug of the wrapped error
    let inner = match &e {
        IndexRangeValidationError::InvalidShape(x) => format!("{:?}", x),
        IndexRangeValidationError::InvalidDimensions(x) => format!("{:?}", x),
    };
    if form == 0 {
        forms.push(inner);
    }
    finish(forms, 1847)
}

fn e_strict_err<const D: usize, const P: usize>(form: usize, s: &[Sx]) -> Sx {
    let Some(e) = irv::<D, P>(s) else { return bad_case() };
    let e = StrictIndexRangeValidationError::Error(e);
    finish(vec![render(form, &e), render(form, &e.clone())], 1848)
}

fn e_strict_outside<const D: usize>(form: usize, shape: &[(usize, usize)], ranges: &[Option<(usize, usize)>]) -> Sx {
    let sh = shape_arr::<D>(shape);
    let index_range: [Option<IndexRange>; D] = std::array::from_fn(|i| ranges[i].map(|(s, l)| IndexRange::new(s, l)));
    let e = StrictIndexRangeValidationError::<D, 1>::OutsideShape { shape: sh, index_range: index_range.clone() };
    let mut forms = vec![render(form, &e), render(form, &e.clone())];
    // the failing strict constructor: a valid small tensor and at least one range that leaves the shape
    if InvalidShapeError::new(sh).is_valid() && ranges.iter().all(|r| r.map_or(true, |(s, l)| s < 1 << 20 && l < 1 << 20)) {
        if let Some(p) = small_product(shape) {
            let t = Tensor::<i64, D>::from(sh, vec![0; p]);
            let outside = (0..D).any(|i| ranges[i].map_or(false, |(s, l)| s + l > shape[i].1));
            if outside {
                let rs: [Option<IndexRange>; D] = index_range.clone();
                match TensorRange::from_all_strict(&t, rs) {
                    Err(real) => {
                        if real != (StrictIndexRangeValidationError::<D, D>::OutsideShape { shape: sh, index_range }) {
                            return inconsistent(1849);
                        }
                        forms.push(render(form, &real))
                    }
                    Ok(_) => return inconsistent(1850),
                }
            }
        }
    }
    finish(forms, 1851)
}

fn tape(k: usize) -> WengertList<i64> {
    let l = WengertList::new();
    for i in 0..k {
        let _ = Record::variable(i as i64, &l);
    }
    l
}

fn e_rie_shape<const D: usize>(form: usize, shape: &[(usize, usize)], length: usize) -> Sx {
    let e: InvalidRecordIteratorError<'static, i64, D> = InvalidRecordIteratorError::Shape { requested: InvalidShapeError::new(shape_arr::<D>(shape)), length };
    finish(vec![render(form, &e), render(form, &e.clone())], 1852)
}

pub fn error_case(a: &[Sx]) -> Option<Sx> {
    if a.len() != 2 {
        return None;
    }
    let form = a[0].usize()?;
    if form > 2 {
        return None;
    }
    let e = a[1].list()?;
    let kind = e.first()?.i64()?;
    Some(match (kind, e.len()) {
        (0, 2) => {
            let shape = e[1].pairs_usize()?;
            crate::with_d!(shape.len(), e_shape(form, &shape))
        }
        (1, 3) => {
            let (p, v) = (e[1].usizes()?, e[2].usizes()?);
            with_dp!(v.len(), p.len(), e_dims(form, &p, &v))
        }
        (2, 3) => {
            let (shape, req) = (e[1].pairs_usize()?, e[2].usizes()?);
            if shape.len() != req.len() {
                return None;
            }
            crate::with_d!(shape.len(), e_access(form, &shape, &req))
        }
        (3, 2) => {
            let s = e[1].list()?;
            let (d, p) = irv_dp(s)?;
            with_dp!(d, p, e_irv(form, s))
        }
        (4, 4) if e[1].i64()? == 0 => {
            let shape = e[2].pairs_usize()?;
            let mut ranges = Vec::new();
            for r in e[3].list()? {
                ranges.push(match r.option()? {
                    None => None,
                    Some(x) => {
                        let x = x.usizes()?;
                        if x.len() != 2 {
                            return None;
                        }
                        Some((x[0], x[1]))
                    }
                });
            }
            if ranges.len() != shape.len() {
                return None;
            }
            crate::with_d!(shape.len(), e_strict_outside(form, &shape, &ranges))
        }
        (4, 3) if e[1].i64()? == 1 => {
            let s = e[2].list()?;
            let (d, p) = irv_dp(s)?;
            with_dp!(d, p, e_strict_err(form, s))
        }
        (5, 1) => {
            let e = easy_ml::matrices::ScalarConversionError;
            let mut forms = vec![render(form, &e), render(form, &e.clone())];
            match Matrix::from_flat_row_major((2, 1), vec![1i64, 2]).try_into_scalar() {
                Err(real) => forms.push(render(form, &real)),
                Ok(_) => return Some(inconsistent(1853)),
            }
            finish(forms, 1854)
        }
        (6, 4) if e[1].i64()? == 0 => {
            let (shape, length) = (e[2].pairs_usize()?, e[3].usize()?);
            crate::with_d!(shape.len(), e_rie_shape(form, &shape, length))
        }
        (6, 2) if e[1].i64()? == 1 => {
            let e: InvalidRecordIteratorError<'static, i64, 1> = InvalidRecordIteratorError::Empty;
            let e2: InvalidRecordIteratorError<'static, i64, 3> = InvalidRecordIteratorError::Empty;
            finish(vec![render(form, &e), render(form, &e2)], 1855)
        }
        (6, 4) if e[1].i64()? == 2 => {
            let (f, l) = (hist(&e[2])?, hist(&e[3])?);
            let (tf, tl) = (f.map(tape), l.map(tape));
            let e = InvalidRecordIteratorError::<i64, 2>::InconsistentHistory(InconsistentHistory { first: tf.as_ref(), later: tl.as_ref() });
            finish(vec![render(form, &e), render(form, &e.clone())], 1856)
        }
        (7, 3) => {
            let (f, l) = (hist(&e[1])?, hist(&e[2])?);
            let (tf, tl) = (f.map(tape), l.map(tape));
            let e = InconsistentHistory { first: tf.as_ref(), later: tl.as_ref() };
            finish(vec![render(form, &e), render(form, &e.clone())], 1857)
        }
        (8, 6) => {
            let (wrong, msh, m, csh, c) = (e[1].bool()?, e[2].pairs_usize()?, e[3].i64s()?, e[4].pairs_usize()?, e[5].i64s()?);
            if msh.len() != 1 || csh.len() != 2 || !super::valid_shape(&msh, m.len()) || !super::valid_shape(&csh, c.len()) {
                return None;
            }
            let mean = Tensor::from(shape_arr::<1>(&msh), m);
            let covariance = Tensor::from(shape_arr::<2>(&csh), c);
            let e = if wrong {
                MultivariateGaussianError::MeanVectorWrongLength { mean, covariance }
            } else {
                MultivariateGaussianError::NotCovarianceMatrix { mean, covariance }
            };
            finish(vec![render(form, &e), render(form, &e.clone())], 1858)
        }
        _ => return None,
    })
}

fn hist(s: &Sx) -> Option<Option<usize>> {
    match s.option()? {
        None => Some(None),
        Some(k) => Some(Some(k.usize()?)),
    }
}

fn d_tensor<const D: usize>(form: usize, shape: &[(usize, usize)], data: Vec<i64>) -> Sx {
    let t = Tensor::from(shape_arr::<D>(shape), data);
    finish(vec![render_dbg(form, &t), render_dbg(form, &t.clone()), render_dbg(form, &t.map(|x| x))], 1860)
}

fn d_layout<const D: usize>(form: usize, names: &[usize]) -> Sx {
    let l = DataLayout::<D>::Linear(names_arr::<D>(names));
    finish(vec![render_dbg(form, &l), render_dbg(form, &l.clone())], 1861)
}

fn d_shape<const D: usize>(form: usize, shape: &[(usize, usize)]) -> Sx {
    let s = shape_arr::<D>(shape);
    finish(vec![render_dbg(form, &s), render_dbg(form, &&s[..])], 1862)
}

fn d_names<const D: usize>(form: usize, names: &[usize]) -> Sx {
    let s = names_arr::<D>(names);
    finish(vec![render_dbg(form, &s), render_dbg(form, &s.to_vec())], 1863)
}

pub fn debug_case(a: &[Sx]) -> Option<Sx> {
    if a.len() != 2 {
        return None;
    }
    let form = a[0].usize()?;
    if form != 1 && form != 2 {
        return None;
    }
    let v = a[1].list()?;
    let kind = v.first()?.i64()?;
    Some(match (kind, v.len()) {
        (0, 3) => {
            let (shape, data) = (v[1].pairs_usize()?, v[2].i64s()?);
            if shape.len() > 6 || !super::valid_shape(&shape, data.len()) {
                return None;
            }
            crate::with_d!(shape.len(), d_tensor(form, &shape, data))
        }
        (1, 4) => {
            let (rows, cols, data) = (v[1].usize()?, v[2].usize()?, v[3].i64s()?);
            if rows == 0 || cols == 0 || data.len() != rows * cols {
                return None;
            }
            let m = Matrix::from_flat_row_major((rows, cols), data);
            finish(vec![render_dbg(form, &m), render_dbg(form, &m.clone())], 1864)
        }
        (2, 3) => {
            let r = IndexRange::new(v[1].usize()?, v[2].usize()?);
            finish(vec![render_dbg(form, &r), render_dbg(form, &r.clone())], 1865)
        }
        (3, 3) => {
            let r = easy_ml::matrices::views::IndexRange::new(v[1].usize()?, v[2].usize()?);
            finish(vec![render_dbg(form, &r), render_dbg(form, &r.clone())], 1866)
        }
        (4, 2) => {
            let l = v[1].list()?;
            match (l.first()?.i64()?, l.len()) {
                (0, 2) => {
                    let names = l[1].usizes()?;
                    crate::with_d!(names.len(), d_layout(form, &names))
                }
                (1, 1) => finish(vec![render_dbg(form, &DataLayout::<2>::NonLinear), render_dbg(form, &DataLayout::<0>::NonLinear)], 1867),
                (2, 1) => finish(vec![render_dbg(form, &DataLayout::<2>::Other), render_dbg(form, &DataLayout::<5>::Other)], 1868),
                _ => return None,
            }
        }
        (5, 2) => {
            let shape = v[1].pairs_usize()?;
            crate::with_d!(shape.len(), d_shape(form, &shape))
        }
        (6, 2) => {
            let names = v[1].usizes()?;
            crate::with_d!(names.len(), d_names(form, &names))
        }
        _ => return None,
    })
}

fn quadrants<T: Clone + Display>(rows: usize, cols: usize, data: Vec<T>, r: usize, c: usize, prec: Option<usize>) -> Sx {
    let mut m = Matrix::from_flat_row_major((rows, cols), data);
    let mut m2 = m.clone();
    let a = show(&m.partition_quadrants(r, c), prec);
    let b = show(&m2.partition_quadrants(r, c), prec);
    finish(vec![a, b], 1870)
}

pub fn decomposition_case(a: &[Sx]) -> Option<Sx> {
    let prec = dprec(a.first()?)?;
    let kind = a.get(1)?.i64()?;
    Some(match (kind, a.len()) {
        (0, 8) | (2, 8) => {
            let (qr, qc, q, rr, rc, r) = (a[2].usize()?, a[3].usize()?, a[4].i64s()?, a[5].usize()?, a[6].usize()?, a[7].i64s()?);
            if qr == 0 || qc == 0 || rr == 0 || rc == 0 || q.len() != qr * qc || r.len() != rr * rc {
                return None;
            }
            if kind == 0 {
                let d = linear_algebra::QRDecomposition::from_unchecked(Matrix::from_flat_row_major((qr, qc), q), Matrix::from_flat_row_major((rr, rc), r));
                finish(vec![show(&d, prec), show(&d.clone(), prec)], 1871)
            } else {
                let d = linear_algebra::QRDecompositionTensor::from_unchecked(
                    Tensor::from([(dim(0), qr), (dim(1), qc)], q),
                    Tensor::from([(dim(0), rr), (dim(1), rc)], r),
                );
                finish(vec![show(&d, prec), show(&d.clone(), prec)], 1872)
            }
        }
        (1, 5) => {
            let (n, lm, dm) = (a[2].usize()?, a[3].i64s()?, a[4].i64s()?);
            if n == 0 || lm.len() != n * n || dm.len() != n * n {
                return None;
            }
            let d = linear_algebra::LDLTDecompositionTensor::from_unchecked(
                Tensor::from([(dim(0), n), (dim(1), n)], lm),
                Tensor::from([(dim(0), n), (dim(1), n)], dm),
            );
            finish(vec![show(&d, prec), show(&d.clone(), prec)], 1873)
        }
        (3, 8) => {
            let (el, rows, cols, data, r, c) = (a[2].i64()?, a[3].usize()?, a[4].usize()?, a[5].i64s()?, a[6].usize()?, a[7].usize()?);
            if rows == 0 || cols == 0 || data.len() != rows * cols || r == 0 || r >= rows || c == 0 || c >= cols {
                return None;
            }
            match el {
                0 => quadrants(rows, cols, data, r, c, prec),
                1 => quadrants(rows, cols, data.into_iter().map(Tok).collect(), r, c, prec),
                _ => return None,
            }
        }
        _ => return None,
    })
}
