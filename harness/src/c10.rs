//! C10 own cases: panic injection into user closures / iterators of mutating calls, followed by
//! continued use of the surviving object (see coq/theories/Run/RunC10.v). Every other C10
//! workload is another property's case replayed with the hooks on (tools/props/c10.py).
//! (10 7 shape data ops): a history of safe Tensor mutators (valid and invalid arguments, panicking
//! closures, writes through adaptor stacks built over `&mut tensor`), the tensor dumped through the
//! checked getter and through the (unchecked, hooked) iterators after EVERY step.
//! (10 9 term): TensorStack / TensorChain constructor walks; wave 2: `term` may also be ONE
//! TensorIndex `(3 inner ((name index)))` or TensorExpansion `(4 inner ((position name)))` over a
//! chain / stack term (nested views, walked through every checked / unchecked / iterator path).
use crate::guarded;
use crate::sx::*;
use easy_ml::matrices::Matrix;
use easy_ml::tensors::indexing::{TensorAccess, TensorTranspose};
use easy_ml::tensors::views::{TensorMask, TensorMut, TensorRange, TensorRef, TensorRename, TensorReverse};
use easy_ml::tensors::Tensor;
use std::cell::Cell;

// (10 8 ..): Matrix mutation histories — the C11 driver itself (self-contained file), compiled
// into this module so that C10 runs them with the hooks on whichever features are enabled
#[path = "c11.rs"]
mod matrix_histories;
/// wave 4: C09's harness (every iterator constructor / API form) compiled into C10 so that the
/// family `(10 10 . c09-case)` exists in C10's own case language (the inline module with a
/// directory path makes `mod c09;` resolve to src/c09.rs WITH its submodules in src/c09/).
#[path = "."]
mod iter_forms {
    pub mod c09;
}
mod records;

// ------------------------------------------------------------------ stack / chain walks (10 9 term)

use easy_ml::tensors::views::{TensorChain, TensorStack, TensorView};

struct LeafSpec {
    id: i64,
    shape: Vec<(usize, usize)>,
}

fn parse_leaves(s: &Sx) -> Option<Vec<LeafSpec>> {
    s.list()?
        .iter()
        .map(|t| {
            let v = t.list()?;
            if v.len() != 3 || v[0].i64()? != 0 {
                return None;
            }
            Some(LeafSpec { id: v[1].i64()?, shape: v[2].pairs_usize()? })
        })
        .collect()
}

fn mk_leaf<const D: usize>(spec: &LeafSpec) -> Option<Tensor<i64, D>> {
    if spec.shape.len() != D {
        return None;
    }
    let shape: [(&'static str, usize); D] = shape_arr(&spec.shape);
    let n: usize = spec.shape.iter().map(|d| d.1).product();
    let id = spec.id;
    guarded(move || Tensor::from(shape, (0..n as i64).map(|k| id * 1000 + k).collect()))
}

/// The constructor under catch_unwind; when it returns, EVERY index of view_shape() is read through
/// the checked getter, the unchecked getter and the iterator (unchecked accesses, hooks on).
fn walk<S: TensorMut<i64, D>, const D: usize>(mk: impl FnOnce() -> S) -> Sx {
    let Some(mut view) = guarded(mk) else { return panicked() };
    let shape = view.view_shape();
    let lens: Vec<usize> = shape.iter().map(|d| d.1).collect();
    if lens.iter().try_fold(1usize, |a, &b| a.checked_mul(b)).map_or(true, |n| n > (1 << 16)) {
        return inconsistent(1050);
    }
    let indexes = all_indexes(&lens);
    let Some(checked) = guarded(|| indexes.iter().map(|i| view.get_reference(idx_arr::<D>(i)).copied()).collect::<Vec<_>>()) else {
        return inconsistent(1051);
    };
    // the iterator and the unchecked getter may only be asked for indexes inside view_shape():
    // exactly what a safe caller (TensorView::iter) does
    let Some(iterated) = guarded(|| TensorView::from(&view).iter().collect::<Vec<i64>>()) else { return inconsistent(1052) };
    let Some(unchecked) = guarded(|| indexes.iter().map(|i| unsafe { *view.get_reference_unchecked(idx_arr::<D>(i)) }).collect::<Vec<i64>>()) else {
        return inconsistent(1053);
    };
    // the same through the mutable accessors: checked, unchecked and the mutable-reference iterator
    let Some(checked_mut) = guarded(|| indexes.iter().map(|i| view.get_reference_mut(idx_arr::<D>(i)).map(|r| *r)).collect::<Vec<_>>()) else {
        return inconsistent(1055);
    };
    let Some(unchecked_mut) = guarded(|| indexes.iter().map(|i| unsafe { *view.get_reference_unchecked_mut(idx_arr::<D>(i)) }).collect::<Vec<i64>>()) else {
        return inconsistent(1056);
    };
    let Some(iterated_mut) = guarded(|| TensorView::from(&mut view).iter_reference_mut().map(|r| *r).collect::<Vec<i64>>()) else {
        return inconsistent(1057);
    };
    if checked_mut != checked {
        return inconsistent(1058);
    }
    if checked.iter().all(|x| x.is_some()) {
        let c: Vec<i64> = checked.iter().map(|x| x.unwrap()).collect();
        if c != iterated || c != unchecked || c != unchecked_mut || c != iterated_mut {
            return inconsistent(1054);
        }
    }
    ok(l(vec![shape_sx(&shape), l(checked.into_iter().map(|x| opt(x.map(z))).collect())]))
}

// ---- wave 2: ONE outer TensorIndex / TensorExpansion over a chain / stack ----
// `(3 inner ((name index)))` = TensorIndex::from(inner, [(name, index)]), `(4 inner ((position name)))`
// = TensorExpansion::from(inner, [(position, name)]) in the term language of Run/RunC02.v, where
// `inner` is a chain (10 ..) or stack (9 ..) term.  The inner view is handed over as
// Box<dyn TensorMut> (index-transparent, traits.rs:183-225) so that one outer adaptor type per
// dimensionality serves every arity / tuple form; both constructors run under ONE catch_unwind.
use easy_ml::tensors::views::{TensorExpansion, TensorIndex};

type Inner<const D: usize> = Box<dyn TensorMut<i64, D>>;
type MkInner<const D: usize> = Box<dyn FnOnce() -> Inner<D>>;

#[derive(Clone, Copy)]
enum Outer {
    None,
    Index(usize, usize),
    Expand(usize, usize),
}

trait OuterWalk<const D: usize> {
    fn go(outer: Outer, mk: MkInner<D>) -> Sx;
}
struct Ow;

impl OuterWalk<0> for Ow {
    fn go(outer: Outer, mk: MkInner<0>) -> Sx {
        match outer {
            Outer::Expand(p, n) => walk::<_, 1>(move || TensorExpansion::<i64, Inner<0>, 0, 1>::from(mk(), [(p, dim(n))])),
            _ => bad_case(),
        }
    }
}
macro_rules! outer_walk_impl {
    ($d:literal, $dm1:literal, $dp1:literal) => {
        impl OuterWalk<$d> for Ow {
            fn go(outer: Outer, mk: MkInner<$d>) -> Sx {
                match outer {
                    Outer::Index(n, i) => walk::<_, $dm1>(move || TensorIndex::<i64, Inner<$d>, $d, 1>::from(mk(), [(dim(n), i)])),
                    Outer::Expand(p, n) => walk::<_, $dp1>(move || TensorExpansion::<i64, Inner<$d>, $d, 1>::from(mk(), [(p, dim(n))])),
                    Outer::None => bad_case(),
                }
            }
        }
    };
}
outer_walk_impl!(1, 0, 2);
outer_walk_impl!(2, 1, 3);
outer_walk_impl!(3, 2, 4);
outer_walk_impl!(4, 3, 5);
impl OuterWalk<5> for Ow {
    fn go(_: Outer, _: MkInner<5>) -> Sx {
        bad_case()
    }
}
impl OuterWalk<6> for Ow {
    fn go(_: Outer, _: MkInner<6>) -> Sx {
        bad_case()
    }
}

/// the plain walk of the constructed view, or the walk of the outer adaptor over it
macro_rules! fin {
    ($outer:expr, $d:tt, $e:expr) => {
        match $outer {
            Outer::None => walk::<_, $d>(move || $e),
            o => <Ow as OuterWalk<$d>>::go(o, Box::new(move || Box::new($e) as Inner<$d>)),
        }
    };
}

fn chain_walk<const D: usize>(leaves: &[LeafSpec], along: usize, kind: i64, outer: Outer) -> Sx
where
    Ow: OuterWalk<D>,
{
    let Some(ts) = leaves.iter().map(mk_leaf::<D>).collect::<Option<Vec<Tensor<i64, D>>>>() else { return bad_case() };
    let along = dim(along);
    let mut it = ts.into_iter();
    let mut nx = || it.next().unwrap();
    match (kind, leaves.len()) {
        (0, 1) => { let s = [nx()]; fin!(outer, D, TensorChain::<i64, [_; 1], D>::from(s, along)) }
        (0, 2) => { let s = [nx(), nx()]; fin!(outer, D, TensorChain::<i64, [_; 2], D>::from(s, along)) }
        (0, 3) => { let s = [nx(), nx(), nx()]; fin!(outer, D, TensorChain::<i64, [_; 3], D>::from(s, along)) }
        (0, 4) => { let s = [nx(), nx(), nx(), nx()]; fin!(outer, D, TensorChain::<i64, [_; 4], D>::from(s, along)) }
        (0, 5) => { let s = [nx(), nx(), nx(), nx(), nx()]; fin!(outer, D, TensorChain::<i64, [_; 5], D>::from(s, along)) }
        (1, 2) => { let s = (nx(), nx()); fin!(outer, D, TensorChain::<i64, (_, _), D>::from(s, along)) }
        (1, 3) => { let s = (nx(), nx(), nx()); fin!(outer, D, TensorChain::<i64, (_, _, _), D>::from(s, along)) }
        (1, 4) => { let s = (nx(), nx(), nx(), nx()); fin!(outer, D, TensorChain::<i64, (_, _, _, _), D>::from(s, along)) }
        _ => bad_case(),
    }
}

macro_rules! stack_walk_impl {
    ($name:ident, $d:literal, $d1:literal) => {
        fn $name(leaves: &[LeafSpec], along: (usize, usize), kind: i64, outer: Outer) -> Sx {
            let Some(ts) = leaves.iter().map(mk_leaf::<$d>).collect::<Option<Vec<Tensor<i64, $d>>>>() else { return bad_case() };
            let along = (along.0, dim(along.1));
            let mut it = ts.into_iter();
            let mut nx = || it.next().unwrap();
            match (kind, leaves.len()) {
                (0, 1) => { let s = [nx()]; fin!(outer, $d1, TensorStack::<i64, [_; 1], $d>::from(s, along)) }
                (0, 2) => { let s = [nx(), nx()]; fin!(outer, $d1, TensorStack::<i64, [_; 2], $d>::from(s, along)) }
                (0, 3) => { let s = [nx(), nx(), nx()]; fin!(outer, $d1, TensorStack::<i64, [_; 3], $d>::from(s, along)) }
                (0, 4) => { let s = [nx(), nx(), nx(), nx()]; fin!(outer, $d1, TensorStack::<i64, [_; 4], $d>::from(s, along)) }
                (0, 5) => { let s = [nx(), nx(), nx(), nx(), nx()]; fin!(outer, $d1, TensorStack::<i64, [_; 5], $d>::from(s, along)) }
                (1, 2) => { let s = (nx(), nx()); fin!(outer, $d1, TensorStack::<i64, (_, _), $d>::from(s, along)) }
                (1, 3) => { let s = (nx(), nx(), nx()); fin!(outer, $d1, TensorStack::<i64, (_, _, _), $d>::from(s, along)) }
                (1, 4) => { let s = (nx(), nx(), nx(), nx()); fin!(outer, $d1, TensorStack::<i64, (_, _, _, _), $d>::from(s, along)) }
                _ => bad_case(),
            }
        }
    };
}
stack_walk_impl!(stack_walk_0, 0, 1);
stack_walk_impl!(stack_walk_1, 1, 2);
stack_walk_impl!(stack_walk_2, 2, 3);
stack_walk_impl!(stack_walk_3, 3, 4);

fn view_walk(term: &Sx) -> Sx {
    let Some(v) = term.list() else { return bad_case() };
    // (3 inner ((name index))) / (4 inner ((position name))): one outer adaptor over a chain / stack
    if let (Some(tag @ (3 | 4)), 3) = (v.first().and_then(|x| x.i64()), v.len()) {
        let Some(ps) = v[2].pairs_usize() else { return bad_case() };
        if ps.len() != 1 {
            return bad_case();
        }
        let outer = if tag == 3 { Outer::Index(ps[0].0, ps[0].1) } else { Outer::Expand(ps[0].0, ps[0].1) };
        return match v[1].list().and_then(|w| w.first()).and_then(|x| x.i64()) {
            Some(9) | Some(10) => view_walk_with(&v[1], outer),
            _ => bad_case(),
        };
    }
    view_walk_with(term, Outer::None)
}

fn view_walk_with(term: &Sx, outer: Outer) -> Sx {
    let Some(v) = term.list() else { return bad_case() };
    match (v.first().and_then(|x| x.i64()), v.len()) {
        (Some(10), 4) => {
            let (Some(leaves), Some(along), Some(kind)) = (parse_leaves(&v[1]), v[2].usize(), v[3].i64()) else { return bad_case() };
            if leaves.is_empty() {
                return bad_case();
            }
            let d = leaves[0].shape.len();
            crate::with_d!(d, chain_walk(&leaves, along, kind, outer))
        }
        (Some(9), 5) => {
            let (Some(leaves), Some(pos), Some(name), Some(kind)) = (parse_leaves(&v[1]), v[2].usize(), v[3].usize(), v[4].i64()) else { return bad_case() };
            if leaves.is_empty() {
                return bad_case();
            }
            match leaves[0].shape.len() {
                0 => stack_walk_0(&leaves, (pos, name), kind, outer),
                1 => stack_walk_1(&leaves, (pos, name), kind, outer),
                2 => stack_walk_2(&leaves, (pos, name), kind, outer),
                3 => stack_walk_3(&leaves, (pos, name), kind, outer),
                _ => bad_case(),
            }
        }
        _ => bad_case(),
    }
}

// ------------------------------------------------------------------ tensor mutation histories

enum VStep {
    Rev(Vec<usize>),
    Range(Vec<(usize, usize)>),
    Access(Vec<usize>),
    Transpose(Vec<usize>),
    Mask(Vec<(usize, usize)>),
    Rename(Vec<usize>),
}

enum TOp {
    Reshape(Vec<(usize, usize)>),
    Rename(Vec<usize>),
    TransposeMut(Vec<usize>),
    ReorderMut(Vec<usize>),
    MapMut(usize),
    MapMutWithIndex(usize),
    Set(Vec<usize>, i64),
    WriteVia(Vec<VStep>, Vec<usize>, i64),
}

fn parse_vstep(s: &Sx) -> Option<VStep> {
    let v = s.list()?;
    if v.len() != 2 {
        return None;
    }
    Some(match v[0].i64()? {
        1 => VStep::Rev(v[1].usizes()?),
        2 => VStep::Range(v[1].pairs_usize()?),
        3 => VStep::Access(v[1].usizes()?),
        4 => VStep::Transpose(v[1].usizes()?),
        5 => VStep::Mask(v[1].pairs_usize()?),
        6 => VStep::Rename(v[1].usizes()?),
        _ => return None,
    })
}

fn parse_top(s: &Sx) -> Option<TOp> {
    let v = s.list()?;
    Some(match (v.first()?.i64()?, v.len()) {
        (0, 2) => TOp::Reshape(v[1].pairs_usize()?),
        (1, 2) => TOp::Rename(v[1].usizes()?),
        (2, 2) => TOp::TransposeMut(v[1].usizes()?),
        (3, 2) => TOp::ReorderMut(v[1].usizes()?),
        (4, 2) => TOp::MapMut(v[1].usize()?),
        (5, 2) => TOp::MapMutWithIndex(v[1].usize()?),
        (6, 3) => TOp::Set(v[1].usizes()?, v[2].i64()?),
        (7, 4) => {
            let steps = v[1].list()?.iter().map(parse_vstep).collect::<Option<Vec<_>>>()?;
            TOp::WriteVia(steps, v[2].usizes()?, v[3].i64()?)
        }
        _ => return None,
    })
}

type TDyn<const D: usize> = Box<dyn TensorMut<i64, D>>;

/// The adaptor stack over the (leaked, hence 'static) tensor; Err(1) a constructor returned Err,
/// Err(2) a constructor panicked (or an array argument of the wrong length: not expressible).
fn build_over<const D: usize>(base: &'static mut Tensor<i64, D>, steps: &[VStep]) -> Result<TDyn<D>, i64> {
    let mut s: TDyn<D> = Box::new(base);
    for st in steps {
        s = match st {
            VStep::Rev(names) => {
                let names: Vec<&'static str> = names.iter().map(|n| dim(*n)).collect();
                match guarded(move || TensorReverse::from(s, &names)) {
                    Some(v) => Box::new(v),
                    None => return Err(2),
                }
            }
            VStep::Range(r) => {
                if r.len() != D {
                    return Err(2);
                }
                let ranges: [Option<(usize, usize)>; D] = std::array::from_fn(|d| Some(r[d]));
                match guarded(move || TensorRange::from_all(s, ranges)) {
                    Some(Ok(v)) => Box::new(v),
                    Some(Err(_)) => return Err(1),
                    None => return Err(2),
                }
            }
            VStep::Mask(r) => {
                if r.len() != D {
                    return Err(2);
                }
                let masks: [Option<(usize, usize)>; D] = std::array::from_fn(|d| Some(r[d]));
                match guarded(move || TensorMask::from_all(s, masks)) {
                    Some(Ok(v)) => Box::new(v),
                    Some(Err(_)) => return Err(1),
                    None => return Err(2),
                }
            }
            VStep::Access(names) => {
                if names.len() != D {
                    return Err(2);
                }
                let names: [&'static str; D] = names_arr(names);
                match guarded(move || TensorAccess::from(s, names)) {
                    Some(v) => Box::new(v),
                    None => return Err(2),
                }
            }
            VStep::Transpose(names) => {
                if names.len() != D {
                    return Err(2);
                }
                let names: [&'static str; D] = names_arr(names);
                match guarded(move || TensorTranspose::from(s, names)) {
                    Some(v) => Box::new(v),
                    None => return Err(2),
                }
            }
            VStep::Rename(names) => {
                if names.len() != D {
                    return Err(2);
                }
                let names: [&'static str; D] = names_arr(names);
                match guarded(move || TensorRename::from(s, names)) {
                    Some(v) => Box::new(v),
                    None => return Err(2),
                }
            }
        };
    }
    Ok(s)
}

fn all_indexes(lens: &[usize]) -> Vec<Vec<usize>> {
    let mut out = vec![vec![]];
    for &len in lens {
        let mut next = vec![];
        for p in &out {
            for i in 0..len {
                let mut q = p.clone();
                q.push(i);
                next.push(q);
            }
        }
        out = next;
    }
    out
}

/// shape and elements of the tensor: every element through the checked getter, then through the
/// copying and the by-reference iterators (unchecked accesses, hooks on); all must agree.
fn dump_tensor_state<const D: usize>(t: &Tensor<i64, D>) -> Result<(Sx, Sx), i64> {
    let shape = t.shape();
    let lens: Vec<usize> = shape.iter().map(|d| d.1).collect();
    if lens.iter().try_fold(1usize, |a, &b| a.checked_mul(b)).map_or(true, |n| n > (1 << 20)) {
        return Err(1024);
    }
    let checked = guarded(|| {
        all_indexes(&lens).iter().map(|i| t.get_reference(idx_arr::<D>(i)).copied()).collect::<Vec<Option<i64>>>()
    })
    .ok_or(1020i64)?;
    let checked: Vec<i64> = checked.into_iter().collect::<Option<Vec<i64>>>().ok_or(1021i64)?;
    let copied = guarded(|| t.iter().collect::<Vec<i64>>()).ok_or(1022i64)?;
    let refs = guarded(|| t.iter_reference().copied().collect::<Vec<i64>>()).ok_or(1022i64)?;
    let indexed = guarded(|| t.iter().with_index().map(|(i, _)| i.to_vec()).collect::<Vec<Vec<usize>>>()).ok_or(1022i64)?;
    if copied != checked || refs != checked || indexed != all_indexes(&lens) {
        return Err(1023);
    }
    Ok((shape_sx(&shape), l(checked.into_iter().map(z).collect())))
}

fn history<const D: usize>(shape: &[(usize, usize)], data: &[i64], ops: &[TOp]) -> Sx {
    let shape: [(&'static str, usize); D] = shape_arr(shape);
    let data = data.to_vec();
    let Some(tensor) = guarded(move || Tensor::from(shape, data)) else { return panicked() };
    let p: *mut Tensor<i64, D> = Box::into_raw(Box::new(tensor));
    let mut steps = vec![];
    let mut failure: Option<i64> = None;
    for op in ops {
        // exactly one live reference at a time: `t` for direct calls, `base` for adaptor stacks
        let code: i64 = {
            let t: &mut Tensor<i64, D> = unsafe { &mut *p };
            match op {
                TOp::Reshape(sh) if sh.len() != D => 4,
                TOp::Reshape(sh) => {
                    let sh: [(&'static str, usize); D] = shape_arr(sh);
                    if guarded(|| t.reshape_mut(sh)).is_some() { 0 } else { 2 }
                }
                TOp::Rename(n) | TOp::TransposeMut(n) | TOp::ReorderMut(n) if n.len() != D => 4,
                TOp::Rename(n) => {
                    let n: [&'static str; D] = names_arr(n);
                    if guarded(|| t.rename(n)).is_some() { 0 } else { 2 }
                }
                TOp::TransposeMut(n) => {
                    let n: [&'static str; D] = names_arr(n);
                    if guarded(|| t.transpose_mut(n)).is_some() { 0 } else { 2 }
                }
                TOp::ReorderMut(n) => {
                    let n: [&'static str; D] = names_arr(n);
                    if guarded(|| t.reorder_mut(n)).is_some() { 0 } else { 2 }
                }
                TOp::MapMut(k) | TOp::MapMutWithIndex(k) => {
                    let calls = Cell::new(0usize);
                    let tick = || {
                        if calls.get() == *k {
                            panic!("injected closure panic");
                        }
                        calls.set(calls.get() + 1);
                    };
                    let r = if matches!(op, TOp::MapMut(_)) {
                        guarded(|| t.map_mut(|x| { tick(); x + 1000 }))
                    } else {
                        guarded(|| t.map_mut_with_index(|i, x| { tick(); x + 1000 + 7 * i.iter().sum::<usize>() as i64 }))
                    };
                    if r.is_some() { 0 } else { 2 }
                }
                TOp::Set(idx, _) | TOp::WriteVia(_, idx, _) if idx.len() != D => 4,
                TOp::Set(idx, v) => {
                    let idx: [usize; D] = idx_arr(idx);
                    match guarded(|| match t.get_reference_mut(idx) { Some(r) => { *r = *v; 0 } None => 3 }) {
                        Some(c) => c,
                        None => { failure = Some(1025); 0 }
                    }
                }
                TOp::WriteVia(vs, idx, v) => {
                    let idx: [usize; D] = idx_arr(idx);
                    let base: &'static mut Tensor<i64, D> = unsafe { &mut *p };
                    match build_over::<D>(base, vs) {
                        Err(c) => c,
                        Ok(mut s) => {
                            let r = guarded(|| match s.get_reference_mut(idx) {
                                Some(r) => { *r = *v; true }
                                None => false,
                            });
                            match r {
                                None => { failure = Some(1026); 0 }
                                Some(false) => 3,
                                Some(true) => {
                                    // the index is valid: the unchecked getters must see the new value
                                    let back = guarded(|| unsafe { (*s.get_reference_unchecked(idx), *s.get_reference_unchecked_mut(idx)) });
                                    if back != Some((*v, *v)) || s.get_reference(idx) != Some(v) {
                                        failure = Some(1027);
                                    }
                                    0
                                }
                            }
                        }
                    }
                }
            }
        };
        if failure.is_some() {
            break;
        }
        match dump_tensor_state(unsafe { &*p }) {
            Ok((sh, data)) => steps.push(l(vec![z(code), sh, data])),
            Err(c) => { failure = Some(c); break; }
        }
    }
    drop(unsafe { Box::from_raw(p) });
    match failure {
        Some(c) => inconsistent(c),
        None => ok(l(steps)),
    }
}

fn dump_matrix(m: &Matrix<i64>, panicked_flag: bool) -> Sx {
    let (rows, cols) = m.size();
    // every element through the checked getter, then the iterators (unchecked access, hooks on)
    let checked = guarded(|| {
        let mut v = vec![];
        for r in 0..rows {
            for c in 0..cols {
                v.push(m.get(r, c));
            }
        }
        v
    });
    let Some(checked) = checked else { return l(vec![z(-8), z(1001)]) };
    let Some(iterated) = guarded(|| m.row_major_iter().collect::<Vec<_>>()) else { return l(vec![z(-8), z(1002)]) };
    let Some(columns) = guarded(|| m.column_major_iter().count()) else { return l(vec![z(-8), z(1003)]) };
    if iterated != checked || columns != checked.len() {
        return inconsistent(1004);
    }
    l(vec![boolean(panicked_flag), z(rows), z(cols), l(checked.into_iter().map(z).collect())])
}

struct PanickingIter {
    vals: std::vec::IntoIter<i64>,
    calls: usize,
    k: usize,
    /// what size_hint() claims (exactly); None = the default (0, None). size_hint is safe code,
    /// an iterator may answer it wrongly, and the library must not trust it for safety.
    claim: Option<usize>,
}
impl Iterator for PanickingIter {
    type Item = i64;
    fn next(&mut self) -> Option<i64> {
        if self.calls == self.k {
            panic!("injected iterator panic");
        }
        self.calls += 1;
        self.vals.next()
    }
    fn size_hint(&self) -> (usize, Option<usize>) {
        match self.claim {
            Some(c) => (c, Some(c)),
            None => (0, None),
        }
    }
}

pub fn run(args: &[Sx]) -> Sx {
    let Some(op) = args.first().and_then(|x| x.i64()) else { return bad_case() };
    match (op, args.len()) {
        (8, _) => matrix_histories::run(&args[1..]),
        (10, n) if n >= 2 => iter_forms::c09::run(&args[1..]),
        (11, 8) => records::matrix(args),
        (12, 4) => records::tensor(args),
        (9, 2) => view_walk(&args[1]),
        (7, 4) => {
            let (Some(shape), Some(data), Some(ops)) = (args[1].pairs_usize(), args[2].i64s(), args[3].list()) else { return bad_case() };
            let Some(ops) = ops.iter().map(parse_top).collect::<Option<Vec<_>>>() else { return bad_case() };
            crate::with_d!(shape.len(), history(&shape, &data, &ops))
        }
        (1, 4) | (2, 4) => {
            let (Some(rows), Some(cols), Some(k)) = (args[1].usize(), args[2].usize(), args[3].usize()) else { return bad_case() };
            if rows == 0 || cols == 0 || rows * cols > 4096 {
                return bad_case();
            }
            let mut m = Matrix::from_flat_row_major((rows, cols), (0..(rows * cols) as i64).collect());
            let calls = Cell::new(0usize);
            let f = |x: i64| {
                if calls.get() == k {
                    panic!("injected closure panic");
                }
                calls.set(calls.get() + 1);
                x + 1000
            };
            let r = if op == 1 { guarded(|| m.map_mut(f)) } else { guarded(|| m.map_mut_with_index(|x, _, _| f(x))) };
            dump_matrix(&m, r.is_none())
        }
        (3, 6) | (4, 6) | (3, 7) | (4, 7) => {
            let (Some(rows), Some(cols), Some(pos), Some(vals), Some(k)) =
                (args[1].usize(), args[2].usize(), args[3].usize(), args[4].i64s(), args[5].usize())
            else {
                return bad_case();
            };
            let claim = if args.len() == 7 { match args[6].usize() { Some(c) => Some(c), None => return bad_case() } } else { None };
            if rows == 0 || cols == 0 || rows * cols > 4096 {
                return bad_case();
            }
            let mut m = Matrix::from_flat_row_major((rows, cols), (0..(rows * cols) as i64).collect());
            let it = PanickingIter { vals: vals.into_iter(), calls: 0, k, claim };
            let r = if op == 3 { guarded(|| m.insert_row_with(pos, it)) } else { guarded(|| m.insert_column_with(pos, it)) };
            dump_matrix(&m, r.is_none())
        }
        (5, 3) | (6, 3) => {
            let (Some(lens), Some(k)) = (args[1].usizes(), args[2].usize()) else { return bad_case() };
            fn go<const D: usize>(lens: &[usize], k: usize, with_index: bool) -> Sx {
                let shape: [(&'static str, usize); D] = std::array::from_fn(|d| (dim(d), lens[d]));
                let n: usize = lens.iter().product();
                let mut t = Tensor::from(shape, (0..n as i64).collect());
                let calls = Cell::new(0usize);
                let f = |x: i64| {
                    if calls.get() == k {
                        panic!("injected closure panic");
                    }
                    calls.set(calls.get() + 1);
                    x + 1000
                };
                let r = if with_index { guarded(|| t.map_mut_with_index(|_, x| f(x))) } else { guarded(|| t.map_mut(f)) };
                let Some(vals) = guarded(|| t.iter().collect::<Vec<_>>()) else { return l(vec![z(-8), z(1010)]) };
                let Some(refs) = guarded(|| t.iter_reference().copied().collect::<Vec<_>>()) else { return l(vec![z(-8), z(1011)]) };
                if vals != refs || t.shape() != shape {
                    return inconsistent(1012);
                }
                l(vec![boolean(r.is_none()), l(vals.into_iter().map(z).collect())])
            }
            if lens.iter().any(|&x| x == 0) || lens.iter().product::<usize>() > 4096 {
                return bad_case();
            }
            crate::with_d!(lens.len(), go(&lens, k, op == 6))
        }
        _ => bad_case(),
    }
}
