//! C10 has no case language of its own (see tools/props/c10.py): the hooks inside the unchecked
//! accessors are active for every property's cases.
use crate::sx::*;
pub fn run(_args: &[Sx]) -> Sx {
    bad_case()
}
