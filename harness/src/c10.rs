//! C10 own cases: panic injection into user closures / iterators of mutating calls, followed by
//! continued use of the surviving object (see coq/theories/Run/RunC10.v). Every other C10
//! workload is another property's case replayed with the hooks on (tools/props/c10.py).
use crate::guarded;
use crate::sx::*;
use easy_ml::matrices::Matrix;
use easy_ml::tensors::Tensor;
use std::cell::Cell;

fn dump_matrix(m: &Matrix<i64>, panicked_flag: bool) -> Sx {
    let (rows, cols) = m.size();
    // every element through the checked getter, then the iterators (unchecked access, hooks on)
    let checked = guarded(|| {
        let mut v = vec![];
        for r in 0..rows {
            for c in 0..cols {
                v.push(m.get(r, c));
            }
        }
        v
    });
    let Some(checked) = checked else { return l(vec![z(-8), z(1001)]) };
    let Some(iterated) = guarded(|| m.row_major_iter().collect::<Vec<_>>()) else { return l(vec![z(-8), z(1002)]) };
    let Some(columns) = guarded(|| m.column_major_iter().count()) else { return l(vec![z(-8), z(1003)]) };
    if iterated != checked || columns != checked.len() {
        return inconsistent(1004);
    }
    l(vec![boolean(panicked_flag), z(rows), z(cols), l(checked.into_iter().map(z).collect())])
}

struct PanickingIter {
    vals: std::vec::IntoIter<i64>,
    calls: usize,
    k: usize,
    /// what size_hint() claims (exactly); None = the default (0, None). size_hint is safe code,
    /// an iterator may answer it wrongly, and the library must not trust it for safety.
    claim: Option<usize>,
}
impl Iterator for PanickingIter {
    type Item = i64;
    fn next(&mut self) -> Option<i64> {
        if self.calls == self.k {
            panic!("injected iterator panic");
        }
        self.calls += 1;
        self.vals.next()
    }
    fn size_hint(&self) -> (usize, Option<usize>) {
        match self.claim {
            Some(c) => (c, Some(c)),
            None => (0, None),
        }
    }
}

pub fn run(args: &[Sx]) -> Sx {
    let Some(op) = args.first().and_then(|x| x.i64()) else { return bad_case() };
    match (op, args.len()) {
        (1, 4) | (2, 4) => {
            let (Some(rows), Some(cols), Some(k)) = (args[1].usize(), args[2].usize(), args[3].usize()) else { return bad_case() };
            if rows == 0 || cols == 0 || rows * cols > 4096 {
                return bad_case();
            }
            let mut m = Matrix::from_flat_row_major((rows, cols), (0..(rows * cols) as i64).collect());
            let calls = Cell::new(0usize);
            let f = |x: i64| {
                if calls.get() == k {
                    panic!("injected closure panic");
                }
                calls.set(calls.get() + 1);
                x + 1000
            };
            let r = if op == 1 { guarded(|| m.map_mut(f)) } else { guarded(|| m.map_mut_with_index(|x, _, _| f(x))) };
            dump_matrix(&m, r.is_none())
        }
        (3, 6) | (4, 6) | (3, 7) | (4, 7) => {
            let (Some(rows), Some(cols), Some(pos), Some(vals), Some(k)) =
                (args[1].usize(), args[2].usize(), args[3].usize(), args[4].i64s(), args[5].usize())
            else {
                return bad_case();
            };
            let claim = if args.len() == 7 { match args[6].usize() { Some(c) => Some(c), None => return bad_case() } } else { None };
            if rows == 0 || cols == 0 || rows * cols > 4096 {
                return bad_case();
            }
            let mut m = Matrix::from_flat_row_major((rows, cols), (0..(rows * cols) as i64).collect());
            let it = PanickingIter { vals: vals.into_iter(), calls: 0, k, claim };
            let r = if op == 3 { guarded(|| m.insert_row_with(pos, it)) } else { guarded(|| m.insert_column_with(pos, it)) };
            dump_matrix(&m, r.is_none())
        }
        (5, 3) | (6, 3) => {
            let (Some(lens), Some(k)) = (args[1].usizes(), args[2].usize()) else { return bad_case() };
            fn go<const D: usize>(lens: &[usize], k: usize, with_index: bool) -> Sx {
                let shape: [(&'static str, usize); D] = std::array::from_fn(|d| (dim(d), lens[d]));
                let n: usize = lens.iter().product();
                let mut t = Tensor::from(shape, (0..n as i64).collect());
                let calls = Cell::new(0usize);
                let f = |x: i64| {
                    if calls.get() == k {
                        panic!("injected closure panic");
                    }
                    calls.set(calls.get() + 1);
                    x + 1000
                };
                let r = if with_index { guarded(|| t.map_mut_with_index(|_, x| f(x))) } else { guarded(|| t.map_mut(f)) };
                let Some(vals) = guarded(|| t.iter().collect::<Vec<_>>()) else { return l(vec![z(-8), z(1010)]) };
                let Some(refs) = guarded(|| t.iter_reference().copied().collect::<Vec<_>>()) else { return l(vec![z(-8), z(1011)]) };
                if vals != refs || t.shape() != shape {
                    return inconsistent(1012);
                }
                l(vec![boolean(r.is_none()), l(vals.into_iter().map(z).collect())])
            }
            if lens.iter().any(|&x| x == 0) || lens.iter().product::<usize>() > 4096 {
                return bad_case();
            }
            crate::with_d!(lens.len(), go(&lens, k, op == 6))
        }
        _ => bad_case(),
    }
}
