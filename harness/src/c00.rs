//! Self-test of the shared numeric element types against Model/Num.v:  (0 ty op a b raw)
use crate::num::Enc;
use crate::sx::*;
use crate::with_ty;
use easy_ml::numeric::extra::{Cos, Exp, Ln, Pi, Pow, Real, Sin, Sqrt};
use easy_ml::numeric::{FromUsize, ZeroOne};

pub fn run(args: &[Sx]) -> Sx {
    if args.len() != 5 {
        return bad_case();
    }
    let (Some(ty), Some(op)) = (args[0].i64(), args[1].i64()) else { return bad_case() };
    with_ty!(ty, go(op, &args[2], &args[3], &args[4]))
}

fn go<T: Real + Enc + PartialEq>(op: i64, a: &Sx, b: &Sx, raw: &Sx) -> Sx
where
    for<'a> &'a T: easy_ml::numeric::extra::RealRef<T>,
{
    let (Some(a), Some(b)) = (T::dec(a), T::dec(b)) else { return bad_case() };
    match op {
        0 => {
            let r = a.clone() + b.clone();
            if r != &a + &b || r != a.clone() + &b || r != &a + b.clone() {
                return inconsistent(1);
            }
            r.enc()
        }
        1 => (&a - &b).enc(),
        2 => (&a * &b).enc(),
        3 => (&a / &b).enc(),
        4 => (-a).enc(),
        5 => boolean(a == b),
        6 => boolean(a < b),
        7 => boolean(a <= b),
        8 => a.sqrt().enc(),
        9 => a.exp().enc(),
        10 => a.ln().enc(),
        11 => a.sin().enc(),
        12 => a.cos().enc(),
        13 => a.pow(b).enc(),
        14 => T::pi().enc(),
        15 => match raw.usize() {
            Some(n) => opt(T::from_usize(n).map(|x| x.enc())),
            None => bad_case(),
        },
        16 => l(vec![T::zero().enc(), T::one().enc()]),
        _ => bad_case(),
    }
}
