//! C12: matrix views (range, reverse, partition parts, quadrants, tensor round trips) stacked to
//! any depth over a real `Matrix<i64>`.  Case language: see coq/theories/Run/RunC12.v.
#[path = "c11.rs"]
mod history;
#[path = "c12/tbuild.rs"]
mod tbuild;

use crate::guarded;
use crate::sx::*;
use easy_ml::differentiation::RecordMatrix;
use easy_ml::interop::{MatrixRefTensor, TensorRefMatrix};
use easy_ml::matrices::views::{
    DataLayout, IndexRange, MatrixMut, MatrixPart, MatrixRange, MatrixRef, MatrixReverse, MatrixView,
    NoInteriorMutability, Reverse,
};
use easy_ml::matrices::Matrix;
use easy_ml::tensors::views::TensorRef;

/// Type erasure for a stack of views whose depth is only known at run time: pure delegation.
struct Erased<'a, E = i64>(Box<dyn MatrixMut<E> + 'a>);
unsafe impl<'a, E> MatrixRef<E> for Erased<'a, E> {
    fn try_get_reference(&self, row: usize, column: usize) -> Option<&E> {
        self.0.as_ref().try_get_reference(row, column)
    }
    fn view_rows(&self) -> usize {
        self.0.as_ref().view_rows()
    }
    fn view_columns(&self) -> usize {
        self.0.as_ref().view_columns()
    }
    unsafe fn get_reference_unchecked(&self, row: usize, column: usize) -> &E {
        self.0.as_ref().get_reference_unchecked(row, column)
    }
    fn data_layout(&self) -> easy_ml::matrices::views::DataLayout {
        self.0.as_ref().data_layout()
    }
}
unsafe impl<'a, E> MatrixMut<E> for Erased<'a, E> {
    fn try_get_reference_mut(&mut self, row: usize, column: usize) -> Option<&mut E> {
        self.0.as_mut().try_get_reference_mut(row, column)
    }
    unsafe fn get_reference_unchecked_mut(&mut self, row: usize, column: usize) -> &mut E {
        self.0.as_mut().get_reference_unchecked_mut(row, column)
    }
}
unsafe impl<'a, E> NoInteriorMutability for Erased<'a, E> {}

#[derive(Clone)]
enum Wrapper {
    Range(usize, usize, usize, usize),
    StdRange(usize, usize, usize, usize),
    Reverse(bool, bool),
    TensorNames(usize, usize),
    Tensor,
}

#[derive(Clone)]
enum Leaf {
    Matrix,
    Part(Vec<usize>, Vec<usize>, usize),
    Quadrant(usize, usize, usize),
}

fn wrapper(s: &Sx) -> Option<Wrapper> {
    let v = s.list()?;
    let tag = v.first()?.i64()?;
    Some(match (tag, v.len()) {
        (0, 5) => Wrapper::Range(v[1].usize()?, v[2].usize()?, v[3].usize()?, v[4].usize()?),
        (1, 5) => Wrapper::StdRange(v[1].usize()?, v[2].usize()?, v[3].usize()?, v[4].usize()?),
        (2, 3) => Wrapper::Reverse(v[1].bool()?, v[2].bool()?),
        (3, 3) => Wrapper::TensorNames(v[1].usize()?, v[2].usize()?),
        (4, 1) => Wrapper::Tensor,
        _ => return None,
    })
}

fn leaf(s: &Sx) -> Option<Leaf> {
    let v = s.list()?;
    let tag = v.first()?.i64()?;
    Some(match (tag, v.len()) {
        (0, 1) => Leaf::Matrix,
        (1, 4) => {
            let (rp, cp, k) = (v[1].usizes()?, v[2].usizes()?, v[3].usize()?);
            if k >= (rp.len() + 1) * (cp.len() + 1) {
                return None;
            }
            Leaf::Part(rp, cp, k)
        }
        (2, 4) => {
            let k = v[3].usize()?;
            if k >= 4 {
                return None;
            }
            Leaf::Quadrant(v[1].usize()?, v[2].usize()?, k)
        }
        _ => return None,
    })
}

fn name_code(n: &str) -> usize {
    match n {
        "row" => 1000,
        "column" => 1001,
        other => undim(other),
    }
}
fn shape2_sx(shape: &[(&'static str, usize); 2]) -> Sx {
    l(shape.iter().map(|(n, len)| l(vec![z(name_code(n)), z(*len)])).collect())
}

/// Why a stack could not be built: the result line to print.
enum Refused {
    Line(Sx),
    Panicked,
    Shape(Sx),
    Inconsistent(i64),
}

/// Cross-checks of the intermediate TensorRefMatrix against the matrix view it wraps, taken
/// before the view is moved into it.
fn snapshot<E: Clone>(v: &Erased<E>) -> (usize, usize, Vec<Option<E>>) {
    let (rows, columns) = (v.view_rows(), v.view_columns());
    let mut cells = vec![];
    for r in 0..=rows.min(8) {
        for c in 0..=columns.min(8) {
            cells.push(v.try_get_reference(r, c).cloned());
        }
    }
    (rows, columns, cells)
}

fn tensor_agrees<E: Clone + PartialEq, S: TensorRef<E, 2>>(t: &S, names: [&'static str; 2], snap: &(usize, usize, Vec<Option<E>>)) -> bool {
    let (rows, columns, cells) = snap;
    if t.view_shape() != [(names[0], *rows), (names[1], *columns)] {
        return false;
    }
    let mut k = 0;
    for r in 0..=(*rows).min(8) {
        for c in 0..=(*columns).min(8) {
            if t.get_reference([r, c]).cloned() != cells[k] {
                return false;
            }
            k += 1;
        }
    }
    t.get_reference([usize::MAX, 0]).is_none() && t.get_reference([0, usize::MAX]).is_none()
}

fn wrap<'a, E: Clone + PartialEq + 'a>(mut cur: Erased<'a, E>, wrappers: &[Wrapper]) -> Result<Erased<'a, E>, Refused> {
    for (i, w) in wrappers.iter().enumerate() {
        cur = match *w {
            Wrapper::Range(r0, rl, c0, cl) => match i % 3 {
                0 => Erased(Box::new(MatrixRange::from(cur, (r0, rl), (c0, cl)))),
                1 => Erased(Box::new(MatrixRange::from(cur, [r0, rl], [c0, cl]))),
                _ => Erased(Box::new(MatrixRange::from(cur, IndexRange::new(r0, rl), IndexRange::new(c0, cl)))),
            },
            Wrapper::StdRange(a, b, c, d) => Erased(Box::new(MatrixRange::from(cur, a..b, c..d))),
            Wrapper::Reverse(rows, columns) => Erased(Box::new(MatrixReverse::from(cur, Reverse { rows, columns }))),
            Wrapper::TensorNames(n0, n1) => {
                let names = [dim(n0), dim(n1)];
                let snap = snapshot(&cur);
                match TensorRefMatrix::with_names(cur, names) {
                    Ok(t) => {
                        if !tensor_agrees(&t, names, &snap) {
                            return Err(Refused::Inconsistent(1201));
                        }
                        Erased(Box::new(MatrixRefTensor::from(t)))
                    }
                    Err(e) => return Err(Refused::Shape(shape2_sx(&e.shape()))),
                }
            }
            Wrapper::Tensor => {
                let snap = snapshot(&cur);
                match TensorRefMatrix::from(cur) {
                    Ok(t) => {
                        if !tensor_agrees(&t, ["row", "column"], &snap) {
                            return Err(Refused::Inconsistent(1202));
                        }
                        Erased(Box::new(MatrixRefTensor::from(t)))
                    }
                    Err(e) => return Err(Refused::Shape(shape2_sx(&e.shape()))),
                }
            }
        };
    }
    Ok(cur)
}

/// Builds the stack over `m` and hands the outermost view to `f`.
fn with_stack<R>(
    m: &mut Matrix<i64>,
    leaf: &Leaf,
    wrappers: &[Wrapper],
    f: impl FnOnce(&mut MatrixView<i64, Erased>) -> R,
) -> Result<R, Refused> {
    let bottom: Erased = match leaf {
        Leaf::Matrix => Erased(Box::new(m)),
        Leaf::Part(rp, cp, k) => {
            let parts = guarded(move || m.partition(rp, cp)).ok_or(Refused::Panicked)?;
            if parts.len() != (rp.len() + 1) * (cp.len() + 1) {
                return Err(Refused::Inconsistent(1203));
            }
            let part: MatrixPart<i64> = parts.into_iter().nth(*k).unwrap().source();
            Erased(Box::new(part))
        }
        Leaf::Quadrant(r, c, k) => {
            let (r, c) = (*r, *c);
            let q = guarded(move || m.partition_quadrants(r, c)).ok_or(Refused::Panicked)?;
            let part = match k {
                0 => q.top_left,
                1 => q.top_right,
                2 => q.bottom_left,
                _ => q.bottom_right,
            };
            Erased(Box::new(part.source()))
        }
    };
    let top = wrap(bottom, wrappers)?;
    let mut view = MatrixView::from(top);
    Ok(f(&mut view))
}

fn refused_sx(r: Refused) -> Sx {
    match r {
        Refused::Line(line) => line,
        Refused::Panicked => panicked(),
        Refused::Shape(s) => err(s),
        Refused::Inconsistent(code) => inconsistent(code),
    }
}

fn probe_sx(v: Option<Option<i64>>) -> Sx {
    match v {
        Some(None) => nil(),
        Some(Some(x)) => l(vec![z(x)]),
        None => l(vec![z(0), z(0)]),
    }
}

/// One probe through every SHARED checked form (they share one code path: MatrixRef::
/// try_get_reference); Err(code) when two forms disagree.  The mutable checked form and the two
/// unchecked forms are separate code paths with their own model functions: they are printed on
/// their own by `other_forms` / `iterate` and compared with the model directly.
fn probe<S: MatrixMut<i64> + NoInteriorMutability>(view: &mut MatrixView<i64, S>, r: usize, c: usize) -> Result<Option<Option<i64>>, i64> {
    let base = guarded(|| view.try_get_reference(r, c).copied());
    let Some(value) = base else {
        return Ok(None);
    };
    if guarded(|| view.get(r, c)) != value {
        return Err(1210);
    }
    if guarded(|| *view.get_reference(r, c)) != value {
        return Err(1211);
    }
    if guarded(|| view.source_ref().try_get_reference(r, c).copied()) != Some(value) {
        return Err(1214);
    }
    let (rows, columns) = view.size();
    if value.is_some() != (r < rows && c < columns) {
        // presence must coincide with being inside the reported size
        return Err(1215);
    }
    Ok(Some(value))
}

fn iterate<S: MatrixMut<i64> + NoInteriorMutability>(view: &mut MatrixView<i64, S>) -> Result<Vec<Sx>, i64> {
    let (rows, columns) = view.size();
    if view.rows() != rows || view.columns() != columns {
        return Err(1220);
    }
    let Some(rm) = guarded(|| view.row_major_iter().collect::<Vec<i64>>()) else { return Err(1221) };
    let Some(rmr) = guarded(|| view.row_major_reference_iter().copied().collect::<Vec<i64>>()) else {
        return Err(1222);
    };
    let Some(cm) = guarded(|| view.column_major_iter().collect::<Vec<i64>>()) else { return Err(1223) };
    if rm != rmr || rm.len() != cm.len() {
        return Err(1224);
    }
    if rows <= 64 && columns <= 64 && rm.len() == rows * columns {
        for r in 0..rows {
            for c in 0..columns {
                if cm[c * rows + r] != rm[r * columns + c] {
                    return Err(1225);
                }
            }
        }
    }
    Ok(rm.into_iter().map(|x| l(vec![z(x)])).collect())
}

/// The mutable checked getter on every probe and the unchecked mutable getter on every cell of
/// the view (row-major), each printed on its own: the model transcribes these code paths
/// separately (coq/theories/Model/MatrixAccess.v).  Cross-checked here only against API forms
/// that share their code path: MatrixView::get_reference_mut (= try_get_reference_mut or panic),
/// and direct get_reference_unchecked calls against row_major_iter (both the shared unchecked path).
fn other_forms<S: MatrixMut<i64> + NoInteriorMutability>(view: &mut MatrixView<i64, S>, probes: &[(usize, usize)]) -> Result<Sx, i64> {
    let mut mut_ps: Vec<Sx> = vec![];
    for &(r, c) in probes {
        let a = guarded(|| view.try_get_reference_mut(r, c).map(|x| *x));
        let b = guarded(|| *view.get_reference_mut(r, c));
        match a {
            Some(Some(x)) if b != Some(x) => return Err(1212),
            Some(None) if b.is_some() => return Err(1213),
            _ => {}
        }
        mut_ps.push(probe_sx(a));
    }
    let (rows, columns) = view.size();
    let mut cells = vec![];
    if rows <= 64 && columns <= 64 {
        let rm = guarded(|| view.row_major_iter().collect::<Vec<i64>>());
        let mut direct = vec![];
        for r in 0..rows {
            for c in 0..columns {
                cells.push(probe_sx(guarded(|| Some(unsafe { *view.get_reference_unchecked_mut(r, c) }))));
                direct.push(guarded(|| unsafe { *view.get_reference_unchecked(r, c) }));
            }
        }
        if let Some(rm) = rm {
            if rm.len() != direct.len() || rm.iter().zip(direct.iter()).any(|(x, d)| *d != Some(*x)) {
                return Err(1216);
            }
        }
    }
    Ok(l(vec![l(mut_ps), l(cells)]))
}

fn layout_code(l: Option<DataLayout>) -> i64 {
    match l {
        Some(DataLayout::RowMajor) => 0,
        Some(DataLayout::ColumnMajor) => 1,
        Some(DataLayout::Other) => 2,
        None => 3,
    }
}

/// data_layout() of the view itself (MatrixView's method and its source's must agree) and as
/// answered through the `&S` / `&mut S` implementations of MatrixRef (which must agree).
fn layouts<S: MatrixMut<i64> + NoInteriorMutability>(view: &mut MatrixView<i64, S>) -> Result<Sx, i64> {
    let own = layout_code(guarded(|| view.data_layout()));
    if layout_code(guarded(|| view.source_ref().data_layout())) != own {
        return Err(1226);
    }
    let shared = layout_code(guarded(|| {
        let r: &S = view.source_ref();
        <&S as MatrixRef<i64>>::data_layout(&r)
    }));
    let exclusive = layout_code(guarded(|| {
        let r: &mut S = view.source_ref_mut();
        <&mut S as MatrixRef<i64>>::data_layout(&r)
    }));
    if shared != exclusive {
        return Err(1227);
    }
    // a view over a reference to the source answers like the reference
    if layout_code(guarded(|| MatrixView::from(view.source_ref()).data_layout())) != shared {
        return Err(1228);
    }
    Ok(l(vec![z(own), z(shared)]))
}

/// form 0: set, 1: try_get_reference_mut, 2: get_reference_mut, 3: unchecked (present cells only)
fn write_through<S: MatrixMut<i64> + NoInteriorMutability>(view: &mut MatrixView<i64, S>, form: usize, r: usize, c: usize, x: i64) -> bool {
    match form {
        0 => guarded(|| view.set(r, c, x)).is_some(),
        1 => match guarded(|| view.try_get_reference_mut(r, c).map(|cell| *cell = x)) {
            Some(Some(())) => true,
            _ => false,
        },
        2 => guarded(|| *view.get_reference_mut(r, c) = x).is_some(),
        _ => {
            let present = guarded(|| view.try_get_reference(r, c).is_some()) == Some(true);
            if present {
                unsafe { *view.get_reference_unchecked_mut(r, c) = x };
            }
            present
        }
    }
}

/// Size and probes through the shared API only (for the shorthand constructors).
fn read_all<S: MatrixRef<i64>>(view: &MatrixView<i64, S>, probes: &[(usize, usize)]) -> (Sx, Vec<Sx>) {
    let (rows, columns) = view.size();
    let ps = probes
        .iter()
        .map(|&(r, c)| {
            let a = guarded(|| view.try_get_reference(r, c).copied());
            let b = guarded(|| view.get(r, c));
            match a {
                Some(v) if v == b => probe_sx(Some(v)),
                _ => inconsistent(1270),
            }
        })
        .collect();
    (l(vec![z(rows), z(columns)]), ps)
}

/// The second level through the MatrixView shorthands range / reverse.
fn shorthand_second<S: MatrixRef<i64>>(v1: &MatrixView<i64, S>, w2: &Wrapper, probes: &[(usize, usize)]) -> Option<(Sx, Vec<Sx>)> {
    Some(match *w2 {
        Wrapper::Range(r0, rl, c0, cl) => read_all(&v1.range((r0, rl), (c0, cl)), probes),
        Wrapper::StdRange(a, b, c, d) => read_all(&v1.range(a..b, c..d), probes),
        Wrapper::Reverse(rows, columns) => read_all(&v1.reverse(Reverse { rows, columns }), probes),
        _ => return None,
    })
}

/// Stacks of one or two ranges / reversals built with Matrix::{range, reverse}(_mut, _owned) and
/// MatrixView::{range, reverse}: every variant must show what the explicit constructors show.
fn shorthands(m: &Matrix<i64>, ws: &[Wrapper], probes: &[(usize, usize)]) -> Vec<(Sx, Vec<Sx>)> {
    let mut out = vec![];
    if ws.is_empty() || ws.len() > 2 {
        return out;
    }
    let rest = &ws[1..];
    macro_rules! finish {
        ($v:expr) => {{
            let v = $v;
            if rest.is_empty() {
                out.push(read_all(&v, probes));
            } else if let Some(o) = shorthand_second(&v, &rest[0], probes) {
                out.push(o);
            }
        }};
    }
    match ws[0] {
        Wrapper::Range(r0, rl, c0, cl) => {
            finish!(m.range((r0, rl), (c0, cl)));
            finish!(m.clone().range_owned([r0, rl], [c0, cl]));
            let mut copy = m.clone();
            finish!(copy.range_mut(IndexRange::new(r0, rl), IndexRange::new(c0, cl)));
        }
        Wrapper::StdRange(a, b, c, d) => {
            finish!(m.range(a..b, c..d));
            finish!(m.clone().range_owned(a..b, c..d));
            let mut copy = m.clone();
            finish!(copy.range_mut(a..b, c..d));
        }
        Wrapper::Reverse(rows, columns) => {
            finish!(m.reverse(Reverse { rows, columns }));
            finish!(m.clone().reverse_owned(Reverse { rows, columns }));
            let mut copy = m.clone();
            finish!(copy.reverse_mut(Reverse { rows, columns }));
        }
        _ => {}
    }
    out
}

fn dump(m: &Matrix<i64>) -> Sx {
    l(m.row_major_iter().map(z).collect())
}

fn root(args: &[Sx]) -> Option<Matrix<i64>> {
    let (rows, columns, data) = (args[0].usize()?, args[1].usize()?, args[2].i64s()?);
    if rows == 0 || columns == 0 || rows > 64 || columns > 64 || rows * columns != data.len() {
        return None;
    }
    Some(Matrix::from_flat_row_major((rows, columns), data))
}

fn view_case(args: &[Sx]) -> Sx {
    let Some(m0) = root(&args[1..4]) else { return bad_case() };
    let (Some(lf), Some(ws), Some(probes), Some(writes)) = (
        leaf(&args[4]),
        args[5].list().and_then(|v| v.iter().map(wrapper).collect::<Option<Vec<_>>>()),
        args[6].pairs_usize(),
        args[7].list().and_then(|v| {
            v.iter()
                .map(|w| {
                    let w = w.list()?;
                    if w.len() != 3 {
                        return None;
                    }
                    Some((w[0].usize()?, w[1].usize()?, w[2].i64()?))
                })
                .collect::<Option<Vec<_>>>()
        }),
    ) else {
        return bad_case();
    };

    // reads
    let mut m = m0.clone();
    let reads = with_stack(&mut m, &lf, &ws, |view| -> Result<(Sx, Vec<Sx>, Vec<Sx>, Sx, Sx), i64> {
        let (rows, columns) = view.size();
        let mut ps = vec![];
        for &(r, c) in &probes {
            ps.push(probe_sx(probe(view, r, c)?));
        }
        let it = iterate(view)?;
        let lay = layouts(view)?;
        let others = other_forms(view, &probes)?;
        Ok((l(vec![z(rows), z(columns)]), ps, it, lay, others))
    });
    let (size, ps, it, lay, others) = match reads {
        Err(r) => return refused_sx(r),
        Ok(Err(code)) => return inconsistent(code),
        Ok(Ok(x)) => x,
    };
    if dump(&m) != dump(&m0) {
        return inconsistent(1230);
    }
    if let Leaf::Matrix = lf {
        for (sz, ps2) in shorthands(&m0, &ws, &probes) {
            if sz != size || ps2 != ps {
                return inconsistent(1271);
            }
        }
    }
    // MatrixMap (crate private) is only reachable through Display for RecordMatrix: the same
    // stack over a matrix of (number, index) pairs, shown through the mapped view, must print
    // what the stack over the plain numbers prints (same size, same cells in the same places)
    if let Leaf::Matrix = lf {
        let pairs: Vec<(i64, usize)> = m0.row_major_iter().enumerate().map(|(i, x)| (x, i + 1)).collect();
        let tuple_matrix = Matrix::from_flat_row_major(m0.size(), pairs);
        let mapped = wrap(Erased(Box::new(tuple_matrix)), &ws)
            .map(|top| guarded(|| format!("{}", RecordMatrix::from_existing(None, MatrixView::from(top)))));
        let plain = wrap(Erased(Box::new(m0.clone())), &ws).map(|top| guarded(|| format!("{}", MatrixView::from(top))));
        match (mapped, plain) {
            (Ok(a), Ok(b)) => {
                if a != b {
                    return inconsistent(1280);
                }
            }
            _ => return inconsistent(1281),
        }
    }
    // the same stack over an owned matrix behind the crate's own Box<dyn MatrixMut<T>>
    if let Leaf::Matrix = lf {
        let boxed: Box<dyn MatrixMut<i64>> = Box::new(m0.clone());
        let other = wrap(Erased(Box::new(boxed)), &ws).map(|top| {
            let mut view = MatrixView::from(top);
            let mut ps2 = vec![];
            for &(r, c) in &probes {
                ps2.push(probe(&mut view, r, c).map(probe_sx));
            }
            let lay2 = layouts(&mut view);
            // the whole stack once more behind Box<S> and the crate's Box<dyn MatrixRef<T>>: same hint
            let sz = view.size();
            let boxed_view = MatrixView::from(Box::new(view.source()));
            let box_layout = layout_code(guarded(|| boxed_view.data_layout()));
            let dyn_ref: Box<dyn MatrixRef<i64>> = boxed_view.source();
            let dyn_layout = layout_code(guarded(|| MatrixView::from(dyn_ref).data_layout()));
            (sz, ps2, lay2, box_layout, dyn_layout)
        });
        match other {
            Ok((sz, ps2, lay2, box_layout, dyn_layout)) => {
                if l(vec![z(sz.0), z(sz.1)]) != size || ps2.iter().zip(ps.iter()).any(|(a, b)| a.as_ref().ok() != Some(b)) {
                    return inconsistent(1231);
                }
                let own = lay.list().and_then(|v| v.first()).and_then(|x| x.i64());
                if lay2.as_ref().ok() != Some(&lay) || Some(box_layout) != own || Some(dyn_layout) != own {
                    return inconsistent(1233);
                }
            }
            Err(_) => return inconsistent(1232),
        }
    }

    // writes, through every mutable form on a fresh copy each; form 0 is the canonical result
    let mut canonical: Option<(Vec<bool>, Sx)> = None;
    for form in 0..4 {
        let mut m = m0.clone();
        let flags = with_stack(&mut m, &lf, &ws, |view| {
            writes.iter().map(|&(r, c, x)| write_through(view, form, r, c, x)).collect::<Vec<bool>>()
        });
        let flags = match flags {
            Err(r) => return refused_sx(r),
            Ok(f) => f,
        };
        let after = dump(&m);
        match &canonical {
            None => canonical = Some((flags, after)),
            Some((f0, a0)) => {
                if *f0 != flags || *a0 != after {
                    return inconsistent(1240 + form as i64);
                }
            }
        }
        if writes.is_empty() {
            break;
        }
    }
    let (flags, after) = canonical.unwrap();
    ok(l(vec![size, l(ps), l(it), l(flags.into_iter().map(|b| z(if b { 0 } else { 2 })).collect()), after, lay, others]))
}

/// A stack over MatrixRefTensor::from(a 2-dimensional tensor view built by the C02 interpreter);
/// returns what `f` returns and the leaves' data (in term order, flattened) after the view is gone.
fn with_tensor_stack<R>(
    term: &Sx,
    wrappers: &[Wrapper],
    f: impl FnOnce(&mut MatrixView<i64, Erased>) -> R,
) -> Result<(R, Sx), Refused> {
    let mut arena = tbuild::Arena::new();
    let built = tbuild::build(term, &mut arena).map_err(Refused::Line)?;
    let tbuild::DynView::D2(tensor_view) = built else { return Err(Refused::Line(bad_case())) };
    let bottom: Erased = Erased(Box::new(MatrixRefTensor::from(tensor_view)));
    let top = wrap(bottom, wrappers)?;
    let mut view = MatrixView::from(top);
    let r = f(&mut view);
    drop(view);
    let mut flat = vec![];
    if let Some(leaves) = arena.dump().list() {
        for leaf in leaves {
            flat.extend(leaf.list().unwrap_or(&[]).iter().cloned());
        }
    }
    Ok((r, l(flat)))
}

fn tensor_view_case(args: &[Sx]) -> Sx {
    let term = &args[1];
    let mut ids = vec![];
    if !tbuild::leaf_ids(term, &mut ids) {
        return bad_case();
    }
    let mut sorted = ids.clone();
    sorted.sort();
    sorted.dedup();
    if sorted.len() != ids.len() {
        return bad_case();
    }
    let (Some(ws), Some(probes), Some(writes)) = (
        args[2].list().and_then(|v| v.iter().map(wrapper).collect::<Option<Vec<_>>>()),
        args[3].pairs_usize(),
        args[4].list().and_then(|v| {
            v.iter()
                .map(|w| {
                    let w = w.list()?;
                    if w.len() != 3 {
                        return None;
                    }
                    Some((w[0].usize()?, w[1].usize()?, w[2].i64()?))
                })
                .collect::<Option<Vec<_>>>()
        }),
    ) else {
        return bad_case();
    };
    let reads = with_tensor_stack(term, &ws, |view| -> Result<(Sx, Vec<Sx>, Vec<Sx>, Sx, Sx), i64> {
        let (rows, columns) = view.size();
        let mut ps = vec![];
        for &(r, c) in &probes {
            ps.push(probe_sx(probe(view, r, c)?));
        }
        let it = iterate(view)?;
        let lay = layouts(view)?;
        let others = other_forms(view, &probes)?;
        Ok((l(vec![z(rows), z(columns)]), ps, it, lay, others))
    });
    let (size, ps, it, lay, others) = match reads {
        Err(r) => return refused_sx(r),
        Ok((Err(code), _)) => return inconsistent(code),
        Ok((Ok(x), _)) => x,
    };
    let mut canonical: Option<(Vec<bool>, Sx)> = None;
    for form in 0..4 {
        let done = with_tensor_stack(term, &ws, |view| {
            writes.iter().map(|&(r, c, x)| write_through(view, form, r, c, x)).collect::<Vec<bool>>()
        });
        let (flags, after) = match done {
            Err(r) => return refused_sx(r),
            Ok(x) => x,
        };
        match &canonical {
            None => canonical = Some((flags, after)),
            Some((f0, a0)) => {
                if *f0 != flags || *a0 != after {
                    return inconsistent(1290 + form as i64);
                }
            }
        }
        if writes.is_empty() {
            break;
        }
    }
    let (flags, after) = canonical.unwrap();
    ok(l(vec![size, l(ps), l(it), l(flags.into_iter().map(|b| z(if b { 0 } else { 2 })).collect()), after, lay, others]))
}

fn part_listing(part: &mut MatrixView<i64, MatrixPart<i64>>) -> Result<Sx, i64> {
    let (rows, columns) = part.size();
    let mut cells = vec![];
    for r in 0..rows {
        for c in 0..columns {
            cells.push(probe_sx(probe(part, r, c)?));
        }
    }
    // nothing is readable outside the reported size
    for (r, c) in [(rows, 0), (0, columns), (rows, columns), (usize::MAX, 0), (0, usize::MAX), (rows + 1, 0), (0, columns + 1)] {
        if probe(part, r, c)? != Some(None) {
            return Err(1250);
        }
    }
    let it = iterate(part)?;
    if it != cells {
        return Err(1251);
    }
    // the mutable checked and the unchecked mutable getters of the part (direct model comparison of
    // these paths happens in the `(12 1 .. (1 rp cp k) ..)` cases; here they must agree with the listing)
    let mut k = 0;
    for r in 0..rows {
        for c in 0..columns {
            let m = guarded(|| part.try_get_reference_mut(r, c).map(|x| *x));
            let u = guarded(|| Some(unsafe { *part.get_reference_unchecked_mut(r, c) }));
            if probe_sx(m) != cells[k] || probe_sx(u) != cells[k] {
                return Err(1252);
            }
            k += 1;
        }
    }
    Ok(l(vec![l(vec![z(rows), z(columns)]), l(cells)]))
}

fn partition_case(args: &[Sx], quadrants: bool) -> Sx {
    let Some(m0) = root(&args[1..4]) else { return bad_case() };
    partition_of(m0, &args[4], &args[5], quadrants)
}

/// `(12 5 start ops rp cp)`: partition the matrix a C11 history ends with.
fn partition_after_history(args: &[Sx]) -> Sx {
    let Some(last) = history::final_matrix(&args[1], &args[2]) else { return bad_case() };
    let Some(m0) = last else { return l(vec![z(3)]) };
    let (rows, columns) = m0.size();
    let listing = partition_of(m0, &args[3], &args[4], false);
    match listing.list().and_then(|v| v.first()).and_then(|x| x.i64()) {
        Some(0) | Some(2) => l(vec![z(0), l(vec![l(vec![z(rows), z(columns)]), listing])]),
        _ => listing,
    }
}

fn partition_of(m0: Matrix<i64>, a: &Sx, b: &Sx, quadrants: bool) -> Sx {
    let mut m = m0.clone();
    let listing = if quadrants {
        let (Some(r), Some(c)) = (a.usize(), b.usize()) else { return bad_case() };
        let mref = &mut m;
        let parts = guarded(move || mref.partition_quadrants(r, c))
            .map(|q| vec![q.top_left, q.top_right, q.bottom_left, q.bottom_right]);
        // partition_quadrants(r, c) is partition(&[r], &[c])
        let mut m2 = m0.clone();
        let mref2 = &mut m2;
        let plain = guarded(move || mref2.partition(&[r], &[c]));
        match (&parts, &plain) {
            (None, None) => {}
            (Some(a), Some(b)) => {
                if a.len() != b.len() || a.iter().zip(b.iter()).any(|(x, y)| x.size() != y.size() || x != y) {
                    return inconsistent(1260);
                }
            }
            _ => return inconsistent(1261),
        }
        drop(plain);
        parts_result_wrapper(parts)
    } else {
        let (Some(rp), Some(cp)) = (a.usizes(), b.usizes()) else { return bad_case() };
        let mref = &mut m;
        let (rp2, cp2) = (rp.clone(), cp.clone());
        let parts = guarded(move || mref.partition(&rp2, &cp2));
        if let Some(p) = &parts {
            if p.len() != (rp.len() + 1) * (cp.len() + 1) {
                return inconsistent(1262);
            }
        }
        parts_result_wrapper(parts)
    };
    match listing {
        Err(code) => inconsistent(code),
        Ok(None) => panicked(),
        Ok(Some(listing)) => ok(l(vec![listing, dump(&m)])),
    }
}

fn parts_result_wrapper(parts: Option<Vec<MatrixView<i64, MatrixPart<i64>>>>) -> Result<Option<Sx>, i64> {
    let Some(mut parts) = parts else { return Ok(None) };
    let mut listing = vec![];
    for p in parts.iter_mut() {
        listing.push(part_listing(p)?);
    }
    for (k, p) in parts.iter_mut().enumerate() {
        let value = 1000 + k as i64;
        match k % 3 {
            0 => p.map_mut(|_| value),
            1 => {
                let (rows, columns) = p.size();
                for r in 0..rows {
                    for c in 0..columns {
                        p.set(r, c, value);
                    }
                }
            }
            _ => p.row_major_reference_mut_iter().for_each(|x| *x = value),
        }
    }
    Ok(Some(l(listing)))
}

// ---------------------------------------------------------------- op 7: source-mutation histories
enum MOp {
    InsertRow(usize, i64),
    InsertColumn(usize, i64),
    RemoveRow(usize),
    RemoveColumn(usize),
    TransposeMut,
    Set(usize, usize, i64),
}

fn mop(s: &Sx) -> Option<MOp> {
    let v = s.list()?;
    Some(match (v.first()?.i64()?, v.len()) {
        (0, 3) => MOp::InsertRow(v[1].usize()?, v[2].i64()?),
        (2, 3) => MOp::InsertColumn(v[1].usize()?, v[2].i64()?),
        (4, 2) => MOp::RemoveRow(v[1].usize()?),
        (5, 2) => MOp::RemoveColumn(v[1].usize()?),
        (9, 1) => MOp::TransposeMut,
        (10, 4) => MOp::Set(v[1].usize()?, v[2].usize()?, v[3].i64()?),
        _ => return None,
    })
}

/// false: the operation panicked (the matrix is left as it was)
fn apply_mop(m: &mut Matrix<i64>, o: &MOp) -> bool {
    match *o {
        MOp::InsertRow(r, v) => guarded(|| m.insert_row(r, v)).is_some(),
        MOp::InsertColumn(c, v) => guarded(|| m.insert_column(c, v)).is_some(),
        MOp::RemoveRow(r) => guarded(|| m.remove_row(r)).is_some(),
        MOp::RemoveColumn(c) => guarded(|| m.remove_column(c)).is_some(),
        MOp::TransposeMut => guarded(|| m.transpose_mut()).is_some(),
        MOp::Set(r, c, v) => guarded(|| m.set(r, c, v)).is_some(),
    }
}

fn observe_view<S: MatrixMut<i64> + NoInteriorMutability>(view: &mut MatrixView<i64, S>, probes: &[(usize, usize)]) -> Result<Sx, i64> {
    let (rows, columns) = view.size();
    let mut ps = vec![];
    for &(r, c) in probes {
        ps.push(probe_sx(probe(view, r, c)?));
    }
    let it = iterate(view)?;
    let others = other_forms(view, probes)?;
    Ok(l(vec![l(vec![z(rows), z(columns)]), l(ps), l(it), others]))
}

fn flag_sx(fine: bool) -> Sx {
    z(if fine { 0 } else { 2 })
}

fn rev_of(r: (bool, bool)) -> Reverse {
    Reverse { rows: r.0, columns: r.1 }
}

/// the whole history through one way of building the view and reaching its source
macro_rules! history_form {
    ($probes:expr, $ops:expr, $view:ident, $build:expr, |$o:ident| $mutate:expr) => {{
        (|| -> Result<Vec<Sx>, i64> {
            let mut $view = $build;
            let mut out = vec![observe_view(&mut $view, $probes)?];
            for $o in $ops.iter() {
                let fine: bool = $mutate;
                out.push(l(vec![flag_sx(fine), observe_view(&mut $view, $probes)?]));
            }
            Ok(out)
        })()
    }};
}

fn source_history_case(args: &[Sx]) -> Sx {
    let Some(m0) = root(&args[1..4]) else { return bad_case() };
    let (Some(revs), Some(ops), Some(probes)) = (
        args[4].list().and_then(|v| {
            v.iter()
                .map(|x| {
                    let p = x.list()?;
                    if p.len() != 2 {
                        return None;
                    }
                    Some((p[0].bool()?, p[1].bool()?))
                })
                .collect::<Option<Vec<_>>>()
        }),
        args[5].list().and_then(|v| v.iter().map(mop).collect::<Option<Vec<_>>>()),
        args[6].pairs_usize(),
    ) else {
        return bad_case();
    };
    let mut results: Vec<Result<Vec<Sx>, i64>> = vec![];
    match revs.len() {
        1 => {
            let r0 = revs[0];
            // the view borrows the matrix; the source is reached through the view
            let mut a = m0.clone();
            results.push(history_form!(&probes, ops, view, MatrixView::from(MatrixReverse::from(&mut a, rev_of(r0))),
                |o| apply_mop(view.source_ref_mut().source_ref_mut(), o)));
            // the view owns the matrix
            results.push(history_form!(&probes, ops, view, MatrixView::from(MatrixReverse::from(m0.clone(), rev_of(r0))),
                |o| apply_mop(view.source_ref_mut().source_ref_mut(), o)));
            // the shorthands Matrix::reverse_mut / reverse_owned
            let mut b = m0.clone();
            results.push(history_form!(&probes, ops, view, b.reverse_mut(rev_of(r0)),
                |o| apply_mop(view.source_ref_mut().source_ref_mut(), o)));
            results.push(history_form!(&probes, ops, view, m0.clone().reverse_owned(rev_of(r0)),
                |o| apply_mop(view.source_ref_mut().source_ref_mut(), o)));
            // taking the view apart with source() and re-wrapping the SAME MatrixReverse object
            results.push((|| -> Result<Vec<Sx>, i64> {
                let mut view = MatrixView::from(MatrixReverse::from(m0.clone(), rev_of(r0)));
                let mut out = vec![observe_view(&mut view, &probes)?];
                for o in ops.iter() {
                    let mut reverse = view.source();
                    let fine = apply_mop(reverse.source_ref_mut(), o);
                    view = MatrixView::from(reverse);
                    out.push(l(vec![flag_sx(fine), observe_view(&mut view, &probes)?]));
                }
                Ok(out)
            })());
        }
        2 => {
            let (r0, r1) = (revs[0], revs[1]);
            let mut a = m0.clone();
            results.push(history_form!(&probes, ops, view,
                MatrixView::from(MatrixReverse::from(MatrixReverse::from(&mut a, rev_of(r0)), rev_of(r1))),
                |o| apply_mop(view.source_ref_mut().source_ref_mut().source_ref_mut(), o)));
            results.push(history_form!(&probes, ops, view,
                MatrixView::from(MatrixReverse::from(MatrixReverse::from(m0.clone(), rev_of(r0)), rev_of(r1))),
                |o| apply_mop(view.source_ref_mut().source_ref_mut().source_ref_mut(), o)));
        }
        3 => {
            let (r0, r1, r2) = (revs[0], revs[1], revs[2]);
            results.push(history_form!(&probes, ops, view,
                MatrixView::from(MatrixReverse::from(
                    MatrixReverse::from(MatrixReverse::from(m0.clone(), rev_of(r0)), rev_of(r1)),
                    rev_of(r2)
                )),
                |o| apply_mop(view.source_ref_mut().source_ref_mut().source_ref_mut().source_ref_mut(), o)));
        }
        _ => return bad_case(),
    }
    let mut canonical: Option<Vec<Sx>> = None;
    for (i, r) in results.into_iter().enumerate() {
        match r {
            Err(code) => return inconsistent(code),
            Ok(obs) => match &canonical {
                None => canonical = Some(obs),
                Some(c) => {
                    if *c != obs {
                        return inconsistent(1295 + i as i64);
                    }
                }
            },
        }
    }
    l(canonical.unwrap())
}

pub fn run(args: &[Sx]) -> Sx {
    match args.first().and_then(|x| x.i64()) {
        Some(1) if args.len() == 8 => view_case(args),
        Some(2) if args.len() == 6 => partition_case(args, false),
        Some(3) if args.len() == 6 => partition_case(args, true),
        Some(5) if args.len() == 5 => partition_after_history(args),
        Some(6) if args.len() == 5 => tensor_view_case(args),
        Some(7) if args.len() == 7 => source_history_case(args),
        _ => bad_case(),
    }
}
