//! C15: scripts over several WengertLists (see coq/theories/Run/RunC15.v for the case language).
//!   (15 ty ntapes (op ...))
//! Observed per step: Record::index / number / which list, every container element's value and
//! index (through view(), cross-checked with iter_as_records), derivative vectors (length and
//! values; for containers derivatives_for(element) is cross-checked with the whole-container
//! derivatives() and with derivatives_for of every other element), panics; every scalar addition
//! is cross-checked (on scratch lists) with the `Sum` entry point for the same two operands;
//! op 12 runs `impl Sum for Record` on the script's own lists (model: TapeMachine.TSum).
#[path = "c06/recops.rs"]
mod recops;

use crate::guarded;
use crate::num::{dec_list, enc_list, Enc};
use crate::sx::*;
use crate::with_ty;
use easy_ml::differentiation::{Primitive, Record, RecordMatrix, RecordTensor, WengertList};
use easy_ml::matrices::Matrix;
use easy_ml::numeric::extra::{Real, RealRef};
use easy_ml::tensors::Tensor;
use recops::*;

enum Obj<'a, T: Primitive> {
    Rec(Record<'a, T>),
    Ten(Ten<'a, T, 2>),
    Mat(Mat<'a, T>),
    Dead,
}

pub fn run(args: &[Sx]) -> Sx {
    if args.len() != 3 {
        return bad_case();
    }
    let (Some(ty), Some(n), Some(script)) = (args[0].i64(), args[1].usize(), args[2].list()) else {
        return bad_case();
    };
    if n > 8 {
        return bad_case();
    }
    with_ty!(ty, go(n, script))
}

fn hist_id<T: Primitive>(lists: &[WengertList<T>], h: Option<&WengertList<T>>) -> Sx {
    match h {
        None => nil(),
        Some(h) => match lists.iter().position(|l| std::ptr::eq(l, h)) {
            Some(i) => l(vec![z(i)]),
            None => l(vec![z(-1)]),
        },
    }
}

fn shape2(s: &Sx) -> Option<[(usize, usize); 2]> {
    let p = s.pairs_usize()?;
    if p.len() != 2 {
        return None;
    }
    Some([p[0], p[1]])
}

fn shape_valid(sh: &[(usize, usize); 2], len: usize) -> bool {
    sh[0].0 != sh[1].0 && sh[0].1 != 0 && sh[1].1 != 0 && sh[0].1 * sh[1].1 == len
}

fn enc_rec<'a, T: Real + Primitive + Enc + Clone>(lists: &[WengertList<T>], r: &Record<'a, T>) -> Sx {
    l(vec![z(0), r.number.enc(), hist_id(lists, r.history()), z(r.index)])
}

fn enc_ten<'a, T: Real + Primitive + Enc + Clone>(lists: &[WengertList<T>], c: &Ten<'a, T, 2>) -> Sx {
    let sh = c.shape();
    let a = enc_pairs(c.view().iter());
    let b = enc_pairs(c.iter_as_records().map(|r| (r.number, r.index)));
    if a != b || c.iter_as_records().any(|r| !same_opt(r.history(), c.history())) {
        return inconsistent(151);
    }
    l(vec![z(1), shape_sx(&sh), hist_id(lists, c.history()), a])
}

fn same_opt<T>(a: Option<&WengertList<T>>, b: Option<&WengertList<T>>) -> bool {
    match (a, b) {
        (None, None) => true,
        (Some(x), Some(y)) => std::ptr::eq(x, y),
        _ => false,
    }
}

fn enc_mat<'a, T: Real + Primitive + Enc + Clone>(lists: &[WengertList<T>], c: &Mat<'a, T>) -> Sx {
    let a = enc_pairs(c.view().row_major_iter());
    let b = enc_pairs(c.iter_row_major_as_records().map(|r| (r.number, r.index)));
    if a != b || c.iter_row_major_as_records().any(|r| !same_opt(r.history(), c.history())) {
        return inconsistent(152);
    }
    l(vec![
        z(1),
        l(vec![l(vec![z(0), z(c.rows())]), l(vec![z(1), z(c.columns())])]),
        hist_id(lists, c.history()),
        a,
    ])
}

fn enc_obj<'a, T: Real + Primitive + Enc + Clone>(lists: &[WengertList<T>], o: &Obj<'a, T>) -> Sx {
    match o {
        Obj::Rec(r) => enc_rec(lists, r),
        Obj::Ten(c) => enc_ten(lists, c),
        Obj::Mat(c) => enc_mat(lists, c),
        Obj::Dead => nil(),
    }
}

/// Whole-container `derivatives()` (`all`) against `derivatives_for` of every element (`each`,
/// row-major) and against the one requested element (`one`): constants containers give None
/// everywhere; otherwise derivatives() panics exactly when some element's derivatives_for
/// panics (a stale element after clear()), else it holds, per element, the same vector, and
/// every vector has the same length (one entry per entry of the shared WengertList).
fn whole_check<T: PartialEq>(
    has_history: bool,
    elem: usize,
    one: &Option<Option<Vec<T>>>,
    each: &[Option<Option<Vec<T>>>],
    all: &Option<Option<Vec<Vec<T>>>>,
) -> bool {
    if elem < each.len() && &each[elem] != one {
        return false;
    }
    if elem >= each.len() && !matches!(one, Some(None)) {
        return false;
    }
    if !has_history {
        return matches!(all, Some(None)) && each.iter().all(|e| matches!(e, Some(None)));
    }
    if each.iter().any(|e| e.is_none()) {
        return all.is_none();
    }
    match all {
        Some(Some(v)) => {
            v.len() == each.len()
                && v.iter().zip(each).all(|(a, e)| matches!(e, Some(Some(d)) if d == a))
                && v.windows(2).all(|w| w[0].len() == w[1].len())
        }
        _ => false,
    }
}

/// `iter.sum::<Record<T>>()` is documented as "the same as adding a bunch of Record types
/// together".  Checked on scratch copies of the two operands of every scalar addition (same
/// numbers; constants stay constants; two scratch lists exactly when the operands live on two
/// different lists), so that the script's own lists are not touched: `x + y` and
/// `[x, y].into_iter().sum()` must both panic (operands of two lists) or both give the same
/// number on the same list with the same derivatives with respect to x and y.
/// (Kept as a harness cross-check on scratch lists; since wave 3 the Sum entry point is also an
/// operation of the case language - op 12 - compared with the model's TSum.)
fn sum_agrees<T>(x: &Record<T>, y: &Record<T>) -> Result<(), i64>
where
    T: Real + Primitive + Clone + PartialEq + 'static,
    for<'t> &'t T: RealRef<T>,
{
    let s1 = WengertList::new();
    let s2 = WengertList::new();
    let same = match (x.history(), y.history()) {
        (Some(a), Some(b)) => std::ptr::eq(a, b),
        _ => true,
    };
    let u = match x.history() {
        Some(_) => Record::variable(x.number.clone(), &s1),
        None => Record::constant(x.number.clone()),
    };
    let w = match y.history() {
        Some(_) => Record::variable(y.number.clone(), if same { &s1 } else { &s2 }),
        None => Record::constant(y.number.clone()),
    };
    let plus = guarded(|| u.clone() + w.clone());
    // the two operands are handed to `Sum` through iterator SHAPES (crate::shapes): the exact-size
    // vec::IntoIter first, then lower-bound-0 / custom-hint / not-fused / lying-hint iterators over
    // the same two records (a sample of the shapes per call, all of them for every 7th key);
    // summation has no reason to consult the hint, so the lying shapes are compared too
    let key = (x.index as u64) * 5 + (y.index as u64) * 3 + x.history().is_some() as u64 * 2 + y.history().is_some() as u64;
    let mut shapes_run = vec![0u8];
    shapes_run.extend(crate::shapes::plan(key, &crate::shapes::LYING));
    // Err(code): 156 for the exact-size shape, 15600 + shape otherwise
    let agrees = |shape: u8| -> bool {
        let sum = guarded(|| crate::shapes::sum_shaped::<Record<T>>(shape, vec![u.clone(), w.clone()]));
        match (&plus, sum) {
            (None, None) => true,
            (Some(p), Some(q)) => {
                if p.number != q.number || !same_opt(p.history(), q.history()) {
                    return false;
                }
                let dp = guarded(|| p.try_derivatives().map(Vec::from));
                let dq = guarded(|| q.try_derivatives().map(Vec::from));
                match (dp, dq) {
                    (Some(None), Some(None)) => true,
                    (Some(Some(a)), Some(Some(b))) => {
                        [&u, &w].iter().all(|r| r.history().is_none() || a.get(r.index) == b.get(r.index))
                    }
                    _ => false,
                }
            }
            _ => false,
        }
    };
    let bad = shapes_run.into_iter().find(|&shape| !agrees(shape));
    match bad {
        None => Ok(()),
        Some(0) => Err(156),
        Some(shape) => Err(15600 + shape as i64),
    }
}

fn skipped() -> Sx {
    err(z(9))
}

fn put<'a, T: Primitive>(regs: &mut Vec<Obj<'a, T>>, dst: usize, o: Obj<'a, T>) {
    while regs.len() <= dst {
        regs.push(Obj::Dead);
    }
    regs[dst] = o;
}

fn go<T: Real + Primitive + Enc + Clone + PartialEq + 'static>(ntapes: usize, script: &[Sx]) -> Sx
where
    for<'t> &'t T: RealRef<T>,
{
    let extra = script.iter().filter(|o| matches!(o.list(), Some(v) if v.len() == 1)).count();
    let lists: Vec<WengertList<T>> = (0..ntapes + extra).map(|_| WengertList::new()).collect();
    let mut live = ntapes;
    let mut regs: Vec<Obj<T>> = Vec::new();
    let mut out: Vec<Sx> = Vec::new();
    for op in script {
        match step::<T>(&lists, &mut live, &mut regs, op) {
            Some(r) => out.push(r),
            None => return bad_case(),
        }
    }
    l(out)
}

fn finish<'a, T: Real + Primitive + Enc + Clone>(
    lists: &'a [WengertList<T>],
    regs: &mut Vec<Obj<'a, T>>,
    dst: usize,
    r: Option<Obj<'a, T>>,
) -> Sx {
    match r {
        None => panicked(),
        Some(o) => {
            let e = enc_obj(lists, &o);
            put(regs, dst, o);
            ok(e)
        }
    }
}

fn reset_obj<'a, T: Real + Primitive + Enc + Clone>(o: &mut Obj<'a, T>, idx: &mut Vec<Sx>, by_value: bool)
where
    for<'t> &'t T: RealRef<T>,
{
    match o {
        Obj::Rec(r) => {
            if r.history().is_some() {
                if by_value {
                    *r = Record::do_reset(r.clone());
                } else {
                    r.reset();
                }
                idx.push(z(r.index));
            }
        }
        Obj::Ten(c) => {
            if c.history().is_some() {
                if by_value {
                    *c = RecordTensor::do_reset(c.clone());
                } else {
                    c.reset();
                }
                idx.extend(c.view().iter().map(|(_, i)| z(i)));
            }
        }
        Obj::Mat(c) => {
            if c.history().is_some() {
                if by_value {
                    *c = RecordMatrix::do_reset(c.clone());
                } else {
                    c.reset();
                }
                idx.extend(c.view().row_major_iter().map(|(_, i)| z(i)));
            }
        }
        Obj::Dead => {}
    }
}

fn step<'a, T: Real + Primitive + Enc + Clone + PartialEq + 'static>(
    lists: &'a [WengertList<T>],
    live: &mut usize,
    regs: &mut Vec<Obj<'a, T>>,
    op: &Sx,
) -> Option<Sx>
where
    for<'t> &'t T: RealRef<T>,
{
    let v = op.list()?;
    let code = v.first()?.i64()?;
    let dead = Obj::Dead;
    Some(match (code, v.len()) {
        (0, 1) => {
            *live += 1;
            ok(nil())
        }
        (1, 4) => {
            let (dst, t, x) = (v[1].usize()?, v[2].usize()?, T::dec(&v[3])?);
            if t >= *live {
                return None;
            }
            // both constructors
            let r = if dst % 2 == 0 { Record::variable(x, &lists[t]) } else { lists[t].variable(x) };
            finish(lists, regs, dst, Some(Obj::Rec(r)))
        }
        (2, 3) => {
            let (dst, x) = (v[1].usize()?, T::dec(&v[2])?);
            finish(lists, regs, dst, Some(Obj::Rec(Record::constant(x))))
        }
        (3, 6) | (4, 5) => {
            let var = code == 3;
            let k = if var { 1 } else { 0 };
            let dst = v[1].usize()?;
            let t = if var { v[2].usize()? } else { 0 };
            let (tensor, sh, data) = (v[2 + k].bool()?, shape2(&v[3 + k])?, dec_list::<T>(&v[4 + k])?);
            if (var && t >= *live) || !shape_valid(&sh, data.len()) || (!tensor && (sh[0].0 != 0 || sh[1].0 != 1)) {
                return None;
            }
            let o = if tensor {
                let src = Tensor::from(shape_arr::<2>(&sh), data);
                Obj::Ten(if var { RecordTensor::variables(&lists[t], src) } else { RecordTensor::constants(src) })
            } else {
                let src = Matrix::from_flat_row_major((sh[0].1, sh[1].1), data);
                Obj::Mat(if var { RecordMatrix::variables(&lists[t], src) } else { RecordMatrix::constants(src) })
            };
            finish(lists, regs, dst, Some(o))
        }
        (5, 7) => {
            let (dst, assign, ucode, c, a, form) =
                (v[1].usize()?, v[2].bool()?, v[3].i64()?, T::dec(&v[4])?, v[5].usize()?, v[6].usize()?);
            let r = match regs.get(a).unwrap_or(&dead) {
                Obj::Rec(x) => rec_un::<T>(ucode, &c, x, form)?.map(Obj::Rec),
                Obj::Ten(x) => ten_un::<T, _, 2>(assign, ucode, &c, x, form)?.map(Obj::Ten),
                Obj::Mat(x) => mat_un::<T, _>(assign, ucode, &c, x, form)?.map(Obj::Mat),
                Obj::Dead => return Some(skipped()),
            };
            finish(lists, regs, dst, r)
        }
        (6, 7) => {
            let (dst, mode, bcode, a, b, form) =
                (v[1].usize()?, v[2].i64()?, v[3].i64()?, v[4].usize()?, v[5].usize()?, v[6].usize()?);
            let r = match (regs.get(a).unwrap_or(&dead), regs.get(b).unwrap_or(&dead)) {
                (Obj::Rec(x), Obj::Rec(y)) => {
                    if bcode == 0 {
                        if let Err(code) = sum_agrees::<T>(x, y) {
                            return Some(inconsistent(code));
                        }
                    }
                    rec_bin::<T>(bcode, x, y, form)?.map(Obj::Rec)
                }
                (Obj::Ten(x), Obj::Ten(y)) => ten_bin::<T, _, _, 2>(mode, bcode, x, y, form)?.map(Obj::Ten),
                (Obj::Mat(x), Obj::Mat(y)) => mat_bin::<T, _, _>(mode, bcode, x, y, form)?.map(Obj::Mat),
                _ => return Some(skipped()),
            };
            finish(lists, regs, dst, r)
        }
        (7, 5) => {
            let (dst, a, b, form) = (v[1].usize()?, v[2].usize()?, v[3].usize()?, v[4].usize()?);
            let r = match (regs.get(a).unwrap_or(&dead), regs.get(b).unwrap_or(&dead)) {
                (Obj::Ten(x), Obj::Ten(y)) => ten_matmul::<T, _, _>(x, y, form).map(Obj::Ten),
                (Obj::Mat(x), Obj::Mat(y)) => mat_matmul::<T, _, _>(x, y, form).map(Obj::Mat),
                _ => return Some(skipped()),
            };
            finish(lists, regs, dst, r)
        }
        (8, 3) => {
            let (a, elem) = (v[1].usize()?, v[2].usize()?);
            let r: Option<Option<Vec<T>>> = match regs.get(a).unwrap_or(&dead) {
                Obj::Rec(x) => {
                    let d1 = guarded(|| x.try_derivatives().map(Vec::from));
                    // derivatives() must agree wherever try_derivatives gives Some
                    if let Some(Some(d)) = &d1 {
                        if guarded(|| Vec::from(x.derivatives())).as_ref() != Some(d) {
                            return Some(inconsistent(153));
                        }
                    }
                    d1
                }
                Obj::Ten(x) => {
                    let sh = x.shape();
                    let cols = sh[1].1;
                    let idx = [elem / cols, elem % cols];
                    let one = guarded(|| x.derivatives_for(idx).map(Vec::from));
                    // the whole-container derivatives() against derivatives_for of EVERY element
                    let each: Vec<_> = (0..sh[0].1 * cols)
                        .map(|e| guarded(|| x.derivatives_for([e / cols, e % cols]).map(Vec::from)))
                        .collect();
                    let all = guarded(|| x.derivatives().map(|t| t.iter().map(Vec::from).collect::<Vec<Vec<T>>>()));
                    if !whole_check(x.history().is_some(), elem, &one, &each, &all) {
                        return Some(inconsistent(154));
                    }
                    one
                }
                Obj::Mat(x) => {
                    let cols = x.columns();
                    let one = guarded(|| x.derivatives_for(elem / cols, elem % cols).map(Vec::from));
                    let each: Vec<_> = (0..x.rows() * cols)
                        .map(|e| guarded(|| x.derivatives_for(e / cols, e % cols).map(Vec::from)))
                        .collect();
                    let all =
                        guarded(|| x.derivatives().map(|m| m.row_major_iter().map(Vec::from).collect::<Vec<Vec<T>>>()));
                    if !whole_check(x.history().is_some(), elem, &one, &each, &all) {
                        return Some(inconsistent(155));
                    }
                    one
                }
                Obj::Dead => return Some(skipped()),
            };
            match r {
                None => panicked(),
                Some(d) => ok(l(vec![z(2), opt(d.map(|d| enc_list(&d)))])),
            }
        }
        (9, 2) => {
            let t = v[1].usize()?;
            if t >= *live {
                return None;
            }
            lists[t].clear();
            ok(nil())
        }
        (10, 2) => {
            let a = v[1].usize()?;
            let mut idx = vec![];
            match regs.get_mut(a) {
                None | Some(Obj::Dead) => return Some(skipped()),
                Some(o) => reset_obj::<T>(o, &mut idx, a % 2 == 1),
            }
            ok(l(vec![z(3), l(idx)]))
        }
        (11, 2) => {
            let t = v[1].usize()?;
            if t >= *live {
                return None;
            }
            let mut idx = vec![];
            for (k, o) in regs.iter_mut().enumerate() {
                let h = match o {
                    Obj::Rec(r) => r.history(),
                    Obj::Ten(c) => c.history(),
                    Obj::Mat(c) => c.history(),
                    Obj::Dead => None,
                };
                if let Some(h) = h {
                    if std::ptr::eq(h, &lists[t]) {
                        reset_obj::<T>(o, &mut idx, k % 2 == 1);
                    }
                }
            }
            ok(l(vec![z(3), l(idx)]))
        }
        (12, 4) => {
            // `impl Sum for Record` as a machine operation: the records of the named registers are
            // handed to iter.sum::<Record<T>>() through iterator shape `shape` (crate::shapes), on
            // the script's OWN lists: a sum over records of two lists panics after it has appended
            // the partial sums of the records before the foreign one, and those entries stay
            // (nothing is undone here); the destination register is written on success only
            let (dst, rs, shape) = (v[1].usize()?, v[2].list()?, v[3].usize()?);
            if shape >= crate::shapes::SHAPES as usize {
                return None;
            }
            let rs: Vec<usize> = rs.iter().map(|r| r.usize()).collect::<Option<_>>()?;
            let mut items: Vec<Record<'a, T>> = Vec::with_capacity(rs.len());
            for r in rs {
                match regs.get(r).unwrap_or(&dead) {
                    Obj::Rec(x) => items.push(x.clone()),
                    _ => return Some(skipped()),
                }
            }
            let r = guarded(|| crate::shapes::sum_shaped::<Record<'a, T>>(shape as u8, items));
            finish(lists, regs, dst, r.map(Obj::Rec))
        }
        _ => return None,
    })
}
