//! C11: matrix resizing histories on a real `Matrix<E>`; the same object keeps being used after
//! a caught panic.  Case language: see coq/theories/Run/RunC11.v.
//!   (11 1 start (op ...))  ->  (2) | (0 (obs (o obs) ...))
//!   (11 2 S S (i ...))     ->  accepts probes, enum-built against method-built
//!   (11 3 r c S S (i ...)) ->  the slice-algebra tier: accepts of the enum-built and of the method-built
//!                              expression printed SEPARATELY, Slice2D::accepts over the whole grid for both
//!                              builder orders, and the four retention forms on a from_fn start
//! Every history is run for two element types — `i64` and a heap allocated, non-Copy `Heap` —
//! and both must produce the same line.
use crate::guarded;
use crate::sx::*;
use easy_ml::matrices::slices::{self, Slice, Slice2D};
use easy_ml::matrices::views::{MatrixMut, MatrixRef, MatrixView};
use easy_ml::matrices::Matrix;

/// The element types the histories are run with.
trait Elem: Clone + PartialEq + std::fmt::Debug + 'static {
    fn of(x: i64) -> Self;
    fn val(&self) -> i64;
}
impl Elem for i64 {
    fn of(x: i64) -> Self {
        x
    }
    fn val(&self) -> i64 {
        *self
    }
}
/// Owns heap memory and is not Copy: every duplication goes through Clone.
#[derive(Clone, PartialEq)]
struct Heap(Box<i64>);
impl std::fmt::Debug for Heap {
    fn fmt(&self, f: &mut std::fmt::Formatter<'_>) -> std::fmt::Result {
        write!(f, "{}", self.0)
    }
}
impl Elem for Heap {
    fn of(x: i64) -> Self {
        Heap(Box::new(x))
    }
    fn val(&self) -> i64 {
        *self.0
    }
}
fn elems<E: Elem>(v: Vec<i64>) -> Vec<E> {
    v.into_iter().map(E::of).collect()
}

fn slice(s: &Sx) -> Option<Slice> {
    let v = s.list()?;
    let tag = v.first()?.i64()?;
    Some(match (tag, v.len()) {
        (0, 1) => Slice::All(),
        (1, 1) => Slice::None(),
        (2, 2) => Slice::Single(v[1].usize()?),
        (3, 3) => Slice::Range(v[1].usize()?..v[2].usize()?),
        (4, 2) => Slice::Not(Box::new(slice(&v[1])?)),
        (5, 3) => Slice::And(Box::new(slice(&v[1])?), Box::new(slice(&v[2])?)),
        (6, 3) => Slice::Or(Box::new(slice(&v[1])?), Box::new(slice(&v[2])?)),
        _ => return None,
    })
}

/// The same slice expression built with the combinator methods `not` / `and` / `or`.
fn slice_by_methods(s: &Sx) -> Option<Slice> {
    let v = s.list()?;
    let tag = v.first()?.i64()?;
    Some(match (tag, v.len()) {
        (4, 2) => slice_by_methods(&v[1])?.not(),
        (5, 3) => slice_by_methods(&v[1])?.and(slice_by_methods(&v[2])?),
        (6, 3) => slice_by_methods(&v[1])?.or(slice_by_methods(&v[2])?),
        _ => return slice(s),
    })
}

enum Op {
    InsertRow(usize, i64),
    InsertRowWith(usize, Vec<i64>),
    InsertColumn(usize, i64),
    InsertColumnWith(usize, Vec<i64>),
    RemoveRow(usize),
    RemoveColumn(usize),
    RetainMut(Sx, Sx),
    Retain(Sx, Sx),
    Transpose,
    TransposeMut,
    Set(usize, usize, i64),
    MapMut(i64),
    MapMutWithIndex(i64),
    PartitionFill(Vec<usize>, Vec<usize>, usize, i64),
}

fn op(s: &Sx) -> Option<Op> {
    let v = s.list()?;
    let tag = v.first()?.i64()?;
    Some(match (tag, v.len()) {
        (0, 3) => Op::InsertRow(v[1].usize()?, v[2].i64()?),
        (1, 3) => Op::InsertRowWith(v[1].usize()?, v[2].i64s()?),
        (2, 3) => Op::InsertColumn(v[1].usize()?, v[2].i64()?),
        (3, 3) => Op::InsertColumnWith(v[1].usize()?, v[2].i64s()?),
        (4, 2) => Op::RemoveRow(v[1].usize()?),
        (5, 2) => Op::RemoveColumn(v[1].usize()?),
        (6, 3) => {
            slice(&v[1])?;
            slice(&v[2])?;
            Op::RetainMut(v[1].clone(), v[2].clone())
        }
        (7, 3) => {
            slice(&v[1])?;
            slice(&v[2])?;
            Op::Retain(v[1].clone(), v[2].clone())
        }
        (8, 1) => Op::Transpose,
        (9, 1) => Op::TransposeMut,
        (10, 4) => Op::Set(v[1].usize()?, v[2].usize()?, v[3].i64()?),
        (11, 2) => Op::MapMut(v[1].i64()?),
        (12, 2) => Op::MapMutWithIndex(v[1].i64()?),
        (13, 5) => Op::PartitionFill(v[1].usizes()?, v[2].usizes()?, v[3].usize()?, v[4].i64()?),
        _ => return None,
    })
}

fn slice2d(r: &Sx, c: &Sx) -> Slice2D {
    Slice2D::new().rows(slice(r).unwrap()).columns(slice(c).unwrap())
}
/// columns first, through the free function `slices::new()`, the slices built by the methods
fn slice2d_other_order(r: &Sx, c: &Sx) -> Slice2D {
    slices::new().columns(slice_by_methods(c).unwrap()).rows(slice_by_methods(r).unwrap())
}

fn start<E: Elem>(s: &Sx) -> Option<Option<Matrix<E>>> {
    let v = s.list()?;
    let tag = v.first()?.i64()?;
    Some(match (tag, v.len()) {
        (0, 2) => {
            let rows: Vec<Vec<i64>> = v[1].list()?.iter().map(|r| r.i64s()).collect::<Option<_>>()?;
            let rows: Vec<Vec<E>> = rows.into_iter().map(elems).collect();
            guarded(move || Matrix::from(rows))
        }
        (1, 4) => {
            let (r, c, vals) = (v[1].usize()?, v[2].usize()?, v[3].i64s()?);
            guarded(move || Matrix::from_flat_row_major((r, c), elems::<E>(vals)))
        }
        (2, 2) => {
            let x = v[1].i64()?;
            // the deprecated alias must build the same matrix
            #[allow(deprecated)]
            let alias = Matrix::unit(E::of(x));
            if alias != Matrix::from_scalar(E::of(x)) {
                return None;
            }
            Some(Matrix::from_scalar(E::of(x)))
        }
        (3, 2) => {
            let vals = v[1].i64s()?;
            guarded(move || Matrix::row(elems::<E>(vals)))
        }
        (4, 2) => {
            let vals = v[1].i64s()?;
            guarded(move || Matrix::column(elems::<E>(vals)))
        }
        (5, 3) => {
            let (r, c) = (v[1].usize()?, v[2].usize()?);
            if r > 64 || c > 64 {
                return None;
            }
            guarded(move || Matrix::from_fn((r, c), |(i, j)| E::of(100 + 10 * i as i64 + j as i64)))
        }
        (6, 4) => {
            let (r, c, x) = (v[1].usize()?, v[2].usize()?, v[3].i64()?);
            if r > 64 || c > 64 {
                return None;
            }
            guarded(move || Matrix::empty(E::of(x), (r, c)))
        }
        _ => return None,
    })
}

/// The stored data as printed by the derived Debug impl:
/// `Matrix { data: [a, b, ...], rows: r, columns: c }` -> (data, rows, columns)
fn parse_debug(text: &str) -> Option<(Vec<i64>, usize, usize)> {
    let open = text.find("data: [")? + "data: [".len();
    let close = open + text[open..].find(']')?;
    let inner = text[open..close].trim();
    let data: Vec<i64> = if inner.is_empty() {
        vec![]
    } else {
        inner.split(',').map(|x| x.trim().parse::<i64>().ok()).collect::<Option<_>>()?
    };
    let rest = &text[close..];
    let rows_at = rest.find("rows: ")? + "rows: ".len();
    let rows_end = rows_at + rest[rows_at..].find(|ch: char| !ch.is_ascii_digit())?;
    let cols_at = rest.find("columns: ")? + "columns: ".len();
    let cols_end = cols_at + rest[cols_at..].find(|ch: char| !ch.is_ascii_digit())?;
    Some((data, rest[rows_at..rows_end].parse().ok()?, rest[cols_at..cols_end].parse().ok()?))
}

fn cell(v: Option<i64>) -> Sx {
    opt(v.map(z))
}

/// Everything a client can see; the access forms that must agree are cross-checked here.
fn observe<E: Elem>(m: &Matrix<E>) -> Sx {
    let (rows, columns) = m.size();
    if m.rows() != rows || m.columns() != columns || m.view_rows() != rows || m.view_columns() != columns {
        return inconsistent(1101);
    }
    if rows > 4096 || columns > 4096 {
        return inconsistent(1102);
    }
    let mut elements = vec![];
    for r in 0..rows {
        for c in 0..columns {
            let g = guarded(|| m.get(r, c).val());
            if guarded(|| m.get_reference(r, c).val()) != g {
                return inconsistent(1103);
            }
            // the checked accessor must agree with the panicking ones (absent <-> panic)
            match guarded(|| m.try_get_reference(r, c).map(|x| x.val())) {
                Some(t) if t == g => {}
                _ => return inconsistent(1104),
            }
            elements.push(cell(g));
        }
    }
    // one past the end on each axis is never readable
    if m.try_get_reference(rows, 0).is_some() || m.try_get_reference(0, columns).is_some() {
        return inconsistent(1105);
    }
    if guarded(|| m.get(rows, 0)).is_some() || guarded(|| m.get(0, columns)).is_some() {
        return inconsistent(1106);
    }
    let row_major: Option<Vec<i64>> = guarded(|| m.row_major_iter().map(|x| x.val()).collect());
    let row_major_ref: Option<Vec<i64>> = guarded(|| m.row_major_reference_iter().map(|x| x.val()).collect());
    if row_major != row_major_ref {
        return inconsistent(1107);
    }
    let column_major: Option<Vec<i64>> = guarded(|| m.column_major_iter().map(|x| x.val()).collect());
    let column_major_ref: Option<Vec<i64>> = guarded(|| m.column_major_reference_iter().map(|x| x.val()).collect());
    if column_major != column_major_ref {
        return inconsistent(1108);
    }
    let (Some(row_major), Some(column_major)) = (row_major, column_major) else {
        return inconsistent(1109);
    };
    let Some((data, drows, dcolumns)) = parse_debug(&format!("{:?}", m)) else {
        return inconsistent(1110);
    };
    if drows != rows || dcolumns != columns {
        return inconsistent(1111);
    }
    l(vec![
        l(vec![z(rows), z(columns)]),
        l(elements),
        l(row_major.into_iter().map(|x| cell(Some(x))).collect()),
        l(column_major.into_iter().map(|x| cell(Some(x))).collect()),
        l(data.into_iter().map(z).collect()),
    ])
}

/// `(11 2 S S (i ...))`: Slice::accepts / Slice2D::accepts, for the enum-built and the
/// method-built expression and both builder orders.
fn accepts_case(args: &[Sx]) -> Sx {
    if args.len() != 4 {
        return bad_case();
    }
    let (Some(a), Some(b), Some(probes)) = (slice(&args[1]), slice(&args[2]), args[3].usizes()) else {
        return bad_case();
    };
    let (Some(a2), Some(b2)) = (slice_by_methods(&args[1]), slice_by_methods(&args[2])) else { return bad_case() };
    let both = slice2d(&args[1], &args[2]);
    let both2 = slice2d_other_order(&args[1], &args[2]);
    let (mut ra, mut rb, mut rab) = (vec![], vec![], vec![]);
    for (n, &i) in probes.iter().enumerate() {
        let next = probes[(n + 1) % probes.len()];
        if a.accepts(i) != a2.accepts(i) || b.accepts(i) != b2.accepts(i) {
            return inconsistent(1122);
        }
        if both.accepts(i, next) != both2.accepts(i, next) || both.accepts(i, next) != (a.accepts(i) && b.accepts(next)) {
            return inconsistent(1123);
        }
        ra.push(boolean(a.accepts(i)));
        rb.push(boolean(b.accepts(i)));
        rab.push(boolean(both.accepts(i, next)));
    }
    l(vec![l(ra), l(rb), l(rab)])
}

/// `(11 3 r c S S (i ...))`: every component is printed on its own and compared with the model (no
/// cross-check between the enum-built and the method-built expression here: a builder method that
/// changes what its result accepts shows up as a model-vs-implementation disagreement in ITS component).
fn algebra_case(args: &[Sx]) -> Sx {
    if args.len() != 6 {
        return bad_case();
    }
    let (Some(r), Some(c), Some(extra)) = (args[1].usize(), args[2].usize(), args[5].usizes()) else {
        return bad_case();
    };
    if !(1..=8).contains(&r) || !(1..=8).contains(&c) {
        return bad_case();
    }
    let (sa, sb) = (&args[3], &args[4]);
    if slice(sa).is_none() || slice(sb).is_none() {
        return bad_case();
    }
    let bools = |s: &Slice, n: usize| -> Sx {
        l((0..n + 2).chain(extra.iter().copied()).map(|i| boolean(s.accepts(i))).collect())
    };
    let grid = |s: &Slice2D| -> Sx {
        let mut out = vec![];
        for i in 0..r + 2 {
            for j in 0..c + 2 {
                out.push(boolean(s.accepts(i, j)));
            }
        }
        l(out)
    };
    let by_enum = |x: &Sx| slice(x).unwrap();
    let by_methods = |x: &Sx| slice_by_methods(x).unwrap();
    fn start(r: usize, c: usize) -> Matrix<i64> {
        Matrix::from_fn((r, c), |(i, j)| 100 + 10 * i as i64 + j as i64)
    }
    let retain_mut_with = |s: Slice2D| -> Sx {
        let mut m = start(r, c);
        let fine = guarded(|| m.retain_mut(s)).is_some();
        l(vec![z(if fine { 0 } else { 2 }), observe(&m)])
    };
    let retain_with = |s: Slice2D| -> Sx {
        let m = start(r, c);
        match guarded(|| m.retain(s)) {
            Some(t) => l(vec![z(0), observe(&t)]),
            None => l(vec![z(2), observe(&m)]),
        }
    };
    // the heap allocated element type must see the same retention
    let heap_agrees = {
        let mut a: Matrix<Heap> = Matrix::from_fn((r, c), |(i, j)| Heap::of(100 + 10 * i as i64 + j as i64));
        let fa = guarded(|| a.retain_mut(slices::new().columns(by_methods(sb)).rows(by_methods(sa)))).is_some();
        let mut b = start(r, c);
        let fb = guarded(|| b.retain_mut(slices::new().columns(by_methods(sb)).rows(by_methods(sa)))).is_some();
        fa == fb && a.size() == b.size() && a.row_major_iter().map(|x| x.val()).eq(b.row_major_iter())
    };
    if !heap_agrees {
        return inconsistent(1141);
    }
    l(vec![
        bools(&by_enum(sa), r),
        bools(&by_methods(sa), r),
        bools(&by_enum(sb), c),
        bools(&by_methods(sb), c),
        grid(&Slice2D::new().rows(by_enum(sa)).columns(by_enum(sb))),
        grid(&slices::new().columns(by_methods(sb)).rows(by_methods(sa))),
        retain_mut_with(Slice2D::new().rows(by_enum(sa)).columns(by_enum(sb))),
        retain_mut_with(slices::new().columns(by_methods(sb)).rows(by_methods(sa))),
        retain_with(Slice2D::new().rows(by_methods(sa)).columns(by_methods(sb))),
        retain_with(slices::new().columns(by_enum(sb)).rows(by_enum(sa))),
    ])
}

pub fn run(args: &[Sx]) -> Sx {
    if args.first().and_then(|x| x.i64()) == Some(2) {
        return accepts_case(args);
    }
    if args.first().and_then(|x| x.i64()) == Some(3) {
        return algebra_case(args);
    }
    let a = history::<i64>(args);
    let b = history::<Heap>(args);
    if a != b {
        return inconsistent(1140);
    }
    a
}

/// insert_row_with / insert_column_with hand an ITERATOR to the crate: the same values through every
/// iterator SHAPE (crate::shapes; on copies of the matrix as it was before) must give the outcome
/// and the matrix that the exact-size `vec::IntoIter` gave.  Codes 1150 + shape (row form),
/// 1170 + shape (column form).  Lying size hints: insert_row_with reads through `take(columns)`,
/// so every lying hint is harmless and compared; insert_column_with collects the whole iterator,
/// so a lying LOWER bound of usize::MAX (shapes 12 / 15) panics with "capacity overflow" as soon as
/// there is a first value - there the requirement is: the canonical outcome, or a panic that leaves
/// the matrix untouched (codes 1190 + shape).  A hand-off also must not poll the iterator again
/// after its first None (shape 9 would then supply one more value).
fn insert_with_shapes<E: Elem>(before: &Matrix<E>, after: &Matrix<E>, fine: bool, row_form: bool, at: usize, vs: &[i64]) -> Result<(), i64> {
    use crate::shapes::{self, with_shape};
    let key = vs.iter().fold(at as u64 ^ 0x9e37, |h, &v| h.wrapping_mul(31).wrapping_add(v as u64))
        .wrapping_add(7 * before.rows() as u64 + before.columns() as u64 + vs.len() as u64);
    let lying: &[u8] = if row_form { &shapes::LYING } else { &shapes::LYING_SMALL };
    let call = |copy: &mut Matrix<E>, shape: u8| -> bool {
        with_shape!(shape, elems::<E>(vs.to_vec()), |it| {
            if row_form {
                guarded(|| copy.insert_row_with(at, it)).is_some()
            } else {
                guarded(|| copy.insert_column_with(at, it)).is_some()
            }
        })
    };
    for shape in shapes::plan(key, lying) {
        let mut copy = before.clone();
        let fine_copy = call(&mut copy, shape);
        if fine_copy != fine || copy != *after {
            return Err(if row_form { 1150 } else { 1170 } + shape as i64);
        }
    }
    if !row_form && key % 7 == 0 {
        for shape in [12u8, 15] {
            let mut copy = before.clone();
            let fine_copy = call(&mut copy, shape);
            let canonical = fine_copy == fine && copy == *after;
            let clean_panic = !fine_copy && copy == *before;
            if !(canonical || clean_panic) {
                return Err(1190 + shape as i64);
            }
        }
    }
    Ok(())
}

/// One operation on the matrix under test; Err(code): two API forms that must agree did not.
fn apply<E: Elem>(m: &mut Matrix<E>, o: Op) -> Result<bool, i64> {
    let fine = match o {
        Op::InsertRow(r, v) => guarded(|| m.insert_row(r, E::of(v))).is_some(),
        Op::InsertRowWith(r, vs) => {
            let before = m.clone();
            let fine = guarded(|| m.insert_row_with(r, elems::<E>(vs.clone()).into_iter())).is_some();
            insert_with_shapes(&before, m, fine, true, r, &vs)?;
            fine
        }
        Op::InsertColumn(c, v) => guarded(|| m.insert_column(c, E::of(v))).is_some(),
        Op::InsertColumnWith(c, vs) => {
            let before = m.clone();
            let fine = guarded(|| m.insert_column_with(c, elems::<E>(vs.clone()).into_iter())).is_some();
            insert_with_shapes(&before, m, fine, false, c, &vs)?;
            fine
        }
        Op::RemoveRow(r) => guarded(|| m.remove_row(r)).is_some(),
        Op::RemoveColumn(c) => guarded(|| m.remove_column(c)).is_some(),
        Op::RetainMut(r, c) => {
            // the method-built, columns-first Slice2D on a copy must retain the same matrix
            let mut other = m.clone();
            let fine_other = guarded(|| other.retain_mut(slice2d_other_order(&r, &c))).is_some();
            let fine = guarded(|| m.retain_mut(slice2d(&r, &c))).is_some();
            if fine != fine_other || other != *m {
                return Err(1124);
            }
            fine
        }
        Op::Retain(r, c) => {
            // both builder orders describe the same Slice2D
            let a = guarded(|| m.retain(slice2d(&r, &c)));
            let b = guarded(|| m.retain(slice2d_other_order(&r, &c)));
            match (a, b) {
                (Some(a), Some(b)) => {
                    if a != b {
                        return Err(1120);
                    }
                    *m = a;
                    true
                }
                (None, None) => false,
                _ => return Err(1121),
            }
        }
        Op::Transpose => {
            // the in-place form on a copy and the view's allocating form must give the same matrix
            let mut in_place = m.clone();
            let fine_in_place = guarded(|| in_place.transpose_mut()).is_some();
            let through_view = guarded(|| MatrixView::from(&*m).transpose());
            match guarded(|| m.transpose()) {
                Some(t) => {
                    if !fine_in_place || in_place != t || through_view.as_ref() != Some(&t) {
                        return Err(1137);
                    }
                    *m = t;
                    true
                }
                None => {
                    if fine_in_place || through_view.is_some() {
                        return Err(1137);
                    }
                    false
                }
            }
        }
        Op::TransposeMut => {
            let allocated = guarded(|| m.transpose());
            let fine = guarded(|| m.transpose_mut()).is_some();
            if fine != allocated.is_some() || (fine && allocated.as_ref() != Some(&*m)) {
                return Err(1138);
            }
            fine
        }
        Op::Set(r, c, v) => {
            // Every way of writing one element must agree.  The matrix under test itself is written
            // through ONE of the forms (chosen by the arguments, so each form occurs inside the
            // exhaustive tiers; wrappers are created here and dropped before the next operation),
            // every other form writes to a copy and must leave the same matrix and outcome.
            fn write_form<E: Elem>(form: usize, m: &mut Matrix<E>, r: usize, c: usize, v: i64) -> Result<bool, i64> {
                Ok(match form {
                    0 => guarded(|| m.set(r, c, E::of(v))).is_some(),
                    1 => guarded(|| *m.get_reference_mut(r, c) = E::of(v)).is_some(),
                    2 => match guarded(|| m.try_get_reference_mut(r, c).map(|cell| *cell = E::of(v))) {
                        Some(Some(())) => true,
                        Some(None) => false,
                        None => return Err(1130),
                    },
                    3 => guarded(|| MatrixView::from(&mut *m).set(r, c, E::of(v))).is_some(),
                    4 => guarded(|| {
                        let (rows, columns) = m.size();
                        m.range_mut(0..rows, 0..columns).set(r, c, E::of(v))
                    })
                    .is_some(),
                    5 => guarded(|| *MatrixView::from(&mut *m).get_reference_mut(r, c) = E::of(v)).is_some(),
                    6 => {
                        // through the MatrixMut trait of a boxed mutable reference under a view
                        let mut view = MatrixView::from(Box::new(&mut *m));
                        match guarded(|| view.try_get_reference_mut(r, c).map(|cell| *cell = E::of(v))) {
                            Some(Some(())) => true,
                            Some(None) => false,
                            None => return Err(1135),
                        }
                    }
                    _ => {
                        // an owned view that is unwrapped again
                        let mut view = MatrixView::from(m.clone());
                        let wrote = guarded(|| view.set(r, c, E::of(v))).is_some();
                        *m = view.source();
                        wrote
                    }
                })
            }
            const FORMS: usize = 8;
            let chosen = (r % 5 + c % 7 + v.rem_euclid(11) as usize) % FORMS;
            let before = m.clone();
            let wrote = write_form(chosen, m, r, c, v)?;
            if !wrote && *m != before {
                return Err(1129);
            }
            for form in 0..FORMS {
                if form == chosen {
                    continue;
                }
                let mut copy = before.clone();
                let wrote_copy = write_form(form, &mut copy, r, c, v)?;
                if wrote_copy != wrote || copy != *m {
                    return Err(1131 + 1000 * form as i64);
                }
            }
            if wrote {
                let mut d = before.clone();
                unsafe { *d.get_reference_unchecked_mut(r, c) = E::of(v) };
                if d != *m || unsafe { m.get_reference_unchecked(r, c).val() } != v {
                    return Err(1132);
                }
            }
            wrote
        }
        Op::MapMut(k) => {
            let mapped = guarded(|| m.map(|x| E::of(x.val() + k)));
            let fine = guarded(|| m.map_mut(|x| E::of(x.val() + k))).is_some();
            if mapped.as_ref() != Some(&*m) || !fine {
                return Err(1133);
            }
            fine
        }
        Op::MapMutWithIndex(k) => {
            let f = |x: E, i: usize, j: usize| E::of(x.val() + k * (10 * i as i64 + j as i64 + 1));
            let mapped = guarded(|| m.map_with_index(f));
            // the view's in-place and allocating maps hand over the same (row, column) arguments
            let mut through_view = m.clone();
            let fine_view = guarded(|| MatrixView::from(&mut through_view).map_mut_with_index(f)).is_some();
            let mapped_view = guarded(|| MatrixView::from(&*m).map_with_index(f));
            // ... and so does the indexed mutable iterator
            let mut through_iter = m.clone();
            let fine_iter = guarded(|| {
                for ((i, j), x) in through_iter.row_major_reference_mut_iter().with_index() {
                    *x = f(x.clone(), i, j);
                }
            })
            .is_some();
            let fine = guarded(|| m.map_mut_with_index(f)).is_some();
            if mapped.as_ref() != Some(&*m) || !fine {
                return Err(1134);
            }
            if !fine_view || through_view != *m || mapped_view.as_ref() != Some(&*m) || !fine_iter || through_iter != *m {
                return Err(1139);
            }
            fine
        }
        Op::PartitionFill(rp, cp, k, v) => {
            // cell (i, j) of part k gets v + 10 i + j (distinguishable per cell), through one of the
            // part's own mutable access paths
            let done = guarded(|| {
                let mut parts = m.partition(&rp, &cp);
                if let Some(part) = parts.get_mut(k) {
                    let (rows, columns) = part.size();
                    let value = |i: usize, j: usize| E::of(v + 10 * i as i64 + j as i64);
                    match (k + rows + columns) % 4 {
                        0 => part.map_mut_with_index(|_, i, j| value(i, j)),
                        1 => {
                            for i in 0..rows {
                                for j in 0..columns {
                                    part.set(i, j, value(i, j));
                                }
                            }
                        }
                        2 => {
                            // backwards, so that a mutable getter which mirrors is not hidden by the order
                            for i in (0..rows).rev() {
                                for j in (0..columns).rev() {
                                    *part.get_reference_mut(i, j) = value(i, j);
                                }
                            }
                        }
                        _ => {
                            for ((i, j), x) in part.row_major_reference_mut_iter().with_index() {
                                *x = value(i, j);
                            }
                        }
                    }
                }
            });
            done.is_some()
        }
    };
    Ok(fine)
}

fn history<E: Elem>(args: &[Sx]) -> Sx {
    if args.len() != 3 || args[0].i64() != Some(1) {
        return bad_case();
    }
    let Some(first) = start::<E>(&args[1]) else { return bad_case() };
    let Some(ops) = args[2].list().and_then(|v| v.iter().map(op).collect::<Option<Vec<Op>>>()) else {
        return bad_case();
    };
    let Some(mut m) = first else { return panicked() };
    let mut out = vec![observe(&m)];
    for o in ops {
        let fine = match apply(&mut m, o) {
            Ok(fine) => fine,
            Err(code) => return inconsistent(code),
        };
        out.push(l(vec![z(if fine { 0 } else { 2 }), observe(&m)]));
    }
    ok(l(out))
}

/// The i64 matrix a history ends with (used by C12 to partition a matrix that has been resized):
/// None = not in the case language, Some(None) = the constructor panicked.
pub fn final_matrix(start_sx: &Sx, ops_sx: &Sx) -> Option<Option<Matrix<i64>>> {
    let first = start::<i64>(start_sx)?;
    let ops = ops_sx.list().and_then(|v| v.iter().map(op).collect::<Option<Vec<Op>>>())?;
    let Some(mut m) = first else { return Some(None) };
    for o in ops {
        if apply(&mut m, o).is_err() {
            return None;
        }
    }
    Some(Some(m))
}
