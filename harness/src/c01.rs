//! C01: named-dimension addressing on Tensor through TensorAccess, all access forms.
//!   (1 1 shape data req probes write)   write = () | (((idx) v))
//!   (1 2 shape datalen)
//!   (1 3 shape req probes)              Tensor::from_fn with producer fold(acc * 7 + i + 1) from 1000
//!   (1 4 kind ...)                      conversions scalar / Tensor / TensorView / Matrix / MatrixView and
//!                                       the interop wrappers, element exact (c01/conv.rs has the language)
mod conv;
use crate::guarded;
use crate::sx::*;
use crate::with_d;
use easy_ml::tensors::indexing::TensorAccess;
use easy_ml::tensors::views::{TensorMut, TensorRef};
use easy_ml::tensors::Tensor;

/// An element type that is deliberately not Clone / Copy.
#[derive(Debug, PartialEq)]
struct NoClone(i64);

pub fn run(args: &[Sx]) -> Sx {
    match args.first().and_then(|x| x.i64()) {
        Some(1) if args.len() == 6 => {
            let (Some(shape), Some(data), Some(req), Some(probes), Some(write)) = (
                args[1].pairs_usize(),
                args[2].i64s(),
                args[3].usizes(),
                args[4].list().and_then(|p| p.iter().map(|x| x.usizes()).collect::<Option<Vec<_>>>()),
                args[5].option(),
            ) else {
                return bad_case();
            };
            let write = match write {
                None => None,
                Some(w) => {
                    let Some(w) = w.list() else { return bad_case() };
                    if w.len() != 2 {
                        return bad_case();
                    }
                    let (Some(i), Some(v)) = (w[0].usizes(), w[1].i64()) else { return bad_case() };
                    Some((i, v))
                }
            };
            let d = shape.len();
            if req.len() != d
                || probes.iter().any(|p| p.len() != d)
                || write.as_ref().is_some_and(|(i, _)| i.len() != d)
            {
                return bad_case();
            }
            with_d!(d, access(&shape, &data, &req, &probes, &write))
        }
        Some(3) if args.len() == 4 => {
            let (Some(shape), Some(req), Some(probes)) = (
                args[1].pairs_usize(),
                args[2].usizes(),
                args[3].list().and_then(|p| p.iter().map(|x| x.usizes()).collect::<Option<Vec<_>>>()),
            ) else {
                return bad_case();
            };
            let d = shape.len();
            let elements: u128 = shape.iter().map(|x| x.1 as u128).product();
            if req.len() != d
                || probes.iter().any(|p| p.len() != d)
                || shape.iter().any(|x| x.1 > 65536)
                || elements > 65536
            {
                return bad_case();
            }
            with_d!(d, from_fn(&shape, &req, &probes))
        }
        Some(4) => conv::run(args),
        Some(2) if args.len() == 3 => {
            let (Some(shape), Some(len)) = (args[1].pairs_usize(), args[2].usize()) else {
                return bad_case();
            };
            with_d!(shape.len(), ctor(&shape, len))
        }
        _ => bad_case(),
    }
}

fn dump<const D: usize>(t: &Tensor<i64, D>) -> Sx {
    l(t.iter().map(z).collect())
}

fn access<const D: usize>(
    shape: &[(usize, usize)],
    data: &[i64],
    req: &[usize],
    probes: &[Vec<usize>],
    write: &Option<(Vec<usize>, i64)>,
) -> Sx {
    let shape: [(&'static str, usize); D] = shape_arr(shape);
    let req: [&'static str; D] = names_arr(req);
    let probes: Vec<[usize; D]> = probes.iter().map(|p| idx_arr(p)).collect();

    let tensor = match Tensor::try_from(shape, data.to_vec()) {
        Err(e) => return err(shape_sx(&e.shape())),
        Ok(t) => t,
    };
    let tensor_nc: Tensor<NoClone, D> = Tensor::from(shape, data.iter().map(|&x| NoClone(x)).collect());

    let acc = match TensorAccess::try_from(&tensor, req) {
        Err(e) => {
            // the panicking constructors must reject as well
            if guarded(|| tensor.index_by(req).shape()).is_some() {
                return inconsistent(101);
            }
            if guarded(|| TensorAccess::from(&tensor, req).shape()).is_some() {
                return inconsistent(102);
            }
            let mut copy = tensor.clone();
            if guarded(|| copy.index_by_mut(req).shape()).is_some() {
                return inconsistent(103);
            }
            if guarded(|| tensor.clone().index_by_owned(req).shape()).is_some() {
                return inconsistent(104);
            }
            // the error value names what was asked for and what the tensor has, also when shown
            let shown = e.to_string();
            if !shown.contains(&format!("{:?}", e.requested)) || !shown.contains(&format!("{:?}", e.actual)) {
                return inconsistent(107);
            }
            let e_mut = TensorAccess::try_from(&mut tensor.clone(), req).err();
            let e_owned = TensorAccess::try_from(tensor.clone(), req).err();
            if e_mut.as_ref().map(|x| (x.actual, x.requested)) != Some((e.actual, e.requested))
                || e_owned.as_ref().map(|x| (x.actual, x.requested)) != Some((e.actual, e.requested))
            {
                return inconsistent(108);
            }
            return ok(err(l(vec![shape_sx(&e.actual), names_sx(&e.requested)])));
        }
        Ok(a) => a,
    };
    let acc_shape = acc.shape();
    if tensor.index_by(req).shape() != acc_shape || acc.view_shape() != acc_shape {
        return inconsistent(105);
    }
    if req == shape.map(|d| d.0) {
        // the tensor's own order: index(), from_source_order and from_memory_order are this access
        let a1 = tensor.index();
        let a2 = TensorAccess::from_source_order(&tensor);
        let Some(a3) = TensorAccess::from_memory_order(&tensor) else { return inconsistent(140) };
        if a1.shape() != acc_shape || a2.shape() != acc_shape || a3.shape() != acc_shape || acc_shape != shape {
            return inconsistent(141);
        }
        let mut copy = tensor.clone();
        let owned_index = tensor.clone().index_owned();
        for p in &probes {
            let r = acc.try_get_reference(*p);
            if a1.try_get_reference(*p) != r
                || a2.try_get_reference(*p) != r
                || a3.try_get_reference(*p) != r
                || tensor.get_reference(*p) != r
                || owned_index.try_get_reference(*p) != r
                || copy.index_mut().try_get_reference_mut(*p).map(|x| *x) != r.copied()
            {
                return inconsistent(142);
            }
        }
    }
    let acc_nc = tensor_nc.index_by(req);
    let mut copy_mut = tensor.clone();
    let owned = tensor.clone().index_by_owned(req);
    if owned.shape() != acc_shape {
        return inconsistent(106);
    }

    let mut results = vec![];
    for p in &probes {
        let p = *p;
        let r: Option<i64> = acc.try_get_reference(p).copied();
        // every other read form must agree
        if TensorRef::get_reference(&acc, p).copied() != r {
            return inconsistent(110);
        }
        if guarded(|| acc.get(p)) != r {
            return inconsistent(111);
        }
        if guarded(|| *acc.get_ref(p)) != r {
            return inconsistent(112);
        }
        if acc_nc.try_get_reference(p).map(|x| x.0) != r {
            return inconsistent(113);
        }
        if guarded(|| acc_nc.get_ref(p).0) != r {
            return inconsistent(114);
        }
        if owned.try_get_reference(p).copied() != r {
            return inconsistent(115);
        }
        {
            let mut am = copy_mut.index_by_mut(req);
            if am.try_get_reference_mut(p).map(|x| *x) != r {
                return inconsistent(116);
            }
            if guarded(|| *am.get_ref_mut(p)) != r {
                return inconsistent(117);
            }
            if TensorMut::get_reference_mut(&mut am, p).map(|x| *x) != r {
                return inconsistent(118);
            }
            if r.is_some() {
                // valid index: the unchecked forms are allowed and must agree (hooks are on)
                if unsafe { *acc.get_reference_unchecked(p) } != r.unwrap() {
                    return inconsistent(119);
                }
                if unsafe { *am.get_reference_unchecked_mut(p) } != r.unwrap() {
                    return inconsistent(120);
                }
            }
        }
        results.push(opt(r.map(z)));
    }

    let after = match write {
        None => ok(dump(&tensor)),
        Some((idx, v)) => {
            let idx: [usize; D] = idx_arr(idx);
            // form 1: get_ref_mut (panicking)
            let mut t1 = tensor.clone();
            let wrote = guarded(|| {
                *t1.index_by_mut(req).get_ref_mut(idx) = *v;
            })
            .is_some();
            // form 2: try_get_reference_mut
            let mut t2 = tensor.clone();
            let wrote2 = match t2.index_by_mut(req).try_get_reference_mut(idx) {
                Some(r) => {
                    *r = *v;
                    true
                }
                None => false,
            };
            if wrote != wrote2 || dump(&t1) != dump(&t2) {
                return inconsistent(130);
            }
            // form 3: owned access, then recover the tensor
            let mut a3 = tensor.clone().index_by_owned(req);
            let wrote3 = match a3.try_get_reference_mut(idx) {
                Some(r) => {
                    *r = *v;
                    true
                }
                None => false,
            };
            if wrote3 != wrote || dump(&a3.source()) != dump(&t1) {
                return inconsistent(131);
            }
            if wrote {
                // form 4: unchecked write on a valid index
                let mut t4 = tensor.clone();
                unsafe {
                    *t4.index_by_mut(req).get_reference_unchecked_mut(idx) = *v;
                }
                if dump(&t4) != dump(&t1) {
                    return inconsistent(132);
                }
                // the written value is read back through the same access
                if t1.index_by(req).try_get_reference(idx) != Some(v) {
                    return inconsistent(133);
                }
                ok(dump(&t1))
            } else {
                if dump(&t1) != dump(&tensor) {
                    return inconsistent(134);
                }
                panicked()
            }
        }
    };
    ok(ok(l(vec![shape_sx(&acc_shape), l(results), after])))
}

fn producer<const D: usize>(idx: [usize; D]) -> i64 {
    idx.iter().fold(1000i64, |acc, &i| acc * 7 + i as i64 + 1)
}

fn from_fn<const D: usize>(shape: &[(usize, usize)], req: &[usize], probes: &[Vec<usize>]) -> Sx {
    let shape: [(&'static str, usize); D] = shape_arr(shape);
    let req: [&'static str; D] = names_arr(req);
    let Some(tensor) = guarded(|| Tensor::from_fn(shape, producer::<D>)) else {
        // the non-Clone element type must be rejected as well
        if guarded(|| Tensor::from_fn(shape, |i| NoClone(producer::<D>(i)))).is_some() {
            return inconsistent(160);
        }
        return panicked();
    };
    let tensor_nc = match guarded(|| Tensor::from_fn(shape, |i| NoClone(producer::<D>(i)))) {
        Some(t) => t,
        None => return inconsistent(161),
    };
    if tensor_nc.iter_reference().map(|x| x.0).collect::<Vec<_>>() != tensor.iter().collect::<Vec<_>>() {
        return inconsistent(162);
    }
    let acc = match TensorAccess::try_from(&tensor, req) {
        Err(e) => err(l(vec![shape_sx(&e.actual), names_sx(&e.requested)])),
        Ok(acc) => {
            let acc_nc = tensor_nc.index_by(req);
            let mut results = vec![];
            for p in probes {
                let p: [usize; D] = idx_arr(p);
                let r = acc.try_get_reference(p).copied();
                if acc_nc.try_get_reference(p).map(|x| x.0) != r || guarded(|| acc.get(p)) != r {
                    return inconsistent(163);
                }
                results.push(opt(r.map(z)));
            }
            ok(l(vec![shape_sx(&acc.shape()), l(results)]))
        }
    };
    ok(l(vec![shape_sx(&tensor.shape()), dump(&tensor), acc]))
}

fn ctor<const D: usize>(shape: &[(usize, usize)], len: usize) -> Sx {
    let shape: [(&'static str, usize); D] = shape_arr(shape);
    if len > 1 << 24 {
        return bad_case();
    }
    let data: Vec<i64> = (0..len as i64).collect();
    let payload = |t: &Tensor<i64, D>| l(vec![shape_sx(&t.shape()), z(t.iter().count())]);
    let from = match guarded(|| Tensor::from(shape, data.clone())) {
        Some(t) => ok(payload(&t)),
        None => panicked(),
    };
    let try_from = match Tensor::try_from(shape, data.clone()) {
        Ok(t) => ok(payload(&t)),
        Err(e) => {
            if !e.to_string().contains(&format!("{:?}", shape)) || e.shape_ref() != &shape {
                return inconsistent(150);
            }
            err(shape_sx(&e.shape()))
        }
    };
    l(vec![from, try_from])
}
