//! C09: iterators. Case language (see coq/theories/Run/RunC09.v):
//!   (9 1 shape k)                  ShapeIterator
//!   (9 4 shape k)                  ShapeIterator, items only (index spaces beyond usize::MAX)
//!   (9 2 kind wi src k)            tensor iterators over a source term
//!   (9 3 order mode wi src arg k)  matrix iterators over a matrix source term
//!   (9 5 kind wi term k)           tensor iterators over ANY C02 view term (c09/over_views.rs)
//!   (9 7 script op args..)         one of the ops 1, 2, 3, 5, 6 with the iterator driven by a script over
//!                                  nth / by_ref().skip / step_by / take / count / last / fold (see `drive`)
//!   (9 6 order mode wi rows cols data leaf wrappers arg k)
//!                                  matrix iterators over a stack of C12 matrix views incl. partition
//!                                  parts / quadrants and tensor round trips (c09/over_mviews.rs)
//! Every API form that constructs the same iterator is driven and cross-checked; sources are
//! built both as statically typed view compositions and as `Box<dyn TensorMut>` chains.
pub mod matrix;
pub mod over_mviews;
mod over_views;
pub mod tsrc;

use crate::guarded;
use crate::sx::*;
use crate::with_d;
use easy_ml::tensors::indexing::{
    ShapeIterator, TensorAccess, TensorIterator, TensorOwnedIterator, TensorReferenceIterator,
    TensorReferenceMutIterator, TensorTranspose,
};
use easy_ml::tensors::views::{TensorMask, TensorMut, TensorRange, TensorRef, TensorRename, TensorReverse, TensorView};
use easy_ml::tensors::Tensor;
use tsrc::*;

pub fn run(args: &[Sx]) -> Sx {
    match args.first().and_then(|x| x.i64()) {
        Some(1) if args.len() == 3 => {
            let (Some(shape), Some(k)) = (args[1].pairs_usize(), args[2].usize()) else {
                return bad_case();
            };
            with_d!(shape.len(), shape_iter(&shape, k))
        }
        Some(4) if args.len() == 3 => {
            let (Some(shape), Some(k)) = (args[1].pairs_usize(), args[2].usize()) else {
                return bad_case();
            };
            with_d!(shape.len(), shape_iter_items(&shape, k))
        }
        Some(2) if args.len() == 5 => {
            let (Some(kind), Some(wi), Some(term), Some(k)) =
                (args[1].usize(), args[2].bool(), parse_term(&args[3]), args[4].usize())
            else {
                return bad_case();
            };
            if kind > 3 {
                return bad_case();
            }
            let d = term.base_d();
            with_d!(d, titer(kind, wi, &term, k))
        }
        Some(3) if args.len() == 7 => matrix::run(args),
        Some(5) if args.len() == 5 => over_views::run(args),
        Some(6) if args.len() == 11 => over_mviews::run(args),
        Some(7) if args.len() >= 3 => {
            // a script over the provided Iterator methods around one of the ops 1, 2, 3, 5, 6
            let Some(script) = args[1].list().and_then(|v| v.iter().map(step).collect::<Option<Vec<_>>>()) else {
                return bad_case();
            };
            if !matches!(args[2].i64(), Some(1) | Some(2) | Some(3) | Some(5) | Some(6)) {
                return bad_case();
            }
            SCRIPT.with(|s| *s.borrow_mut() = Some(script));
            let out = guarded(|| run(&args[2..]));
            SCRIPT.with(|s| *s.borrow_mut() = None);
            match out {
                Some(x) => x,
                None => l(vec![z(-4)]),
            }
        }
        _ => bad_case(),
    }
}

// ------------------------------------------------------------------ driving an iterator

/// A step of a script over the provided Iterator methods a type may override (op 7).
#[derive(Clone)]
pub enum Step {
    Nth(usize),
    Skip(usize),
    StepBy(usize, usize),
    Take(usize),
    Count,
    Last,
    Fold,
}

thread_local! {
    /// set by op 7 around the inner op: `drive` then runs the script instead of k calls of next()
    static SCRIPT: std::cell::RefCell<Option<Vec<Step>>> = std::cell::RefCell::new(None);
}

fn step(s: &Sx) -> Option<Step> {
    let v = s.list()?;
    Some(match (v.first()?.i64()?, v.len()) {
        (0, 2) => Step::Nth(v[1].usize()?),
        (1, 2) => Step::Skip(v[1].usize()?),
        (2, 3) if v[1].usize()? >= 1 => Step::StepBy(v[1].usize()?, v[2].usize()?),
        (3, 2) => Step::Take(v[1].usize()?),
        (4, 1) => Step::Count,
        (5, 1) => Step::Last,
        (6, 1) => Step::Fold,
        _ => return None,
    })
}

/// k calls of next() — or, under op 7, the script: nth / by_ref().skip / step_by / take, and the
/// terminal count / last / fold — after each (non-terminal) call the exact length; both size_hint
/// bounds must equal len().
pub fn drive<I: ExactSizeIterator>(
    mut it: I,
    k: usize,
    mut enc: impl FnMut(I::Item) -> Sx,
) -> Result<(Sx, Sx, Option<I>), i64> {
    let len0 = it.len();
    if it.size_hint() != (len0, Some(len0)) {
        return Err(901);
    }
    let mut steps = vec![];
    let script = SCRIPT.with(|s| s.borrow().clone());
    let Some(script) = script else {
        for _ in 0..k {
            let item = it.next();
            let len = it.len();
            if it.size_hint() != (len, Some(len)) {
                return Err(902);
            }
            steps.push(l(vec![
                match item {
                    None => nil(),
                    Some(x) => enc(x),
                },
                z(len),
            ]));
        }
        return Ok((z(len0), l(steps), Some(it)));
    };
    for st in script {
        match st {
            Step::Nth(n) | Step::Skip(n) => {
                let item = if let Step::Nth(_) = st { it.nth(n) } else { it.by_ref().skip(n).next() };
                let len = it.len();
                if it.size_hint() != (len, Some(len)) {
                    return Err(902);
                }
                steps.push(l(vec![
                    match item {
                        None => nil(),
                        Some(x) => enc(x),
                    },
                    z(len),
                ]));
            }
            Step::StepBy(by, j) => {
                let items: Vec<I::Item> = it.by_ref().step_by(by).take(j).collect();
                let len = it.len();
                if it.size_hint() != (len, Some(len)) {
                    return Err(902);
                }
                steps.push(l(vec![z(7), l(items.into_iter().map(&mut enc).collect()), z(len)]));
            }
            Step::Take(j) => {
                let items: Vec<I::Item> = it.by_ref().take(j).collect();
                let len = it.len();
                if it.size_hint() != (len, Some(len)) {
                    return Err(902);
                }
                steps.push(l(vec![z(8), l(items.into_iter().map(&mut enc).collect()), z(len)]));
            }
            Step::Count => {
                steps.push(l(vec![z(4), z(it.count())]));
                return Ok((z(len0), l(steps), None));
            }
            Step::Last => {
                steps.push(l(vec![
                    z(5),
                    match it.last() {
                        None => nil(),
                        Some(x) => enc(x),
                    },
                ]));
                return Ok((z(len0), l(steps), None));
            }
            Step::Fold => {
                let items: Vec<I::Item> = it.fold(vec![], |mut v, x| {
                    v.push(x);
                    v
                });
                steps.push(l(vec![z(6), l(items.into_iter().map(&mut enc).collect())]));
                return Ok((z(len0), l(steps), None));
            }
        }
    }
    Ok((z(len0), l(steps), Some(it)))
}

pub fn val(v: i64) -> Sx {
    l(vec![l(vec![z(v)])])
}
pub fn val_at(index: Sx, v: i64) -> Sx {
    l(vec![index, l(vec![z(v)])])
}
fn idx_sx<const D: usize>(i: [usize; D]) -> Sx {
    l(i.iter().map(|x| z(*x)).collect())
}

/// Writes through all the references a mutable iterator handed out (held simultaneously), last
/// one first; `(-8 950)` if two of them point at the same element.
pub fn write_back(refs: Vec<(i64, &mut i64)>) -> Result<(), i64> {
    let mut addrs: Vec<usize> = refs.iter().map(|(_, r)| (*r) as *const i64 as usize).collect();
    addrs.sort();
    addrs.dedup();
    if addrs.len() != refs.len() {
        return Err(950);
    }
    for (j, (old, r)) in refs.into_iter().enumerate().rev() {
        *r = old + 1000 * (j as i64 + 1);
    }
    Ok(())
}

// ------------------------------------------------------------------ ShapeIterator

fn shape_iter<const D: usize>(shape: &[(usize, usize)], k: usize) -> Sx {
    let shape: [(&'static str, usize); D] = shape_arr(shape);
    match drive(ShapeIterator::from(shape), k, |i| l(vec![idx_sx(i)])) {
        Ok((len0, steps, _)) => l(vec![len0, steps]),
        Err(c) => inconsistent(c),
    }
}

/// items only: len() / size_hint() are not called (the element count is not a usize here)
fn shape_iter_items<const D: usize>(shape: &[(usize, usize)], k: usize) -> Sx {
    let shape: [(&'static str, usize); D] = shape_arr(shape);
    let Some(mut it) = guarded(|| ShapeIterator::from(shape)) else { return panicked() };
    let mut items = vec![];
    for _ in 0..k {
        match guarded(|| it.next()) {
            None => return panicked(),
            Some(x) => items.push(opt(x.map(idx_sx))),
        }
    }
    l(items)
}

fn rec(len0: Sx, steps: Sx, data: Sx) -> Sx {
    l(vec![len0, steps, data])
}

macro_rules! same {
    ($a:expr, $b:expr, $code:expr) => {
        if $a != $b {
            return Err($code);
        }
    };
}

/// Every generic API form of iterator `kind` over a source of type S; all must agree.
fn forms<S: TensorMut<i64, D>, const D: usize>(
    mk: &dyn Fn() -> (S, *mut Tensor<i64, D>),
    kind: usize,
    wi: bool,
    k: usize,
) -> Result<Sx, i64> {
    let enc = |v: i64| val(v);
    let enc_wi = |(i, v): ([usize; D], i64)| val_at(idx_sx(i), v);
    let encr = |v: &i64| val(*v);
    let encr_wi = |(i, v): ([usize; D], &i64)| val_at(idx_sx(i), *v);
    match kind {
        0 => {
            let (s, p) = mk();
            let a = if wi {
                let (a, b, _) = drive(TensorIterator::from(&s).with_index(), k, enc_wi)?;
                let (a2, b2, _) = drive(TensorView::from(&s).iter().with_index(), k, enc_wi)?;
                let w: easy_ml::tensors::indexing::WithIndex<_> = TensorIterator::from(&s).into();
                let (a3, b3, _) = drive(w, k, enc_wi)?;
                same!((&a, &b), (&a2, &b2), 910);
                same!((&a, &b), (&a3, &b3), 911);
                (a, b)
            } else {
                let (a, b, _) = drive(TensorIterator::from(&s), k, enc)?;
                let (a2, b2, _) = drive(TensorView::from(&s).iter(), k, enc)?;
                same!((&a, &b), (&a2, &b2), 912);
                (a, b)
            };
            drop(s);
            Ok(rec(a.0, a.1, take(p)))
        }
        1 => {
            let (s, p) = mk();
            let a = if wi {
                let (a, b, _) = drive(TensorReferenceIterator::from(&s).with_index(), k, encr_wi)?;
                let (a2, b2, _) = drive(TensorView::from(&s).iter_reference().with_index(), k, encr_wi)?;
                same!((&a, &b), (&a2, &b2), 913);
                (a, b)
            } else {
                let (a, b, _) = drive(TensorReferenceIterator::from(&s), k, encr)?;
                let (a2, b2, _) = drive(TensorView::from(&s).iter_reference(), k, encr)?;
                same!((&a, &b), (&a2, &b2), 914);
                (a, b)
            };
            drop(s);
            Ok(rec(a.0, a.1, take(p)))
        }
        2 => {
            let mut results = vec![];
            for form in 0..2 {
                let (mut s, p) = mk();
                let (a, b) = if form == 0 {
                    let mut refs: Vec<(i64, &mut i64)> = vec![];
                    let (a, b) = if wi {
                        let (a, b, _) = drive(TensorReferenceMutIterator::from(&mut s).with_index(), k, |(i, r)| {
                            let v = *r;
                            refs.push((v, r));
                            val_at(idx_sx(i), v)
                        })?;
                        (a, b)
                    } else {
                        let (a, b, _) = drive(TensorReferenceMutIterator::from(&mut s), k, |r| {
                            let v = *r;
                            refs.push((v, r));
                            val(v)
                        })?;
                        (a, b)
                    };
                    write_back(refs)?;
                    (a, b)
                } else {
                    let mut view = TensorView::from(&mut s);
                    let mut refs: Vec<(i64, &mut i64)> = vec![];
                    let (a, b) = if wi {
                        let (a, b, _) = drive(view.iter_reference_mut().with_index(), k, |(i, r)| {
                            let v = *r;
                            refs.push((v, r));
                            val_at(idx_sx(i), v)
                        })?;
                        (a, b)
                    } else {
                        let (a, b, _) = drive(view.iter_reference_mut(), k, |r| {
                            let v = *r;
                            refs.push((v, r));
                            val(v)
                        })?;
                        (a, b)
                    };
                    write_back(refs)?;
                    (a, b)
                };
                drop(s);
                results.push(rec(a, b, take(p)));
            }
            same!(results[0], results[1], 915);
            Ok(results.swap_remove(0))
        }
        _ => {
            let mut results = vec![];
            for form in 0..4 {
                let (mut s, p) = mk();
                let (a, b) = match (form, wi) {
                    (0, false) => {
                        let (a, b, _) = drive(TensorOwnedIterator::from(s), k, enc)?;
                        (a, b)
                    }
                    (0, true) => {
                        let (a, b, _) = drive(TensorOwnedIterator::from(s).with_index(), k, enc_wi)?;
                        (a, b)
                    }
                    (1, false) => {
                        let (a, b, _) = drive(TensorOwnedIterator::from_numeric(s), k, enc)?;
                        (a, b)
                    }
                    (1, true) => {
                        let (a, b, _) = drive(TensorOwnedIterator::from_numeric(s).with_index(), k, enc_wi)?;
                        (a, b)
                    }
                    (2, false) => {
                        let (a, b, _) = drive(TensorView::from(s).iter_owned(), k, enc)?;
                        (a, b)
                    }
                    (2, true) => {
                        let (a, b, _) = drive(TensorView::from(s).iter_owned().with_index(), k, enc_wi)?;
                        (a, b)
                    }
                    (_, false) => {
                        let r = {
                            let (a, b, _) = drive(TensorOwnedIterator::from(&mut s), k, enc)?;
                            (a, b)
                        };
                        drop(s);
                        r
                    }
                    (_, true) => {
                        let r = {
                            let (a, b, _) = drive(TensorOwnedIterator::from(&mut s).with_index(), k, enc_wi)?;
                            (a, b)
                        };
                        drop(s);
                        r
                    }
                };
                results.push(rec(a, b, take(p)));
            }
            same!(results[0], results[1], 916);
            same!(results[0], results[2], 917);
            same!(results[0], results[3], 918);
            Ok(results.swap_remove(0))
        }
    }
}

/// The convenience methods of Tensor itself (owned tensor: no dump for iter_owned).
fn tensor_forms<const D: usize>(
    shape: &[(usize, usize)],
    data: &[i64],
    kind: usize,
    wi: bool,
    k: usize,
) -> Result<(Sx, Sx, Option<Sx>), i64> {
    let shape: [(&'static str, usize); D] = shape_arr(shape);
    let mut t = Tensor::from(shape, data.to_vec());
    let enc = |v: i64| val(v);
    let enc_wi = |(i, v): ([usize; D], i64)| val_at(idx_sx(i), v);
    let encr = |v: &i64| val(*v);
    let encr_wi = |(i, v): ([usize; D], &i64)| val_at(idx_sx(i), *v);
    Ok(match (kind, wi) {
        (0, false) => {
            let (a, b, _) = drive(t.iter(), k, enc)?;
            let (a2, b2, _) = drive(t.view().iter(), k, enc)?;
            same!((&a, &b), (&a2, &b2), 920);
            (a, b, Some(dump_tensor(&t)))
        }
        (0, true) => {
            let (a, b, _) = drive(t.iter().with_index(), k, enc_wi)?;
            (a, b, Some(dump_tensor(&t)))
        }
        (1, false) => {
            let (a, b, _) = drive(t.iter_reference(), k, encr)?;
            (a, b, Some(dump_tensor(&t)))
        }
        (1, true) => {
            let (a, b, _) = drive(t.iter_reference().with_index(), k, encr_wi)?;
            (a, b, Some(dump_tensor(&t)))
        }
        (2, false) => {
            let mut refs: Vec<(i64, &mut i64)> = vec![];
            let (a, b, _) = drive(t.iter_reference_mut(), k, |r| {
                let v = *r;
                refs.push((v, r));
                val(v)
            })?;
            write_back(refs)?;
            (a, b, Some(dump_tensor(&t)))
        }
        (2, true) => {
            let mut refs: Vec<(i64, &mut i64)> = vec![];
            let (a, b, _) = drive(t.iter_reference_mut().with_index(), k, |(i, r)| {
                let v = *r;
                refs.push((v, r));
                val_at(idx_sx(i), v)
            })?;
            write_back(refs)?;
            (a, b, Some(dump_tensor(&t)))
        }
        (_, false) => {
            let (a, b, _) = drive(t.iter_owned(), k, enc)?;
            (a, b, None)
        }
        (_, true) => {
            let (a, b, _) = drive(t.iter_owned().with_index(), k, enc_wi)?;
            (a, b, None)
        }
    })
}

/// TensorAccess's own iterator methods (iter, iter_reference, iter_reference_mut).
fn access_forms<const D: usize>(
    shape: &[(usize, usize)],
    data: &[i64],
    names: &[usize],
    kind: usize,
    wi: bool,
    k: usize,
) -> Result<Option<Sx>, i64> {
    let shape: [(&'static str, usize); D] = shape_arr(shape);
    let names: [&'static str; D] = names_arr(names);
    let mut t = Tensor::from(shape, data.to_vec());
    let enc = |v: i64| val(v);
    let enc_wi = |(i, v): ([usize; D], i64)| val_at(idx_sx(i), v);
    let encr = |v: &i64| val(*v);
    let encr_wi = |(i, v): ([usize; D], &i64)| val_at(idx_sx(i), *v);
    let (a, b) = match (kind, wi) {
        (0, false) => {
            let (a, b, _) = drive(t.index_by(names).iter(), k, enc)?;
            (a, b)
        }
        (0, true) => {
            let (a, b, _) = drive(t.index_by(names).iter().with_index(), k, enc_wi)?;
            (a, b)
        }
        (1, false) => {
            let (a, b, _) = drive(t.index_by(names).iter_reference(), k, encr)?;
            (a, b)
        }
        (1, true) => {
            let (a, b, _) = drive(t.index_by(names).iter_reference().with_index(), k, encr_wi)?;
            (a, b)
        }
        (2, false) => {
            let mut acc = t.index_by_mut(names);
            let mut refs: Vec<(i64, &mut i64)> = vec![];
            let (a, b, _) = drive(acc.iter_reference_mut(), k, |r| {
                let v = *r;
                refs.push((v, r));
                val(v)
            })?;
            write_back(refs)?;
            (a, b)
        }
        (2, true) => {
            let mut acc = t.index_by_mut(names);
            let mut refs: Vec<(i64, &mut i64)> = vec![];
            let (a, b, _) = drive(acc.iter_reference_mut().with_index(), k, |(i, r)| {
                let v = *r;
                refs.push((v, r));
                val_at(idx_sx(i), v)
            })?;
            write_back(refs)?;
            (a, b)
        }
        _ => return Ok(None),
    };
    Ok(Some(rec(a, b, dump_tensor(&t))))
}

fn titer<const D: usize>(kind: usize, wi: bool, term: &Term, k: usize) -> Sx {
    // constructor outcome
    match build_dyn::<D>(term) {
        Err(Fail::Panic) => return panicked(),
        Err(Fail::Err(e)) => return err(e),
        Ok((s, p)) => {
            drop(s);
            drop(unsafe { Box::from_raw(p) });
        }
    }
    let canonical = match forms::<Dyn<D>, D>(&|| build_dyn::<D>(term).ok().expect("source"), kind, wi, k) {
        Ok(r) => r,
        Err(c) => return inconsistent(c),
    };
    // statically typed compositions of the same term
    let stat: Result<Option<Sx>, i64> = (|| {
        Ok(match term {
            Term::Base(shape, data) => {
                let (a, b, dump) = tensor_forms::<D>(shape, data, kind, wi, k)?;
                let c = canonical.list().unwrap();
                if c[0] != a || c[1] != b || dump.is_some_and(|d| d != c[2]) {
                    return Err(930);
                }
                Some(forms::<Leaf<D>, D>(&|| leaf::<D>(shape, data).ok().unwrap(), kind, wi, k)?)
            }
            Term::Rev(inner, names) => match &**inner {
                Term::Base(shape, data) => {
                    let names: Vec<&'static str> = names.iter().map(|n| dim(*n)).collect();
                    Some(forms::<TensorReverse<i64, Leaf<D>, D>, D>(
                        &|| {
                            let (r, p) = leaf::<D>(shape, data).ok().unwrap();
                            (TensorReverse::from(r, &names), p)
                        },
                        kind, wi, k,
                    )?)
                }
                Term::Access(inner2, order) => match &**inner2 {
                    Term::Base(shape, data) => {
                        let names: Vec<&'static str> = names.iter().map(|n| dim(*n)).collect();
                        Some(forms::<TensorReverse<i64, TensorAccess<i64, Leaf<D>, D>, D>, D>(
                            &|| {
                                let (r, p) = leaf::<D>(shape, data).ok().unwrap();
                                (TensorReverse::from(TensorAccess::from(r, names_arr(order)), &names), p)
                            },
                            kind, wi, k,
                        )?)
                    }
                    _ => None,
                },
                _ => None,
            },
            Term::Range(inner, ranges) => match &**inner {
                Term::Base(shape, data) => Some(forms::<TensorRange<i64, Leaf<D>, D>, D>(
                    &|| {
                        let (r, p) = leaf::<D>(shape, data).ok().unwrap();
                        let ranges: [Option<(usize, usize)>; D] = std::array::from_fn(|d| Some(ranges[d]));
                        (TensorRange::from_all(r, ranges).ok().unwrap(), p)
                    },
                    kind, wi, k,
                )?),
                Term::Rev(inner2, names) => match &**inner2 {
                    Term::Base(shape, data) => {
                        let names: Vec<&'static str> = names.iter().map(|n| dim(*n)).collect();
                        Some(forms::<TensorRange<i64, TensorReverse<i64, Leaf<D>, D>, D>, D>(
                            &|| {
                                let (r, p) = leaf::<D>(shape, data).ok().unwrap();
                                let ranges: [Option<(usize, usize)>; D] = std::array::from_fn(|d| Some(ranges[d]));
                                (TensorRange::from_all(TensorReverse::from(r, &names), ranges).ok().unwrap(), p)
                            },
                            kind, wi, k,
                        )?)
                    }
                    _ => None,
                },
                _ => None,
            },
            Term::Access(inner, names) => match &**inner {
                Term::Base(shape, data) => {
                    if let Some(r) = access_forms::<D>(shape, data, names, kind, wi, k)? {
                        if r != canonical {
                            return Err(931);
                        }
                    }
                    Some(forms::<TensorAccess<i64, Leaf<D>, D>, D>(
                        &|| {
                            let (r, p) = leaf::<D>(shape, data).ok().unwrap();
                            (TensorAccess::from(r, names_arr(names)), p)
                        },
                        kind, wi, k,
                    )?)
                }
                _ => None,
            },
            Term::Transpose(inner, names) => match &**inner {
                Term::Base(shape, data) => Some(forms::<TensorTranspose<i64, Leaf<D>, D>, D>(
                    &|| {
                        let (r, p) = leaf::<D>(shape, data).ok().unwrap();
                        (TensorTranspose::from(r, names_arr(names)), p)
                    },
                    kind, wi, k,
                )?),
                Term::Range(inner2, ranges) => match &**inner2 {
                    Term::Base(shape, data) => {
                        Some(forms::<TensorTranspose<i64, TensorRange<i64, Leaf<D>, D>, D>, D>(
                            &|| {
                                let (r, p) = leaf::<D>(shape, data).ok().unwrap();
                                let ranges: [Option<(usize, usize)>; D] = std::array::from_fn(|d| Some(ranges[d]));
                                (TensorTranspose::from(TensorRange::from_all(r, ranges).ok().unwrap(), names_arr(names)), p)
                            },
                            kind, wi, k,
                        )?)
                    }
                    _ => None,
                },
                _ => None,
            },
            Term::Mask(inner, masks) => match &**inner {
                Term::Base(shape, data) => Some(forms::<TensorMask<i64, Leaf<D>, D>, D>(
                    &|| {
                        let (r, p) = leaf::<D>(shape, data).ok().unwrap();
                        let masks: [Option<(usize, usize)>; D] = std::array::from_fn(|d| Some(masks[d]));
                        (TensorMask::from_all(r, masks).ok().unwrap(), p)
                    },
                    kind, wi, k,
                )?),
                _ => None,
            },
            Term::Rename(inner, names) => match &**inner {
                Term::Base(shape, data) => Some(forms::<TensorRename<i64, Leaf<D>, D>, D>(
                    &|| {
                        let (r, p) = leaf::<D>(shape, data).ok().unwrap();
                        (TensorRename::from(r, names_arr(names)), p)
                    },
                    kind, wi, k,
                )?),
                _ => None,
            },
        })
    })();
    match stat {
        Err(c) => inconsistent(c),
        Ok(Some(r)) if r != canonical => inconsistent(932),
        Ok(_) => ok(canonical),
    }
}
