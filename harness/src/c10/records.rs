//! C10 wave 4: the record-container constructors built on the owning iterators.
//!   (10 11 variables rows cols data leaf (wrapper…) (r0 rl c0 cl))   RecordMatrix::constants / ::variables
//!        over a C12 view stack (c09/over_mviews.rs `build`), then RecordMatrix::from_existing over
//!        MatrixRange::from(record, (r0, rl), (c0, cl)); the source is wrapped in `Counting`, which
//!        counts every element access: a constructor that REJECTS its (empty) argument must not have
//!        touched any element before (code 1110).
//!   (10 12 variables src (range…))   RecordTensor::constants / ::variables over a tensor source term
//!        (c09/tsrc.rs), then RecordTensor::from_existing over TensorRange::from_all(record, ranges).
//! Every container is walked to exhaustion + 3 more next() calls by every iterator of the record
//! API (raw (T, Index) iterators in both orders, shared / mutable / owned, WithIndex, AsRecords);
//! all walks must agree (codes 1100..1139).
use super::iter_forms::c09::matrix::{MDyn, Ptr};
use super::iter_forms::c09::over_mviews::{build, free, leaf, wrapper};
use super::iter_forms::c09::tsrc::{build_dyn, parse_term, Fail, Term};
use crate::guarded;
use crate::sx::*;
use easy_ml::differentiation::{RecordMatrix, RecordTensor, WengertList};
use easy_ml::matrices::iterators::*;
use easy_ml::matrices::views::{DataLayout, MatrixMut, MatrixRange, MatrixRef, MatrixView, NoInteriorMutability};
use easy_ml::tensors::indexing::{TensorIterator, TensorOwnedIterator, TensorReferenceIterator, TensorReferenceMutIterator};
use easy_ml::tensors::views::{TensorRange, TensorRef, TensorView};
use std::cell::Cell;
use std::rc::Rc;

/// Forwards to the wrapped source and counts every element access (checked or unchecked).
struct Counting {
    inner: MDyn,
    accesses: Rc<Cell<usize>>,
}
unsafe impl NoInteriorMutability for Counting {}
unsafe impl MatrixRef<i64> for Counting {
    fn try_get_reference(&self, row: usize, column: usize) -> Option<&i64> {
        self.accesses.set(self.accesses.get() + 1);
        self.inner.try_get_reference(row, column)
    }
    fn view_rows(&self) -> usize {
        self.inner.view_rows()
    }
    fn view_columns(&self) -> usize {
        self.inner.view_columns()
    }
    unsafe fn get_reference_unchecked(&self, row: usize, column: usize) -> &i64 {
        self.accesses.set(self.accesses.get() + 1);
        unsafe { self.inner.get_reference_unchecked(row, column) }
    }
    fn data_layout(&self) -> DataLayout {
        self.inner.data_layout()
    }
}
unsafe impl MatrixMut<i64> for Counting {
    fn try_get_reference_mut(&mut self, row: usize, column: usize) -> Option<&mut i64> {
        self.accesses.set(self.accesses.get() + 1);
        self.inner.try_get_reference_mut(row, column)
    }
    unsafe fn get_reference_unchecked_mut(&mut self, row: usize, column: usize) -> &mut i64 {
        self.accesses.set(self.accesses.get() + 1);
        unsafe { self.inner.get_reference_unchecked_mut(row, column) }
    }
}

type Rec = (i64, usize);

/// walks to exhaustion (at most `bound` items) plus 3 more calls of next()
fn exhaust<I: Iterator>(mut it: I, bound: usize, code: i64) -> Result<Vec<I::Item>, i64> {
    let mut out = vec![];
    while let Some(x) = it.next() {
        out.push(x);
        if out.len() > bound {
            return Err(code);
        }
    }
    for _ in 0..3 {
        if it.next().is_some() {
            return Err(code + 1);
        }
    }
    Ok(out)
}

fn recs_sx(v: &[Rec]) -> Sx {
    l(v.iter().map(|(x, i)| l(vec![z(*x), z(*i)])).collect())
}

/// every iterator of the record API over one RecordMatrix; returns (rows, cols, row-major elements)
fn walk_matrix<S>(mut rm: RecordMatrix<'_, i64, S>, base: i64) -> Result<Sx, i64>
where
    S: MatrixMut<Rec> + NoInteriorMutability,
{
    let (rows, cols) = (rm.view_rows(), rm.view_columns());
    let n = rows * cols;
    let a: Vec<Rec> = exhaust(RowMajorIterator::from(&rm), n, base)?;
    if a.len() != n {
        return Err(base + 2);
    }
    let transposed = |v: Vec<((usize, usize), Rec)>| -> Result<Vec<Rec>, i64> {
        // column-major items with their indexes, re-ordered to row-major
        let mut out: Vec<Option<Rec>> = vec![None; n];
        for ((r, c), x) in v {
            if r >= rows || c >= cols || out[r * cols + c].is_some() {
                return Err(base + 3);
            }
            out[r * cols + c] = Some(x);
        }
        out.into_iter().collect::<Option<Vec<_>>>().ok_or(base + 4)
    };
    let b = transposed(exhaust(ColumnMajorIterator::from(&rm).with_index(), n, base + 5)?)?;
    let c: Vec<Rec> = exhaust(rm.iter_row_major_as_records().map(|r| (r.number, r.index)), n, base + 7)?;
    let d = transposed(exhaust(rm.iter_column_major_as_records().with_index().map(|(i, r)| (i, (r.number, r.index))), n, base + 9)?)?;
    let e: Vec<Rec> = exhaust(rm.view().row_major_reference_iter().map(|r| *r), n, base + 11)?;
    let f: Vec<Rec> = exhaust(RowMajorReferenceIterator::from(&rm).with_index().map(|(_, r)| *r), n, base + 13)?;
    let g = transposed(exhaust(ColumnMajorReferenceIterator::from(&rm).with_index().map(|(i, r)| (i, *r)), n, base + 15)?)?;
    let h: Vec<Rec> = exhaust(RowMajorReferenceMutIterator::from(&mut rm).map(|r| *r), n, base + 17)?;
    let i = transposed(exhaust(ColumnMajorReferenceMutIterator::from(&mut rm).with_index().map(|(i, r)| (i, *r)), n, base + 19)?)?;
    let j = transposed(exhaust(ColumnMajorOwnedIterator::from(&mut rm).with_index(), n, base + 21)?)?;
    // the owning walk above left placeholders; the consuming one must still visit n places
    let k = exhaust(RowMajorOwnedIterator::from(rm), n, base + 23)?;
    for other in [&b, &c, &d, &e, &f, &g, &h, &i, &j] {
        if other != &a {
            return Err(base + 25);
        }
    }
    if k.len() != n || k.iter().any(|x| *x != (0, 0)) {
        return Err(base + 26);
    }
    Ok(l(vec![z(rows), z(cols), recs_sx(&a)]))
}

pub fn matrix(args: &[Sx]) -> Sx {
    let (Some(variables), Some(rows), Some(cols), Some(data)) = (args[1].bool(), args[2].usize(), args[3].usize(), args[4].i64s()) else {
        return bad_case();
    };
    let (Some(lf), Some(ws), Some(sub)) = (
        leaf(&args[5]),
        args[6].list().and_then(|v| v.iter().map(wrapper).collect::<Option<Vec<_>>>()),
        args[7].usizes(),
    ) else {
        return bad_case();
    };
    if sub.len() != 4 || rows == 0 || cols == 0 || rows > 64 || cols > 64 || rows * cols != data.len() {
        return bad_case();
    }
    match build(rows, cols, &data, &lf, &ws) {
        Err(line) => return line,
        Ok((s, p)) => {
            drop(s);
            free(p);
        }
    }
    let list = WengertList::<i64>::new();
    let list2 = WengertList::<i64>::new();
    let r: Result<Sx, i64> = (|| {
        let mk = |counter: &Rc<Cell<usize>>| -> (Counting, Ptr) {
            let (inner, p) = build(rows, cols, &data, &lf, &ws).ok().expect("stack");
            (Counting { inner, accesses: counter.clone() }, p)
        };
        let make = |counter: &Rc<Cell<usize>>, second: bool| {
            let list = if second { &list2 } else { &list };
            let (s, p) = mk(counter);
            let empty = s.view_rows() == 0 || s.view_columns() == 0;
            let made = guarded(|| if variables { RecordMatrix::variables(list, s) } else { RecordMatrix::constants(s) });
            free(p);
            (made, empty)
        };
        let counter = Rc::new(Cell::new(0));
        let (made, empty) = make(&counter, false);
        let Some(rm) = made else {
            // rejected: nothing may have been read before the argument check fired
            if counter.get() != 0 {
                return Err(1110);
            }
            return Ok(panicked());
        };
        if empty {
            return Err(1111);
        }
        let first = walk_matrix(rm, 1120)?;
        // from_existing over a (possibly empty) range of a second, identical container (own list)
        let (made, _) = make(&counter, true);
        let Some(rm) = made else { return Err(1112) };
        let history = rm.history();
        let ranged = MatrixRange::from(rm, (sub[0], sub[1]), (sub[2], sub[3]));
        let again = RecordMatrix::from_existing(history, MatrixView::from(ranged));
        let second = walk_matrix(again, 1150)?;
        Ok(l(vec![z(0), first, second]))
    })();
    match r {
        Ok(x) => ok(x),
        Err(c) => inconsistent(c),
    }
}

fn shape_sx<const D: usize>(shape: &[(&'static str, usize); D]) -> Sx {
    l(shape.iter().map(|(n, len)| l(vec![z(undim(n)), z(*len)])).collect())
}

fn walk_tensor<S, const D: usize>(mut rt: RecordTensor<'_, i64, S, D>, base: i64) -> Result<(Sx, Sx), i64>
where
    S: easy_ml::tensors::views::TensorMut<Rec, D>,
{
    let shape = rt.view_shape();
    let n = shape.iter().map(|d| d.1).product::<usize>();
    let a: Vec<Rec> = exhaust(TensorIterator::from(&rt), n, base)?;
    if a.len() != n {
        return Err(base + 2);
    }
    let b: Vec<Rec> = exhaust(rt.iter_as_records().map(|r| (r.number, r.index)), n, base + 3)?;
    let c: Vec<Rec> = exhaust(TensorReferenceIterator::from(&rt).with_index().map(|(_, r)| *r), n, base + 5)?;
    let d: Vec<Rec> = exhaust(rt.view().iter(), n, base + 7)?;
    let e: Vec<Rec> = exhaust(TensorReferenceMutIterator::from(&mut rt).map(|r| *r), n, base + 9)?;
    let f: Vec<Rec> = exhaust(TensorOwnedIterator::from(&mut rt).with_index().map(|(_, x)| x), n, base + 11)?;
    let g = exhaust(TensorOwnedIterator::from(rt), n, base + 13)?;
    for other in [&b, &c, &d, &e, &f] {
        if other != &a {
            return Err(base + 15);
        }
    }
    if g.len() != n || g.iter().any(|x| *x != (0, 0)) {
        return Err(base + 16);
    }
    Ok((shape_sx(&shape), recs_sx(&a)))
}

fn tensor_d<const D: usize>(variables: bool, term: &Term, ranges: &[(usize, usize)]) -> Sx {
    match build_dyn::<D>(term) {
        Err(Fail::Panic) => return panicked(),
        Err(Fail::Err(e)) => return err(e),
        Ok((s, p)) => {
            drop(s);
            drop(unsafe { Box::from_raw(p) });
        }
    }
    let list = WengertList::<i64>::new();
    let list2 = WengertList::<i64>::new();
    let r: Result<Sx, i64> = (|| {
        let make = |second: bool| {
            let list = if second { &list2 } else { &list };
            let (s, p) = build_dyn::<D>(term).ok().expect("source");
            let made = guarded(|| if variables { RecordTensor::variables(list, s) } else { RecordTensor::constants(s) });
            drop(unsafe { Box::from_raw(p) });
            made
        };
        let Some(rt) = make(false) else { return Err(1180) };
        let (shape, first) = walk_tensor(rt, 1200)?;
        let Some(rt) = make(true) else { return Err(1181) };
        let history = rt.history();
        let rg: [Option<(usize, usize)>; D] = std::array::from_fn(|d| Some(ranges[d]));
        let inner = match TensorRange::from_all(rt, rg) {
            Err(_) => l(vec![z(1)]),
            Ok(ranged) => {
                let again = RecordTensor::from_existing(history, TensorView::from(ranged));
                let (shape2, second) = walk_tensor(again, 1230)?;
                l(vec![z(0), l(vec![shape2, second])])
            }
        };
        Ok(l(vec![shape, first, inner]))
    })();
    match r {
        Ok(x) => ok(x),
        Err(c) => inconsistent(c),
    }
}

pub fn tensor(args: &[Sx]) -> Sx {
    let (Some(variables), Some(term), Some(ranges)) = (args[1].bool(), parse_term(&args[2]), args[3].pairs_usize()) else {
        return bad_case();
    };
    let d = term.base_d();
    if ranges.len() != d {
        return bad_case();
    }
    crate::with_d!(d, tensor_d(variables, &term, &ranges))
}
