//! implrun: executes case lines (stdin) against the real easy-ml crate and prints one canonical
//! result line per case (stdout). Every case runs under catch_unwind; a panic raised by the
//! verification hook inside an unchecked accessor is reported as `(-9)` (never a model result).
mod sx;
mod num;
mod shapes;
mod c00;
#[cfg(feature = "c01")] mod c01;
#[cfg(feature = "c02")] mod c02;
#[cfg(feature = "c03")] mod c03;
#[cfg(feature = "c04")] mod c04;
#[cfg(feature = "c05")] mod c05;
#[cfg(feature = "c06")] mod c06;
#[cfg(feature = "c07")] mod c07;
#[cfg(feature = "c08")] mod c08;
#[cfg(feature = "c09")] mod c09;
#[cfg(feature = "c10")] mod c10;
#[cfg(feature = "c11")] mod c11;
#[cfg(feature = "c12")] mod c12;
#[cfg(feature = "c13")] mod c13;
#[cfg(feature = "c14")] mod c14;
#[cfg(feature = "c15")] mod c15;
#[cfg(feature = "c16")] mod c16;
#[cfg(feature = "c17")] mod c17;
#[cfg(feature = "c18")] mod c18;
#[cfg(feature = "c19")] mod c19;
#[cfg(feature = "c20")] mod c20;

use std::cell::RefCell;
use std::io::{BufRead, Write};
use std::panic::{catch_unwind, AssertUnwindSafe};
use sx::Sx;

thread_local! {
    static LAST_PANIC: RefCell<Option<String>> = const { RefCell::new(None) };
    static HOOK_FIRED: RefCell<Option<String>> = const { RefCell::new(None) };
}

fn install_panic_hook() {
    std::panic::set_hook(Box::new(|info| {
        let msg = if let Some(s) = info.payload().downcast_ref::<&str>() {
            s.to_string()
        } else if let Some(s) = info.payload().downcast_ref::<String>() {
            s.clone()
        } else {
            "<non-string panic>".to_string()
        };
        if msg.starts_with("EASYML-VERIF-HOOK") {
            HOOK_FIRED.with(|h| *h.borrow_mut() = Some(msg.clone()));
        }
        LAST_PANIC.with(|h| *h.borrow_mut() = Some(msg));
    }));
}

/// Runs `f`, returning None if it panicked. Hook panics stay recorded for the whole case.
pub fn guarded<R>(f: impl FnOnce() -> R) -> Option<R> {
    catch_unwind(AssertUnwindSafe(f)).ok()
}

fn dispatch(case: &Sx) -> Sx {
    let items = match case.list() {
        Some(v) if !v.is_empty() => v,
        _ => return sx::bad_case(),
    };
    match items[0].i64() {
        Some(0) => c00::run(&items[1..]),
        #[cfg(feature = "c01")]
        Some(1) => c01::run(&items[1..]),
        #[cfg(feature = "c02")]
        Some(2) => c02::run(&items[1..]),
        #[cfg(feature = "c03")]
        Some(3) => c03::run(&items[1..]),
        #[cfg(feature = "c04")]
        Some(4) => c04::run(&items[1..]),
        #[cfg(feature = "c05")]
        Some(5) => c05::run(&items[1..]),
        #[cfg(feature = "c06")]
        Some(6) => c06::run(&items[1..]),
        #[cfg(feature = "c07")]
        Some(7) => c07::run(&items[1..]),
        #[cfg(feature = "c08")]
        Some(8) => c08::run(&items[1..]),
        #[cfg(feature = "c09")]
        Some(9) => c09::run(&items[1..]),
        #[cfg(feature = "c10")]
        Some(10) => c10::run(&items[1..]),
        #[cfg(feature = "c11")]
        Some(11) => c11::run(&items[1..]),
        #[cfg(feature = "c12")]
        Some(12) => c12::run(&items[1..]),
        #[cfg(feature = "c13")]
        Some(13) => c13::run(&items[1..]),
        #[cfg(feature = "c14")]
        Some(14) => c14::run(&items[1..]),
        #[cfg(feature = "c15")]
        Some(15) => c15::run(&items[1..]),
        #[cfg(feature = "c16")]
        Some(16) => c16::run(&items[1..]),
        #[cfg(feature = "c17")]
        Some(17) => c17::run(&items[1..]),
        #[cfg(feature = "c18")]
        Some(18) => c18::run(&items[1..]),
        #[cfg(feature = "c19")]
        Some(19) => c19::run(&items[1..]),
        #[cfg(feature = "c20")]
        Some(20) => c20::run(&items[1..]),
        _ => sx::bad_case(),
    }
}

fn main() {
    install_panic_hook();
    let stdin = std::io::stdin();
    let stdout = std::io::stdout();
    let mut out = std::io::BufWriter::new(stdout.lock());
    let rename_enabled = std::env::var("VERIF_SINGLE_NAMING").is_err();
    for line in stdin.lock().lines() {
        let line = line.expect("read");
        let line = line.trim();
        if line.is_empty() {
            continue;
        }
        HOOK_FIRED.with(|h| *h.borrow_mut() = None);
        sx::set_naming(0);
        let run_case = |case: &Sx| match guarded(|| dispatch(case)) {
            Some(r) => r.to_string(),
            None => {
                let msg = LAST_PANIC.with(|h| h.borrow().clone()).unwrap_or_default();
                format!("(-7) ; uncaught panic in harness: {}", msg.replace('\n', " "))
            }
        };
        let mut result = match sx::parse(line) {
            Err(e) => format!("(-3) ; parse: {e}"),
            Ok(case) => {
                let a = run_case(&case);
                // naming parametricity: the same case with the dimension ids rendered as names the
                // crate uses internally must give the identical result (C18 / C20 cases carry
                // name TEXT in their results and are exempt)
                let prop = case.list().and_then(|v| v.first()).and_then(|x| x.i64()).unwrap_or(0);
                let hooked = HOOK_FIRED.with(|h| h.borrow().is_some());
                if rename_enabled && !hooked && prop != 18 && prop != 20 && prop != 0 {
                    sx::set_naming(1);
                    let b = run_case(&case);
                    sx::set_naming(0);
                    let strip = |s: &str| s.split(" ; ").next().unwrap_or("").trim().to_string();
                    if strip(&a) != strip(&b) {
                        format!("(-8 9001) ; result depends on the dimension NAMES: with d<n> names {} ; with crate-internal names {}", strip(&a), b.replace(" ; ", " | "))
                    } else {
                        a
                    }
                } else {
                    a
                }
            }
        };
        if result.is_empty() {
            result = "(-3)".to_string();
        }
        let hook = HOOK_FIRED.with(|h| h.borrow().clone());
        match hook {
            Some(msg) => writeln!(out, "(-9) ; {} ; result was {}", msg.replace('\n', " "), result).unwrap(),
            None => writeln!(out, "{}", result).unwrap(),
        }
        out.flush().unwrap();
    }
}
