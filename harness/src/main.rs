//! implrun: executes case lines (stdin) against the real easy-ml crate and prints one canonical
//! result line per case (stdout). Every case runs under catch_unwind; a panic raised by the
//! verification hook inside an unchecked accessor is reported as `(-9)` (never a model result).
mod sx;
mod c01;

use std::cell::RefCell;
use std::io::{BufRead, Write};
use std::panic::{catch_unwind, AssertUnwindSafe};
use sx::Sx;

thread_local! {
    static LAST_PANIC: RefCell<Option<String>> = const { RefCell::new(None) };
    static HOOK_FIRED: RefCell<Option<String>> = const { RefCell::new(None) };
}

fn install_panic_hook() {
    std::panic::set_hook(Box::new(|info| {
        let msg = if let Some(s) = info.payload().downcast_ref::<&str>() {
            s.to_string()
        } else if let Some(s) = info.payload().downcast_ref::<String>() {
            s.clone()
        } else {
            "<non-string panic>".to_string()
        };
        if msg.starts_with("EASYML-VERIF-HOOK") {
            HOOK_FIRED.with(|h| *h.borrow_mut() = Some(msg.clone()));
        }
        LAST_PANIC.with(|h| *h.borrow_mut() = Some(msg));
    }));
}

/// Runs `f`, returning None if it panicked. Hook panics stay recorded for the whole case.
pub fn guarded<R>(f: impl FnOnce() -> R) -> Option<R> {
    catch_unwind(AssertUnwindSafe(f)).ok()
}

fn dispatch(case: &Sx) -> Sx {
    let items = match case.list() {
        Some(v) if !v.is_empty() => v,
        _ => return sx::bad_case(),
    };
    match items[0].i64() {
        Some(1) => c01::run(&items[1..]),
        _ => sx::bad_case(),
    }
}

fn main() {
    install_panic_hook();
    let stdin = std::io::stdin();
    let stdout = std::io::stdout();
    let mut out = std::io::BufWriter::new(stdout.lock());
    for line in stdin.lock().lines() {
        let line = line.expect("read");
        let line = line.trim();
        if line.is_empty() {
            continue;
        }
        HOOK_FIRED.with(|h| *h.borrow_mut() = None);
        let result = match sx::parse(line) {
            Err(e) => format!("(-3) ; parse: {e}"),
            Ok(case) => match guarded(|| dispatch(&case)) {
                Some(r) => r.to_string(),
                None => {
                    let msg = LAST_PANIC.with(|h| h.borrow().clone()).unwrap_or_default();
                    format!("(-7) ; uncaught panic in harness: {}", msg.replace('\n', " "))
                }
            },
        };
        let hook = HOOK_FIRED.with(|h| h.borrow().clone());
        match hook {
            Some(msg) => writeln!(out, "(-9) ; {} ; result was {}", msg.replace('\n', " "), result).unwrap(),
            None => writeln!(out, "{}", result).unwrap(),
        }
        out.flush().unwrap();
    }
}
