//! C14: mean, variance, covariance (three entry points), softmax, f1_score on exact element types.
//!   (14 1 ty (x ..))            mean      -> outcome value
//!   (14 2 ty (x ..))            variance  -> outcome value
//!   (14 3 ty (n0 n1) rows fd)   -> (outcome row_features, outcome column_features,
//!                                   outcome (shape data) of covariance(tensor, fd))
//!   (14 4 ty route (n0 n1) rows fd)  one covariance route only (0 rows, 1 columns, 2 tensor)
//!   (14 5 ty (x ..))            softmax   -> list
//!   (14 6 ty p r)               f1_score  -> value
//!   (14 7 ((m e) ..))           float oracle: softmax over f64 values m * 10^e -> four 0/1 flags
//! FLOAT tier (fty 0 = f64, 1 = f32; numbers (m e) = the decimal m * 10^e rounded to the type):
//!   (14 8 fty (x ..))           mean + variance, non-empty -> (mean-ok variance-ok forms-agree)
//!   (14 9 fty rows)             covariance, all routes -> (values-ok symmetric diagonal-is-variance routes-agree)
//!   (14 10 fty p r)             f1_score -> (value-ok)
//!   (14 11 fty (x ..))          softmax -> (length finite-nonneg sums-to-one order closed-form)
//! The references are the population formulas evaluated EXACTLY (big integers) on the rounded inputs.
//! Every input form that must agree is exercised and cross-checked here (`inconsistent(code)`).
use crate::guarded;
use crate::num::{dec_list, enc_list, Enc};
use crate::sx::*;
use crate::with_ty;
use easy_ml::interop::TensorRefMatrix;
use easy_ml::linear_algebra;
use easy_ml::matrices::views::MatrixView;
use easy_ml::matrices::Matrix;
use easy_ml::numeric::extra::{Real, RealRef};
use easy_ml::tensors::views::TensorView;
use easy_ml::tensors::Tensor;

/// An iterator adaptor that reports a chosen size hint (None: the trait's default `(0, None)`),
/// possibly a LYING one: the statistics must depend on the items only.
struct Hinted<I> {
    it: I,
    hint: Option<(usize, Option<usize>)>,
}
impl<I: Iterator> Iterator for Hinted<I> {
    type Item = I::Item;
    fn next(&mut self) -> Option<I::Item> {
        self.it.next()
    }
    fn size_hint(&self) -> (usize, Option<usize>) {
        self.hint.unwrap_or((0, None))
    }
}
fn hints(n: usize) -> Vec<Option<(usize, Option<usize>)>> {
    vec![
        None,
        Some((0, Some(n + 5))),
        Some((n, None)),
        Some((n.saturating_sub(1), Some(n.saturating_sub(1)))), // exact but too small
        Some((n + 1, Some(n + 1))),                             // exact but too large
        Some((0, Some(0))),
    ]
}

pub fn run(args: &[Sx]) -> Sx {
    if args.len() < 2 {
        return bad_case();
    }
    if args[0].i64() == Some(7) && args.len() == 2 {
        return float_oracle(&args[1]);
    }
    if let (Some(op @ 8..=11), Some(fty)) = (args[0].i64(), args[1].i64()) {
        // FLOAT tier (fty 0 = f64, 1 = f32): see `float_tier` at the end of this file
        return match fty {
            0 => float_tier::<f64>(op, &args[2..]),
            1 => float_tier::<f32>(op, &args[2..]),
            _ => bad_case(),
        };
    }
    let (Some(op), Some(ty)) = (args[0].i64(), args[1].i64()) else { return bad_case() };
    with_ty!(ty, go(op, &args[2..]))
}

/// Property oracle on f64 (large magnitudes, stability): same length, finite and non-negative,
/// sums to one within 1e-9, order preserved (weakly: tiny values may underflow to equal outputs).
/// Floats are never printed or compared with the model: only the four flags are.
fn float_oracle(xs: &Sx) -> Sx {
    let Some(items) = xs.list() else { return bad_case() };
    let mut data: Vec<f64> = vec![];
    for it in items {
        let Some(p) = it.list() else { return bad_case() };
        if p.len() != 2 {
            return bad_case();
        }
        let (Some(m), Some(e)) = (p[0].i64(), p[1].i64()) else { return bad_case() };
        let Ok(v) = format!("{}e{}", m, e).parse::<f64>() else { return bad_case() };
        if !v.is_finite() {
            return bad_case();
        }
        data.push(v);
    }
    let out = linear_algebra::softmax(data.iter().cloned());
    let len_ok = out.len() == data.len();
    let nonneg = out.iter().all(|y| y.is_finite() && *y >= 0.0);
    let sum: f64 = out.iter().sum();
    // summing N <= ~1000 outputs each within a few units in the last place: 1e-12 is ample
    let sums = if data.is_empty() { out.is_empty() } else { (sum - 1.0).abs() < 1e-12 };
    let mut order = len_ok;
    if len_ok {
        for i in 0..data.len() {
            for j in 0..data.len() {
                if data[i] < data[j] && !(out[i] <= out[j]) {
                    order = false;
                }
                if data[i] == data[j] && out[i] != out[j] {
                    order = false;
                }
            }
        }
    }
    l(vec![boolean(len_ok), boolean(nonneg), boolean(sums), boolean(order)])
}

fn outcome<T: Enc>(r: Option<T>) -> Sx {
    match r {
        Some(v) => ok(v.enc()),
        None => panicked(),
    }
}

fn go<T>(op: i64, args: &[Sx]) -> Sx
where
    T: Real + Enc + PartialEq + std::fmt::Debug + std::panic::RefUnwindSafe,
    for<'a> &'a T: RealRef<T>,
{
    match (op, args.len()) {
        (1, 1) | (2, 1) => {
            let Some(data) = dec_list::<T>(&args[0]) else { return bad_case() };
            stat::<T>(op, data)
        }
        (3, 3) => {
            let Some(names) = args[0].usizes() else { return bad_case() };
            let Some(rows) = args[1].list() else { return bad_case() };
            let Some(rows) = rows.iter().map(dec_list::<T>).collect::<Option<Vec<Vec<T>>>>() else {
                return bad_case();
            };
            let Some(fd) = args[2].usize() else { return bad_case() };
            if names.len() != 2 || names[0] == names[1] || rows.is_empty() || rows[0].is_empty() {
                return bad_case();
            }
            if rows.iter().any(|r| r.len() != rows[0].len()) {
                return bad_case();
            }
            cov::<T>(names[0], names[1], rows, fd)
        }
        (4, 4) => {
            let Some(route) = args[0].i64() else { return bad_case() };
            let Some(names) = args[1].usizes() else { return bad_case() };
            let Some(rows) = args[2].list() else { return bad_case() };
            let Some(rows) = rows.iter().map(dec_list::<T>).collect::<Option<Vec<Vec<T>>>>() else {
                return bad_case();
            };
            let Some(fd) = args[3].usize() else { return bad_case() };
            if names.len() != 2 || names[0] == names[1] || rows.is_empty() || rows[0].is_empty() {
                return bad_case();
            }
            if rows.iter().any(|r| r.len() != rows[0].len()) {
                return bad_case();
            }
            let (r, c) = (rows.len(), rows[0].len());
            let flat: Vec<T> = rows.iter().flatten().cloned().collect();
            match route {
                0 | 1 => {
                    let matrix = Matrix::from(rows.clone());
                    let res = guarded(|| {
                        if route == 0 {
                            linear_algebra::covariance_row_features::<T>(&matrix)
                        } else {
                            linear_algebra::covariance_column_features::<T>(&matrix)
                        }
                    });
                    // the other entry point on the transposed data must agree
                    let transposed = matrix.transpose();
                    let other = guarded(|| {
                        if route == 0 {
                            linear_algebra::covariance_column_features::<T>(&transposed)
                        } else {
                            linear_algebra::covariance_row_features::<T>(&transposed)
                        }
                    });
                    if other != res {
                        return inconsistent(401);
                    }
                    match &res {
                        Some(m) => ok(mat_sx(m)),
                        None => panicked(),
                    }
                }
                2 => {
                    let tensor = Tensor::from([(dim(names[0]), r), (dim(names[1]), c)], flat);
                    let res = guarded(|| linear_algebra::covariance::<T, _, _>(&tensor, dim(fd)));
                    if guarded(|| TensorView::from(&tensor).covariance(dim(fd))) != res {
                        return inconsistent(402);
                    }
                    match &res {
                        Some(t) => ok(tensor_sx(t)),
                        None => panicked(),
                    }
                }
                _ => bad_case(),
            }
        }
        (5, 1) => {
            let Some(data) = dec_list::<T>(&args[0]) else { return bad_case() };
            let r = linear_algebra::softmax::<_, T>(data.iter().cloned());
            // other iterator sources
            if !data.is_empty() {
                let m = Matrix::row(data.clone());
                if linear_algebra::softmax::<_, T>(m.row_iter(0)) != r {
                    return inconsistent(501);
                }
                let t = Tensor::from([(dim(0), data.len())], data.clone());
                if linear_algebra::softmax::<_, T>(t.iter()) != r {
                    return inconsistent(502);
                }
            }
            if linear_algebra::softmax::<_, T>(data.iter().cloned().filter(|_| true)) != r {
                return inconsistent(504);
            }
            for (n, hint) in hints(data.len()).into_iter().enumerate() {
                if linear_algebra::softmax::<_, T>(Hinted { it: data.iter().cloned(), hint }) != r {
                    return inconsistent(510 + n as i64);
                }
            }
            if linear_algebra::softmax::<_, T>(data.into_iter()) != r {
                return inconsistent(503);
            }
            enc_list(&r)
        }
        (6, 2) => {
            let (Some(p), Some(r)) = (T::dec(&args[0]), T::dec(&args[1])) else { return bad_case() };
            linear_algebra::f1_score::<T>(p, r).enc()
        }
        _ => bad_case(),
    }
}

/// mean / variance through several iterator sources: Vec, Matrix row and column iterators,
/// a MatrixView, a 1-dimensional Tensor and a TensorView.
fn stat<T>(op: i64, data: Vec<T>) -> Sx
where
    T: Real + Enc + PartialEq + std::fmt::Debug + std::panic::RefUnwindSafe,
    for<'a> &'a T: RealRef<T>,
{
    fn f<T: Real, I: Iterator<Item = T>>(op: i64, it: I) -> T
    where
        for<'a> &'a T: RealRef<T>,
    {
        if op == 1 {
            linear_algebra::mean::<I, T>(it)
        } else {
            linear_algebra::variance::<I, T>(it)
        }
    }
    let canonical: Option<T> = guarded(|| f::<T, _>(op, data.iter().cloned()));
    if guarded(|| f::<T, _>(op, data.clone().into_iter())) != canonical {
        return inconsistent(101);
    }
    // iterators WITHOUT an exact size hint, and with lying ones
    if guarded(|| f::<T, _>(op, data.iter().cloned().filter(|_| true))) != canonical {
        return inconsistent(110);
    }
    if guarded(|| f::<T, _>(op, data.iter().cloned().take_while(|_| true))) != canonical {
        return inconsistent(111);
    }
    if guarded(|| f::<T, _>(op, data.iter().cloned().skip_while(|_| false))) != canonical {
        return inconsistent(112);
    }
    if guarded(|| f::<T, _>(op, data.iter().flat_map(|x| std::iter::once(x.clone())))) != canonical {
        return inconsistent(113);
    }
    {
        let mut i = 0;
        let from_fn = std::iter::from_fn(|| {
            i += 1;
            data.get(i - 1).cloned()
        });
        if guarded(std::panic::AssertUnwindSafe(|| f::<T, _>(op, from_fn))) != canonical {
            return inconsistent(114);
        }
    }
    for (n, hint) in hints(data.len()).into_iter().enumerate() {
        if guarded(|| f::<T, _>(op, Hinted { it: data.iter().cloned(), hint })) != canonical {
            return inconsistent(120 + n as i64);
        }
    }
    if guarded(|| f::<T, _>(op, data.iter().cloned().chain(std::iter::empty()).peekable())) != canonical {
        return inconsistent(127);
    }
    if !data.is_empty() {
        let row = Matrix::row(data.clone());
        let col = Matrix::column(data.clone());
        if guarded(|| f::<T, _>(op, row.row_iter(0))) != canonical {
            return inconsistent(102);
        }
        if guarded(|| f::<T, _>(op, col.column_iter(0))) != canonical {
            return inconsistent(103);
        }
        if guarded(|| f::<T, _>(op, row.row_major_iter())) != canonical {
            return inconsistent(104);
        }
        let view = MatrixView::from(&col);
        if guarded(|| f::<T, _>(op, view.column_iter(0))) != canonical {
            return inconsistent(105);
        }
        if guarded(|| f::<T, _>(op, view.row_major_iter())) != canonical {
            return inconsistent(106);
        }
        let t = Tensor::from([(dim(3), data.len())], data.clone());
        if guarded(|| f::<T, _>(op, t.iter())) != canonical {
            return inconsistent(107);
        }
        let tv = TensorView::from(&t);
        if guarded(|| f::<T, _>(op, tv.iter())) != canonical {
            return inconsistent(108);
        }
        if guarded(|| f::<T, _>(op, t.iter_reference().cloned())) != canonical {
            return inconsistent(109);
        }
    }
    outcome(canonical)
}

fn mat_sx<T: Enc + Clone>(m: &Matrix<T>) -> Sx {
    l((0..m.rows()).map(|r| l(m.row_iter(r).map(|x| x.enc()).collect())).collect())
}

fn name_code(n: &str) -> Sx {
    // result names "i" / "j" are reported by their ASCII codes; anything else by -(length)
    if n.len() == 1 {
        z(n.as_bytes()[0] as i64)
    } else {
        z(-(n.len() as i64))
    }
}

fn tensor_sx<T: Enc + Clone>(t: &Tensor<T, 2>) -> Sx {
    let shape = t.shape();
    let data: Vec<T> = t.iter().collect();
    let rows: Vec<Sx> = data.chunks(shape[1].1).map(|c| l(c.iter().map(|x| x.enc()).collect())).collect();
    l(vec![
        l(vec![l(vec![name_code(shape[0].0), z(shape[0].1)]), l(vec![name_code(shape[1].0), z(shape[1].1)])]),
        l(rows),
    ])
}

fn cov<T>(n0: usize, n1: usize, rows: Vec<Vec<T>>, fd: usize) -> Sx
where
    T: Real + Enc + PartialEq + std::fmt::Debug + std::panic::RefUnwindSafe,
    for<'a> &'a T: RealRef<T>,
{
    let r = rows.len();
    let c = rows[0].len();
    let flat: Vec<T> = rows.iter().flatten().cloned().collect();
    let matrix = Matrix::from(rows.clone());
    let transposed = matrix.transpose();

    // ---- matrix entry points
    let rowf = guarded(|| linear_algebra::covariance_row_features::<T>(&matrix));
    let colf = guarded(|| linear_algebra::covariance_column_features::<T>(&matrix));
    if guarded(|| matrix.covariance_row_features()) != rowf {
        return inconsistent(301);
    }
    if guarded(|| matrix.covariance_column_features()) != colf {
        return inconsistent(302);
    }
    // a second construction route of the same matrix
    let matrix2 = Matrix::from_flat_row_major((r, c), flat.clone());
    if guarded(|| matrix2.covariance_row_features()) != rowf || guarded(|| matrix2.covariance_column_features()) != colf {
        return inconsistent(303);
    }
    // a matrix materialised from a MatrixView over a larger matrix (range view)
    {
        let mut padded = Matrix::empty(T::small(7), (r + 2, c + 1));
        for i in 0..r {
            for j in 0..c {
                padded.set(i + 1, j + 1, rows[i][j].clone());
            }
        }
        let view = padded.range(1..(r + 1), 1..(c + 1));
        let from_view = view.map(|x| x);
        if guarded(|| from_view.covariance_row_features()) != rowf
            || guarded(|| from_view.covariance_column_features()) != colf
        {
            return inconsistent(304);
        }
    }
    // the entry points agree under transposition of the data
    if guarded(|| linear_algebra::covariance_column_features::<T>(&transposed)) != rowf {
        return inconsistent(305);
    }
    if guarded(|| linear_algebra::covariance_row_features::<T>(&transposed)) != colf {
        return inconsistent(306);
    }

    // ---- tensor entry point, every input form
    let names = [dim(n0), dim(n1)];
    let fdn = dim(fd);
    let tensor = Tensor::from([(names[0], r), (names[1], c)], flat.clone());
    let canonical: Option<Tensor<T, 2>> = guarded(|| linear_algebra::covariance::<T, _, _>(&tensor, fdn));
    {
        if guarded(|| linear_algebra::covariance::<T, _, _>(tensor.clone(), fdn)) != canonical {
            return inconsistent(310);
        }
        let mut copy = tensor.clone();
        if guarded(|| linear_algebra::covariance::<T, _, _>(&mut copy, fdn)) != canonical {
            return inconsistent(311);
        }
        if guarded(|| tensor.covariance(fdn)) != canonical {
            return inconsistent(312);
        }
        let view = TensorView::from(&tensor);
        if guarded(|| view.covariance(fdn)) != canonical {
            return inconsistent(313);
        }
        if guarded(|| linear_algebra::covariance::<T, _, _>(&view, fdn)) != canonical {
            return inconsistent(314);
        }
        let owned_view = TensorView::from(tensor.clone());
        if guarded(|| linear_algebra::covariance::<T, _, _>(owned_view, fdn)) != canonical {
            return inconsistent(315);
        }
        let mut mut_view = TensorView::from(tensor.clone());
        if guarded(|| linear_algebra::covariance::<T, _, _>(&mut mut_view, fdn)) != canonical {
            return inconsistent(316);
        }
        // a Matrix seen as a tensor with the same names
        let as_tensor = TensorView::from(TensorRefMatrix::with_names(&matrix, names).unwrap());
        if guarded(|| as_tensor.covariance(fdn)) != canonical {
            return inconsistent(317);
        }
        // the transposed data with the names swapped: the feature dimension moves to the other
        // position, the statistics must not change
        let swapped = Tensor::from([(names[1], c), (names[0], r)], transposed.row_major_iter().collect());
        if guarded(|| swapped.covariance(fdn)) != canonical {
            return inconsistent(318);
        }
        // a lazily transposed view (names keep their order, lengths and data swap): selecting
        // the OTHER name on it addresses the same features
        if fd == n0 || fd == n1 {
            let other = if fd == n0 { names[1] } else { names[0] };
            let lazy = tensor.transpose_view([names[1], names[0]]);
            if guarded(|| lazy.covariance(other)) != canonical {
                return inconsistent(319);
            }
        }
        // the named route agrees with the matrix routes
        if let Some(t) = &canonical {
            let expect = if fd == n0 { &rowf } else { &colf };
            match expect {
                Some(m) => {
                    if t.iter().collect::<Vec<T>>() != m.row_major_iter().collect::<Vec<T>>() {
                        return inconsistent(320);
                    }
                }
                None => return inconsistent(321),
            }
        }
    }
    l(vec![
        match &rowf {
            Some(m) => ok(mat_sx(m)),
            None => panicked(),
        },
        match &colf {
            Some(m) => ok(mat_sx(m)),
            None => panicked(),
        },
        match &canonical {
            Some(t) => ok(tensor_sx(t)),
            None => panicked(),
        },
    ])
}

// ------------------------------------------------------------------------------------------
// FLOAT tier.  Over the exact field types every algebraically equivalent rearrangement gives the
// same value (E[x^2] - E[x]^2 IS the variance there); on floats the two-pass code of the crate is
// accurate for data with a large common offset and a one-pass "optimisation" is not.  The
// references are the population formulas evaluated exactly in big-integer arithmetic on the
// rounded inputs; budgets are stated in units of the type's unit roundoff U.
// ------------------------------------------------------------------------------------------
use num_bigint::BigInt;
use num_traits::{Signed, ToPrimitive, Zero};

trait Fl: Real + Copy + PartialEq + PartialOrd + std::fmt::Debug + std::panic::RefUnwindSafe {
    const U: f64;
    const TINY: f64;
    fn parse(m: i64, e: i64) -> Option<Self>;
    fn f(self) -> f64;
    fn bits(self) -> u64;
}
impl Fl for f64 {
    const U: f64 = 1.1102230246251565e-16;
    const TINY: f64 = 1e-300;
    fn parse(m: i64, e: i64) -> Option<f64> {
        format!("{}e{}", m, e).parse::<f64>().ok().filter(|v| v.is_finite())
    }
    fn f(self) -> f64 {
        self
    }
    fn bits(self) -> u64 {
        self.to_bits()
    }
}
impl Fl for f32 {
    const U: f64 = 5.960464477539063e-8;
    const TINY: f64 = 1e-36;
    fn parse(m: i64, e: i64) -> Option<f32> {
        format!("{}e{}", m, e).parse::<f32>().ok().filter(|v| v.is_finite())
    }
    fn f(self) -> f64 {
        self as f64
    }
    fn bits(self) -> u64 {
        self.to_bits() as u64
    }
}
fn dec_me<T: Fl>(s: &Sx) -> Option<T> {
    let p = s.list()?;
    if p.len() != 2 {
        return None;
    }
    T::parse(p[0].i64()?, p[1].i64()?)
}
fn dec_me_list<T: Fl>(s: &Sx) -> Option<Vec<T>> {
    s.list()?.iter().map(dec_me::<T>).collect()
}
/// same bits, or both zero
fn same<T: Fl>(a: T, b: T) -> bool {
    a.bits() == b.bits() || (a.f() == 0.0 && b.f() == 0.0)
}
fn close(got: f64, want: f64, budget: f64) -> bool {
    if want.is_nan() {
        return got.is_nan();
    }
    if want.is_infinite() {
        return got == want;
    }
    (got - want).abs() <= budget
}

/// a finite f64 as (mantissa, exponent): v = mantissa * 2^exponent exactly
fn decompose(v: f64) -> (BigInt, i64) {
    let bits = v.to_bits();
    let sign = if bits >> 63 == 1 { -1 } else { 1 };
    let e = ((bits >> 52) & 0x7ff) as i64;
    let frac = bits & ((1u64 << 52) - 1);
    let (m, e) = if e == 0 { (frac, -1074) } else { (frac | (1u64 << 52), e - 1075) };
    (BigInt::from(m) * sign, e)
}
/// the data as integers over one common power of two: x_i = X_i * 2^e
fn common(xs: &[f64]) -> (Vec<BigInt>, i64) {
    let parts: Vec<(BigInt, i64)> = xs.iter().map(|x| decompose(*x)).collect();
    let e = parts.iter().map(|p| p.1).min().unwrap_or(0);
    (parts.into_iter().map(|(m, pe)| m << ((pe - e) as usize)).collect(), e)
}
/// num / den * 2^exp2 rounded to f64 (about 80 bits of the quotient are kept)
fn ratio(num: &BigInt, den: &BigInt, exp2: i64) -> f64 {
    if num.is_zero() {
        return 0.0;
    }
    let shift = 80 + den.bits() as i64 - num.bits() as i64;
    let q = if shift >= 0 { (num << (shift as usize)) / den } else { num / (den << ((-shift) as usize)) };
    let mut v = q.to_f64().unwrap_or(f64::NAN);
    let mut e = exp2 - shift;
    while e != 0 {
        let step = e.clamp(-900, 900);
        v *= 2f64.powi(step as i32);
        e -= step;
    }
    v
}
/// exact population mean and (co)variance of two equally long columns given over common exponents
fn exact_mean(xs: &[BigInt], e: i64) -> f64 {
    let s: BigInt = xs.iter().sum();
    ratio(&s, &BigInt::from(xs.len()), e)
}
fn exact_cov(xs: &[BigInt], ex: i64, ys: &[BigInt], ey: i64) -> f64 {
    let n = BigInt::from(xs.len());
    let sx: BigInt = xs.iter().sum();
    let sy: BigInt = ys.iter().sum();
    let sxy: BigInt = xs.iter().zip(ys).map(|(a, b)| a * b).sum();
    ratio(&(&n * sxy - sx * sy), &(&n * &n), ex + ey)
}
/// budget of the mean: naive summation of N numbers then one division
fn mean_budget<T: Fl>(xs: &[f64]) -> f64 {
    let n = xs.len() as f64;
    2.0 * (n + 2.0) * T::U * (xs.iter().map(|x| x.abs()).sum::<f64>() / n) + f64::MIN_POSITIVE
}
/// budget of a population covariance computed in two passes: the rounding of the N products and
/// their sum relative to sum |dx||dy| / N, plus the product of the two means' own errors (the
/// first-order terms cancel because the deviations sum to zero)
fn cov_budget<T: Fl>(xs: &[f64], ys: &[f64]) -> f64 {
    let n = xs.len() as f64;
    let (mx, my) = (xs.iter().sum::<f64>() / n, ys.iter().sum::<f64>() / n);
    let s = xs.iter().zip(ys).map(|(x, y)| ((x - mx) * (y - my)).abs()).sum::<f64>() / n;
    2.0 * (n + 8.0) * T::U * s + 2.0 * mean_budget::<T>(xs) * mean_budget::<T>(ys) + f64::MIN_POSITIVE
}

fn float_tier<T>(op: i64, args: &[Sx]) -> Sx
where
    T: Fl,
    for<'a> &'a T: RealRef<T>,
{
    match (op, args.len()) {
        (8, 1) => {
            let Some(data) = dec_me_list::<T>(&args[0]) else { return bad_case() };
            if data.is_empty() {
                return bad_case();
            }
            let xs: Vec<f64> = data.iter().map(|x| x.f()).collect();
            let (ints, e) = common(&xs);
            let mean = linear_algebra::mean::<_, T>(data.iter().cloned());
            let var = linear_algebra::variance::<_, T>(data.iter().cloned());
            let mean_ok = close(mean.f(), exact_mean(&ints, e), mean_budget::<T>(&xs));
            let var_ok = var.f() >= 0.0 && close(var.f(), exact_cov(&ints, e, &ints, e), cov_budget::<T>(&xs, &xs));
            // other iterator shapes: the same bits
            let n = data.len();
            let forms = same(linear_algebra::mean::<_, T>(data.clone().into_iter().filter(|_| true)), mean)
                && same(linear_algebra::variance::<_, T>(Hinted { it: data.iter().cloned(), hint: Some((n + 1, Some(n + 1))) }), var)
                && same(linear_algebra::variance::<_, T>(Tensor::from([(dim(3), n)], data.clone()).iter()), var)
                && same(linear_algebra::mean::<_, T>(Matrix::column(data.clone()).column_iter(0)), mean);
            l(vec![boolean(mean_ok), boolean(var_ok), boolean(forms)])
        }
        (9, 1) => {
            let Some(rows) = args[0].list() else { return bad_case() };
            let Some(rows) = rows.iter().map(dec_me_list::<T>).collect::<Option<Vec<Vec<T>>>>() else {
                return bad_case();
            };
            if rows.is_empty() || rows[0].is_empty() || rows.iter().any(|r| r.len() != rows[0].len()) {
                return bad_case();
            }
            float_cov::<T>(rows)
        }
        (10, 2) => {
            let (Some(p), Some(r)) = (dec_me::<T>(&args[0]), dec_me::<T>(&args[1])) else { return bad_case() };
            let got = linear_algebra::f1_score::<T>(p, r);
            // 2 p r / (p + r) over the reals; at p = r = 0 the harmonic mean has no value and the
            // code's 2 * (0 / 0) is NaN on IEEE floats (documented in notes/C14_C17.md)
            let (pf, rf) = (p.f(), r.f());
            let want = 2.0 * pf * rf / (pf + rf);
            l(vec![boolean(close(got.f(), want, 8.0 * T::U * want.abs() + f64::MIN_POSITIVE))])
        }
        (11, 1) => {
            let Some(data) = dec_me_list::<T>(&args[0]) else { return bad_case() };
            float_softmax::<T>(data)
        }
        _ => bad_case(),
    }
}

/// op 9: `rows` is the data matrix.  Row features, column features (each also through the other
/// entry point on the transposed matrix) and the tensor route.
fn float_cov<T>(rows: Vec<Vec<T>>) -> Sx
where
    T: Fl,
    for<'a> &'a T: RealRef<T>,
{
    let (r, c) = (rows.len(), rows[0].len());
    let matrix = Matrix::from(rows.clone());
    let transposed = matrix.transpose();
    let flat: Vec<T> = rows.iter().flatten().cloned().collect();
    let tensor = Tensor::from([(dim(0), r), (dim(1), c)], flat);
    let (mut values, mut symmetric, mut diagonal, mut routes) = (true, true, true, true);
    // (result, features as lists of samples)
    let by_rows: Vec<Vec<T>> = rows.clone();
    let by_cols: Vec<Vec<T>> = (0..c).map(|j| (0..r).map(|i| rows[i][j]).collect()).collect();
    for (features, result, other, named) in [
        (
            &by_rows,
            linear_algebra::covariance_row_features::<T>(&matrix),
            linear_algebra::covariance_column_features::<T>(&transposed),
            linear_algebra::covariance::<T, _, _>(&tensor, dim(0)),
        ),
        (
            &by_cols,
            linear_algebra::covariance_column_features::<T>(&matrix),
            linear_algebra::covariance_row_features::<T>(&transposed),
            linear_algebra::covariance::<T, _, _>(&tensor, dim(1)),
        ),
    ] {
        let n = features.len();
        if result.size() != (n, n) || other.size() != (n, n) || named.shape().map(|d| d.1) != [n, n] {
            return inconsistent(901);
        }
        let named_data: Vec<T> = named.iter().collect();
        let fs: Vec<Vec<f64>> = features.iter().map(|f| f.iter().map(|x| x.f()).collect()).collect();
        let ints: Vec<(Vec<BigInt>, i64)> = fs.iter().map(|f| common(f)).collect();
        for i in 0..n {
            for j in 0..n {
                let got = result.get(i, j);
                let want = exact_cov(&ints[i].0, ints[i].1, &ints[j].0, ints[j].1);
                if !close(got.f(), want, cov_budget::<T>(&fs[i], &fs[j])) {
                    values = false;
                }
                if !same(got, result.get(j, i)) {
                    symmetric = false;
                }
                if !same(got, other.get(i, j)) || !same(got, named_data[i * n + j]) {
                    routes = false;
                }
            }
            // the diagonal is computed by the same operations in the same order as `variance`
            let v = linear_algebra::variance::<_, T>(features[i].iter().cloned());
            if !same(result.get(i, i), v) || !(result.get(i, i).f() >= 0.0) {
                diagonal = false;
            }
        }
    }
    l(vec![boolean(values), boolean(symmetric), boolean(diagonal), boolean(routes)])
}

/// op 11: softmax on floats against exp(x_i - max) / sum_j exp(x_j - max) evaluated in f64.
fn float_softmax<T>(data: Vec<T>) -> Sx
where
    T: Fl,
    for<'a> &'a T: RealRef<T>,
{
    let out = linear_algebra::softmax::<_, T>(data.iter().cloned());
    let n = data.len();
    if out.len() != n {
        return l(vec![z(0), z(0), z(0), z(0), z(0)]);
    }
    if n == 0 {
        return l(vec![z(1), z(1), z(1), z(1), z(1)]);
    }
    let xs: Vec<f64> = data.iter().map(|x| x.f()).collect();
    let mx = xs.iter().cloned().fold(f64::NEG_INFINITY, f64::max);
    let ys: Vec<f64> = xs.iter().map(|x| x - mx).collect();
    let denominator: f64 = ys.iter().map(|y| y.exp()).sum();
    let nonneg = out.iter().all(|y| y.f().is_finite() && y.f() >= 0.0 && y.f() <= 1.0);
    let sum: f64 = out.iter().map(|y| y.f()).sum();
    let sums = (sum - 1.0).abs() <= 4.0 * (n as f64 + 2.0) * T::U;
    let mut order = true;
    for i in 0..n {
        for j in 0..n {
            if data[i] < data[j] && !(out[i] <= out[j]) {
                order = false;
            }
            if data[i] == data[j] && out[i].bits() != out[j].bits() {
                order = false;
            }
        }
    }
    let mut closed = true;
    for i in 0..n {
        let want = ys[i].exp() / denominator;
        // exp amplifies the rounding of x_i - max by |y_i| (only |y_i| < ~750 matters: beyond, both are 0)
        let amplification = ys[i].abs().min(800.0);
        if want < T::TINY {
            if !(out[i].f() <= 2.0 * T::TINY) {
                closed = false;
            }
        } else if !close(out[i].f(), want, 4.0 * (amplification + n as f64 + 4.0) * T::U * want) {
            closed = false;
        }
    }
    l(vec![z(1), boolean(nonneg), boolean(sums), boolean(order), boolean(closed)])
}
