//! C14: mean, variance, covariance (three entry points), softmax, f1_score on exact element types.
//!   (14 1 ty (x ..))            mean      -> outcome value
//!   (14 2 ty (x ..))            variance  -> outcome value
//!   (14 3 ty (n0 n1) rows fd)   -> (outcome row_features, outcome column_features,
//!                                   outcome (shape data) of covariance(tensor, fd))
//!   (14 4 ty route (n0 n1) rows fd)  one covariance route only (0 rows, 1 columns, 2 tensor)
//!   (14 5 ty (x ..))            softmax   -> list
//!   (14 6 ty p r)               f1_score  -> value
//!   (14 7 ((m e) ..))           float oracle: softmax over f64 values m * 10^e -> four 0/1 flags
//! Every input form that must agree is exercised and cross-checked here (`inconsistent(code)`).
use crate::guarded;
use crate::num::{dec_list, enc_list, Enc};
use crate::sx::*;
use crate::with_ty;
use easy_ml::interop::TensorRefMatrix;
use easy_ml::linear_algebra;
use easy_ml::matrices::views::MatrixView;
use easy_ml::matrices::Matrix;
use easy_ml::numeric::extra::{Real, RealRef};
use easy_ml::tensors::views::TensorView;
use easy_ml::tensors::Tensor;

/// An iterator adaptor that reports a chosen size hint (None: the trait's default `(0, None)`),
/// possibly a LYING one: the statistics must depend on the items only.
struct Hinted<I> {
    it: I,
    hint: Option<(usize, Option<usize>)>,
}
impl<I: Iterator> Iterator for Hinted<I> {
    type Item = I::Item;
    fn next(&mut self) -> Option<I::Item> {
        self.it.next()
    }
    fn size_hint(&self) -> (usize, Option<usize>) {
        self.hint.unwrap_or((0, None))
    }
}
fn hints(n: usize) -> Vec<Option<(usize, Option<usize>)>> {
    vec![
        None,
        Some((0, Some(n + 5))),
        Some((n, None)),
        Some((n.saturating_sub(1), Some(n.saturating_sub(1)))), // exact but too small
        Some((n + 1, Some(n + 1))),                             // exact but too large
        Some((0, Some(0))),
    ]
}

pub fn run(args: &[Sx]) -> Sx {
    if args.len() < 2 {
        return bad_case();
    }
    if args[0].i64() == Some(7) && args.len() == 2 {
        return float_oracle(&args[1]);
    }
    let (Some(op), Some(ty)) = (args[0].i64(), args[1].i64()) else { return bad_case() };
    with_ty!(ty, go(op, &args[2..]))
}

/// Property oracle on f64 (large magnitudes, stability): same length, finite and non-negative,
/// sums to one within 1e-9, order preserved (weakly: tiny values may underflow to equal outputs).
/// Floats are never printed or compared with the model: only the four flags are.
fn float_oracle(xs: &Sx) -> Sx {
    let Some(items) = xs.list() else { return bad_case() };
    let mut data: Vec<f64> = vec![];
    for it in items {
        let Some(p) = it.list() else { return bad_case() };
        if p.len() != 2 {
            return bad_case();
        }
        let (Some(m), Some(e)) = (p[0].i64(), p[1].i64()) else { return bad_case() };
        let Ok(v) = format!("{}e{}", m, e).parse::<f64>() else { return bad_case() };
        if !v.is_finite() {
            return bad_case();
        }
        data.push(v);
    }
    let out = linear_algebra::softmax(data.iter().cloned());
    let len_ok = out.len() == data.len();
    let nonneg = out.iter().all(|y| y.is_finite() && *y >= 0.0);
    let sum: f64 = out.iter().sum();
    let sums = if data.is_empty() { out.is_empty() } else { (sum - 1.0).abs() < 1e-9 };
    let mut order = len_ok;
    if len_ok {
        for i in 0..data.len() {
            for j in 0..data.len() {
                if data[i] < data[j] && !(out[i] <= out[j]) {
                    order = false;
                }
                if data[i] == data[j] && out[i] != out[j] {
                    order = false;
                }
            }
        }
    }
    l(vec![boolean(len_ok), boolean(nonneg), boolean(sums), boolean(order)])
}

fn outcome<T: Enc>(r: Option<T>) -> Sx {
    match r {
        Some(v) => ok(v.enc()),
        None => panicked(),
    }
}

fn go<T>(op: i64, args: &[Sx]) -> Sx
where
    T: Real + Enc + PartialEq + std::fmt::Debug + std::panic::RefUnwindSafe,
    for<'a> &'a T: RealRef<T>,
{
    match (op, args.len()) {
        (1, 1) | (2, 1) => {
            let Some(data) = dec_list::<T>(&args[0]) else { return bad_case() };
            stat::<T>(op, data)
        }
        (3, 3) => {
            let Some(names) = args[0].usizes() else { return bad_case() };
            let Some(rows) = args[1].list() else { return bad_case() };
            let Some(rows) = rows.iter().map(dec_list::<T>).collect::<Option<Vec<Vec<T>>>>() else {
                return bad_case();
            };
            let Some(fd) = args[2].usize() else { return bad_case() };
            if names.len() != 2 || names[0] == names[1] || rows.is_empty() || rows[0].is_empty() {
                return bad_case();
            }
            if rows.iter().any(|r| r.len() != rows[0].len()) {
                return bad_case();
            }
            cov::<T>(names[0], names[1], rows, fd)
        }
        (4, 4) => {
            let Some(route) = args[0].i64() else { return bad_case() };
            let Some(names) = args[1].usizes() else { return bad_case() };
            let Some(rows) = args[2].list() else { return bad_case() };
            let Some(rows) = rows.iter().map(dec_list::<T>).collect::<Option<Vec<Vec<T>>>>() else {
                return bad_case();
            };
            let Some(fd) = args[3].usize() else { return bad_case() };
            if names.len() != 2 || names[0] == names[1] || rows.is_empty() || rows[0].is_empty() {
                return bad_case();
            }
            if rows.iter().any(|r| r.len() != rows[0].len()) {
                return bad_case();
            }
            let (r, c) = (rows.len(), rows[0].len());
            let flat: Vec<T> = rows.iter().flatten().cloned().collect();
            match route {
                0 | 1 => {
                    let matrix = Matrix::from(rows.clone());
                    let res = guarded(|| {
                        if route == 0 {
                            linear_algebra::covariance_row_features::<T>(&matrix)
                        } else {
                            linear_algebra::covariance_column_features::<T>(&matrix)
                        }
                    });
                    // the other entry point on the transposed data must agree
                    let transposed = matrix.transpose();
                    let other = guarded(|| {
                        if route == 0 {
                            linear_algebra::covariance_column_features::<T>(&transposed)
                        } else {
                            linear_algebra::covariance_row_features::<T>(&transposed)
                        }
                    });
                    if other != res {
                        return inconsistent(401);
                    }
                    match &res {
                        Some(m) => ok(mat_sx(m)),
                        None => panicked(),
                    }
                }
                2 => {
                    let tensor = Tensor::from([(dim(names[0]), r), (dim(names[1]), c)], flat);
                    let res = guarded(|| linear_algebra::covariance::<T, _, _>(&tensor, dim(fd)));
                    if guarded(|| TensorView::from(&tensor).covariance(dim(fd))) != res {
                        return inconsistent(402);
                    }
                    match &res {
                        Some(t) => ok(tensor_sx(t)),
                        None => panicked(),
                    }
                }
                _ => bad_case(),
            }
        }
        (5, 1) => {
            let Some(data) = dec_list::<T>(&args[0]) else { return bad_case() };
            let r = linear_algebra::softmax::<_, T>(data.iter().cloned());
            // other iterator sources
            if !data.is_empty() {
                let m = Matrix::row(data.clone());
                if linear_algebra::softmax::<_, T>(m.row_iter(0)) != r {
                    return inconsistent(501);
                }
                let t = Tensor::from([(dim(0), data.len())], data.clone());
                if linear_algebra::softmax::<_, T>(t.iter()) != r {
                    return inconsistent(502);
                }
            }
            if linear_algebra::softmax::<_, T>(data.iter().cloned().filter(|_| true)) != r {
                return inconsistent(504);
            }
            for (n, hint) in hints(data.len()).into_iter().enumerate() {
                if linear_algebra::softmax::<_, T>(Hinted { it: data.iter().cloned(), hint }) != r {
                    return inconsistent(510 + n as i64);
                }
            }
            if linear_algebra::softmax::<_, T>(data.into_iter()) != r {
                return inconsistent(503);
            }
            enc_list(&r)
        }
        (6, 2) => {
            let (Some(p), Some(r)) = (T::dec(&args[0]), T::dec(&args[1])) else { return bad_case() };
            linear_algebra::f1_score::<T>(p, r).enc()
        }
        _ => bad_case(),
    }
}

/// mean / variance through several iterator sources: Vec, Matrix row and column iterators,
/// a MatrixView, a 1-dimensional Tensor and a TensorView.
fn stat<T>(op: i64, data: Vec<T>) -> Sx
where
    T: Real + Enc + PartialEq + std::fmt::Debug + std::panic::RefUnwindSafe,
    for<'a> &'a T: RealRef<T>,
{
    fn f<T: Real, I: Iterator<Item = T>>(op: i64, it: I) -> T
    where
        for<'a> &'a T: RealRef<T>,
    {
        if op == 1 {
            linear_algebra::mean::<I, T>(it)
        } else {
            linear_algebra::variance::<I, T>(it)
        }
    }
    let canonical: Option<T> = guarded(|| f::<T, _>(op, data.iter().cloned()));
    if guarded(|| f::<T, _>(op, data.clone().into_iter())) != canonical {
        return inconsistent(101);
    }
    // iterators WITHOUT an exact size hint, and with lying ones
    if guarded(|| f::<T, _>(op, data.iter().cloned().filter(|_| true))) != canonical {
        return inconsistent(110);
    }
    if guarded(|| f::<T, _>(op, data.iter().cloned().take_while(|_| true))) != canonical {
        return inconsistent(111);
    }
    if guarded(|| f::<T, _>(op, data.iter().cloned().skip_while(|_| false))) != canonical {
        return inconsistent(112);
    }
    if guarded(|| f::<T, _>(op, data.iter().flat_map(|x| std::iter::once(x.clone())))) != canonical {
        return inconsistent(113);
    }
    {
        let mut i = 0;
        let from_fn = std::iter::from_fn(|| {
            i += 1;
            data.get(i - 1).cloned()
        });
        if guarded(std::panic::AssertUnwindSafe(|| f::<T, _>(op, from_fn))) != canonical {
            return inconsistent(114);
        }
    }
    for (n, hint) in hints(data.len()).into_iter().enumerate() {
        if guarded(|| f::<T, _>(op, Hinted { it: data.iter().cloned(), hint })) != canonical {
            return inconsistent(120 + n as i64);
        }
    }
    if guarded(|| f::<T, _>(op, data.iter().cloned().chain(std::iter::empty()).peekable())) != canonical {
        return inconsistent(127);
    }
    if !data.is_empty() {
        let row = Matrix::row(data.clone());
        let col = Matrix::column(data.clone());
        if guarded(|| f::<T, _>(op, row.row_iter(0))) != canonical {
            return inconsistent(102);
        }
        if guarded(|| f::<T, _>(op, col.column_iter(0))) != canonical {
            return inconsistent(103);
        }
        if guarded(|| f::<T, _>(op, row.row_major_iter())) != canonical {
            return inconsistent(104);
        }
        let view = MatrixView::from(&col);
        if guarded(|| f::<T, _>(op, view.column_iter(0))) != canonical {
            return inconsistent(105);
        }
        if guarded(|| f::<T, _>(op, view.row_major_iter())) != canonical {
            return inconsistent(106);
        }
        let t = Tensor::from([(dim(3), data.len())], data.clone());
        if guarded(|| f::<T, _>(op, t.iter())) != canonical {
            return inconsistent(107);
        }
        let tv = TensorView::from(&t);
        if guarded(|| f::<T, _>(op, tv.iter())) != canonical {
            return inconsistent(108);
        }
        if guarded(|| f::<T, _>(op, t.iter_reference().cloned())) != canonical {
            return inconsistent(109);
        }
    }
    outcome(canonical)
}

fn mat_sx<T: Enc + Clone>(m: &Matrix<T>) -> Sx {
    l((0..m.rows()).map(|r| l(m.row_iter(r).map(|x| x.enc()).collect())).collect())
}

fn name_code(n: &str) -> Sx {
    // result names "i" / "j" are reported by their ASCII codes; anything else by -(length)
    if n.len() == 1 {
        z(n.as_bytes()[0] as i64)
    } else {
        z(-(n.len() as i64))
    }
}

fn tensor_sx<T: Enc + Clone>(t: &Tensor<T, 2>) -> Sx {
    let shape = t.shape();
    let data: Vec<T> = t.iter().collect();
    let rows: Vec<Sx> = data.chunks(shape[1].1).map(|c| l(c.iter().map(|x| x.enc()).collect())).collect();
    l(vec![
        l(vec![l(vec![name_code(shape[0].0), z(shape[0].1)]), l(vec![name_code(shape[1].0), z(shape[1].1)])]),
        l(rows),
    ])
}

fn cov<T>(n0: usize, n1: usize, rows: Vec<Vec<T>>, fd: usize) -> Sx
where
    T: Real + Enc + PartialEq + std::fmt::Debug + std::panic::RefUnwindSafe,
    for<'a> &'a T: RealRef<T>,
{
    let r = rows.len();
    let c = rows[0].len();
    let flat: Vec<T> = rows.iter().flatten().cloned().collect();
    let matrix = Matrix::from(rows.clone());
    let transposed = matrix.transpose();

    // ---- matrix entry points
    let rowf = guarded(|| linear_algebra::covariance_row_features::<T>(&matrix));
    let colf = guarded(|| linear_algebra::covariance_column_features::<T>(&matrix));
    if guarded(|| matrix.covariance_row_features()) != rowf {
        return inconsistent(301);
    }
    if guarded(|| matrix.covariance_column_features()) != colf {
        return inconsistent(302);
    }
    // a second construction route of the same matrix
    let matrix2 = Matrix::from_flat_row_major((r, c), flat.clone());
    if guarded(|| matrix2.covariance_row_features()) != rowf || guarded(|| matrix2.covariance_column_features()) != colf {
        return inconsistent(303);
    }
    // a matrix materialised from a MatrixView over a larger matrix (range view)
    {
        let mut padded = Matrix::empty(T::small(7), (r + 2, c + 1));
        for i in 0..r {
            for j in 0..c {
                padded.set(i + 1, j + 1, rows[i][j].clone());
            }
        }
        let view = padded.range(1..(r + 1), 1..(c + 1));
        let from_view = view.map(|x| x);
        if guarded(|| from_view.covariance_row_features()) != rowf
            || guarded(|| from_view.covariance_column_features()) != colf
        {
            return inconsistent(304);
        }
    }
    // the entry points agree under transposition of the data
    if guarded(|| linear_algebra::covariance_column_features::<T>(&transposed)) != rowf {
        return inconsistent(305);
    }
    if guarded(|| linear_algebra::covariance_row_features::<T>(&transposed)) != colf {
        return inconsistent(306);
    }

    // ---- tensor entry point, every input form
    let names = [dim(n0), dim(n1)];
    let fdn = dim(fd);
    let tensor = Tensor::from([(names[0], r), (names[1], c)], flat.clone());
    let canonical: Option<Tensor<T, 2>> = guarded(|| linear_algebra::covariance::<T, _, _>(&tensor, fdn));
    {
        if guarded(|| linear_algebra::covariance::<T, _, _>(tensor.clone(), fdn)) != canonical {
            return inconsistent(310);
        }
        let mut copy = tensor.clone();
        if guarded(|| linear_algebra::covariance::<T, _, _>(&mut copy, fdn)) != canonical {
            return inconsistent(311);
        }
        if guarded(|| tensor.covariance(fdn)) != canonical {
            return inconsistent(312);
        }
        let view = TensorView::from(&tensor);
        if guarded(|| view.covariance(fdn)) != canonical {
            return inconsistent(313);
        }
        if guarded(|| linear_algebra::covariance::<T, _, _>(&view, fdn)) != canonical {
            return inconsistent(314);
        }
        let owned_view = TensorView::from(tensor.clone());
        if guarded(|| linear_algebra::covariance::<T, _, _>(owned_view, fdn)) != canonical {
            return inconsistent(315);
        }
        let mut mut_view = TensorView::from(tensor.clone());
        if guarded(|| linear_algebra::covariance::<T, _, _>(&mut mut_view, fdn)) != canonical {
            return inconsistent(316);
        }
        // a Matrix seen as a tensor with the same names
        let as_tensor = TensorView::from(TensorRefMatrix::with_names(&matrix, names).unwrap());
        if guarded(|| as_tensor.covariance(fdn)) != canonical {
            return inconsistent(317);
        }
        // the transposed data with the names swapped: the feature dimension moves to the other
        // position, the statistics must not change
        let swapped = Tensor::from([(names[1], c), (names[0], r)], transposed.row_major_iter().collect());
        if guarded(|| swapped.covariance(fdn)) != canonical {
            return inconsistent(318);
        }
        // a lazily transposed view (names keep their order, lengths and data swap): selecting
        // the OTHER name on it addresses the same features
        if fd == n0 || fd == n1 {
            let other = if fd == n0 { names[1] } else { names[0] };
            let lazy = tensor.transpose_view([names[1], names[0]]);
            if guarded(|| lazy.covariance(other)) != canonical {
                return inconsistent(319);
            }
        }
        // the named route agrees with the matrix routes
        if let Some(t) = &canonical {
            let expect = if fd == n0 { &rowf } else { &colf };
            match expect {
                Some(m) => {
                    if t.iter().collect::<Vec<T>>() != m.row_major_iter().collect::<Vec<T>>() {
                        return inconsistent(320);
                    }
                }
                None => return inconsistent(321),
            }
        }
    }
    l(vec![
        match &rowf {
            Some(m) => ok(mat_sx(m)),
            None => panicked(),
        },
        match &colf {
            Some(m) => ok(mat_sx(m)),
            None => panicked(),
        },
        match &canonical {
            Some(t) => ok(tensor_sx(t)),
            None => panicked(),
        },
    ])
}
