//! C13 op 30: the TensorView transformations, equality and similarity over ANY view of the C02
//! algebra as the source (`(13 30 sub term ..)`, term language of coq/theories/Run/RunC02.v incl.
//! TensorIndex / TensorExpansion / TensorStack / TensorChain / wrappers / matrix-backed leaves /
//! convenience constructors).  The views are built by the C02 dynamic interpreter
//! (harness/src/c02/build.rs, shared through #[path]); elements are (i64, usize) pairs whose first
//! component identifies the element (leaf*1000 + offset).
//!   sub 1 dims | 2 dims        reorder | transpose
//!   sub 8 a b | 9              map x -> a*x+b | map_with_index
//!   sub 12 rhs | 13 rhs        elementwise | elementwise_with_index with a second view term
//!   sub 14                     first
//!   sub 20 rhs                 (l == r, l.similar(r), r == l, r.similar(l), l == materialised l)
//!   sub 10 a b | 11            map_mut | map_mut_with_index THROUGH the view (mutable family only):
//!                              run on freshly built views through `TensorView::from(&mut source)`,
//!                              `TensorView::from(source)` (owned) and a manual loop over
//!                              `TensorReferenceMutIterator::from(&mut source)`; the three leaf dumps
//!                              must agree; before dropping, the view must read what the allocating
//!                              map returned.  Result: (0 (leaf dumps))
#[path = "../c02/build.rs"]
#[allow(dead_code, unused_imports, unused_macros)]
mod vbuild;

use crate::guarded;
use crate::sx::*;
use easy_ml::tensors::operations::Similar;
use easy_ml::tensors::views::{TensorRef, TensorView};
use easy_ml::tensors::Tensor;
use easy_ml::tensors::indexing::TensorReferenceMutIterator;
use easy_ml::tensors::views::TensorMut;
use vbuild::fam_ref::DynView;
use vbuild::{build, fam_mut, leaf_ids, AnyView, Arena, E};

type Dyn<const D: usize> = Box<dyn TensorRef<E, D>>;

/// both families as `Box<dyn TensorRef>` (a `Box<dyn TensorMut>` is itself a TensorRef source)
fn to_ref(v: AnyView) -> DynView {
    match v {
        AnyView::R(r) => r,
        AnyView::M(m) => {
            use vbuild::fam_mut::DynView as M;
            match m {
                M::D0(b) => DynView::D0(Box::new(b)),
                M::D1(b) => DynView::D1(Box::new(b)),
                M::D2(b) => DynView::D2(Box::new(b)),
                M::D3(b) => DynView::D3(Box::new(b)),
                M::D4(b) => DynView::D4(Box::new(b)),
                M::D5(b) => DynView::D5(Box::new(b)),
                M::D6(b) => DynView::D6(Box::new(b)),
            }
        }
    }
}

fn build_view(t: &Sx, arena: &mut Arena) -> Result<DynView, Sx> {
    let mut ids = vec![];
    if !leaf_ids(t, &mut ids) {
        return Err(bad_case());
    }
    let mut sorted = ids.clone();
    sorted.sort();
    sorted.dedup();
    if sorted.len() != ids.len() {
        return Err(bad_case());
    }
    build(t, arena).map(to_ref)
}

fn all_indexes(lens: &[usize]) -> Vec<Vec<usize>> {
    let mut out = vec![vec![]];
    for &n in lens {
        let mut next = vec![];
        for p in &out {
            for i in 0..n {
                let mut q = p.clone();
                q.push(i);
                next.push(q);
            }
        }
        out = next;
    }
    out
}

fn code(i: &[usize]) -> i64 {
    i.iter().fold(0i64, |acc, x| acc * 7 + *x as i64 + 1)
}

/// (shape ((v)…)) by get_reference at every index; the iterator must agree
fn tensor_sx<T: Clone + PartialEq, const D: usize>(t: &Tensor<T, D>, key: impl Fn(&T) -> i64) -> Sx {
    let lens: Vec<usize> = t.shape().iter().map(|d| d.1).collect();
    let by_get: Option<Vec<T>> = all_indexes(&lens).iter().map(|i| t.get_reference(idx_arr::<D>(i)).cloned()).collect();
    let Some(by_get) = by_get else { return inconsistent(1330) };
    if t.iter().collect::<Vec<T>>() != by_get {
        return inconsistent(1330);
    }
    ok(l(vec![shape_sx(&t.shape()), l(by_get.iter().map(|v| l(vec![z(key(v))])).collect())]))
}

fn unary<const D: usize>(sub: i64, src: Dyn<D>, args: &[Sx]) -> Sx {
    let view = TensorView::from(src);
    match (sub, args.len()) {
        (1, 1) | (2, 1) => {
            let Some(dims) = args[0].usizes() else { return bad_case() };
            if dims.len() != D {
                return bad_case();
            }
            let dims: [&'static str; D] = names_arr(&dims);
            match guarded(|| if sub == 1 { view.reorder(dims) } else { view.transpose(dims) }) {
                None => panicked(),
                Some(t) => tensor_sx(&t, |x| x.0),
            }
        }
        (8, 2) => {
            let (Some(a), Some(b)) = (args[0].i64(), args[1].i64()) else { return bad_case() };
            match guarded(|| view.map(|x| a * x.0 + b)) {
                None => panicked(),
                Some(t) => tensor_sx(&t, |x| *x),
            }
        }
        (9, 0) => match guarded(|| view.map_with_index(|i, x| 1000 * x.0 + code(&i))) {
            None => panicked(),
            Some(t) => tensor_sx(&t, |x| *x),
        },
        (14, 0) => match guarded(|| view.first()) {
            None => panicked(),
            Some(x) => ok(z(x.0)),
        },
        _ => bad_case(),
    }
}

fn binary<const D: usize>(sub: i64, l_src: Dyn<D>, r_src: Dyn<D>) -> Sx {
    let lv = TensorView::from(l_src);
    let rv = TensorView::from(r_src);
    match sub {
        12 => match guarded(|| lv.elementwise(&rv, |x, y| (1000 * x.0 + y.0, 0usize))) {
            None => panicked(),
            Some(t) => tensor_sx(&t, |x| x.0),
        },
        13 => match guarded(|| lv.elementwise_with_index(&rv, |i, x, y| ((1000 * x.0 + y.0) * 1000 + code(&i), 0usize))) {
            None => panicked(),
            Some(t) => tensor_sx(&t, |x| x.0),
        },
        20 => {
            let res = [lv == rv, lv.similar(&rv), rv == lv, rv.similar(&lv)];
            // the view against its own materialisation, in the four container / view pairings
            let lt: Tensor<E, D> = lv.map(|x| x);
            let own = [lv == lt, lt == lv, lv.similar(&lt), lt.similar(&lv), lt.view() == lv, lt == lt.clone()];
            if own.iter().any(|b| *b != own[0]) {
                return inconsistent(1331);
            }
            // the right operand materialised: tensor / view and tensor / tensor must answer the same
            let rt: Tensor<E, D> = rv.map(|x| x);
            let mixed = [lv == rt, lv.similar(&rt), rt == lv, rt.similar(&lv)];
            let tensors = [lt == rt, lt.similar(&rt), rt == lt, rt.similar(&lt)];
            if mixed != res || tensors != res {
                return inconsistent(1332);
            }
            let mut out: Vec<Sx> = res.iter().map(|b| boolean(*b)).collect();
            out.push(boolean(own[0]));
            l(out)
        }
        _ => bad_case(),
    }
}

/// ONE form of the in-place map through a mutable source; Err(code) on an internal mismatch
fn map_mut_form<const D: usize>(mut src: fam_mut::Dyn<D>, sub: i64, a: i64, b: i64, form: usize) -> Result<(), i64> {
    let f = move |x: E| (a * x.0 + b, x.1);
    let fi = |i: [usize; D], x: E| (1000 * x.0 + code(&i), x.1);
    match form {
        0 => {
            let mut view = TensorView::from(&mut src);
            let expected: Tensor<E, D> = if sub == 10 { view.map(f) } else { view.map_with_index(fi) };
            if sub == 10 {
                view.map_mut(f)
            } else {
                view.map_mut_with_index(fi)
            }
            // in-place == allocating: the view now shows what the allocating map returned
            if view.map(|x| x) != expected || !(view == expected) {
                return Err(1350);
            }
        }
        1 => {
            let mut view = TensorView::from(src);
            if sub == 10 {
                view.map_mut(f)
            } else {
                view.map_mut_with_index(fi)
            }
            drop(view);
        }
        _ => {
            if sub == 10 {
                for x in TensorReferenceMutIterator::from(&mut src) {
                    *x = f(x.clone());
                }
            } else {
                for (i, x) in TensorReferenceMutIterator::from(&mut src).with_index() {
                    *x = fi(i, x.clone());
                }
            }
        }
    }
    Ok(())
}

fn map_mut_through(sub: i64, term: &Sx, rest: &[Sx]) -> Sx {
    let (a, b) = match (sub, rest.len()) {
        (10, 2) => match (rest[0].i64(), rest[1].i64()) {
            (Some(a), Some(b)) => (a, b),
            _ => return bad_case(),
        },
        (11, 0) => (0, 0),
        _ => return bad_case(),
    };
    let mut canonical: Option<Sx> = None;
    for form in 0..3 {
        let mut arena = Arena::new();
        let mut ids = vec![];
        if !leaf_ids(term, &mut ids) {
            return bad_case();
        }
        let mut sorted = ids.clone();
        sorted.sort();
        sorted.dedup();
        if sorted.len() != ids.len() {
            return bad_case();
        }
        let view = match build(term, &mut arena) {
            Ok(v) => v,
            Err(failure) => return failure,
        };
        let AnyView::M(m) = view else { return bad_case() }; // entered through `&S`: no mutable face
        let done = guarded(move || {
            use fam_mut::DynView as M;
            match m {
                M::D0(x) => map_mut_form::<0>(x, sub, a, b, form),
                M::D1(x) => map_mut_form::<1>(x, sub, a, b, form),
                M::D2(x) => map_mut_form::<2>(x, sub, a, b, form),
                M::D3(x) => map_mut_form::<3>(x, sub, a, b, form),
                M::D4(x) => map_mut_form::<4>(x, sub, a, b, form),
                M::D5(x) => map_mut_form::<5>(x, sub, a, b, form),
                M::D6(x) => map_mut_form::<6>(x, sub, a, b, form),
            }
        });
        let result = match done {
            None => panicked(),
            Some(Err(c)) => return inconsistent(c),
            Some(Ok(())) => ok(arena.dump()),
        };
        drop(arena);
        match &canonical {
            None => canonical = Some(result),
            Some(c) => {
                if *c != result {
                    return inconsistent(1351 + form as i64);
                }
            }
        }
    }
    canonical.unwrap()
}

pub fn run(args: &[Sx]) -> Sx {
    // args = [30, sub, term, ...]
    if args.len() < 3 {
        return bad_case();
    }
    let Some(sub) = args[1].i64() else { return bad_case() };
    if sub == 10 || sub == 11 {
        return map_mut_through(sub, &args[2], &args[3..]);
    }
    let mut arena = Arena::new();
    let left = match build_view(&args[2], &mut arena) {
        Ok(v) => v,
        Err(failure) => return failure,
    };
    let out = if matches!(sub, 12 | 13 | 20) {
        if args.len() != 4 {
            return bad_case();
        }
        let mut arena_r = Arena::new();
        let right = match build_view(&args[3], &mut arena_r) {
            Ok(v) => v,
            Err(failure) => return failure,
        };
        let r = match (left, right) {
            (DynView::D0(a), DynView::D0(b)) => binary::<0>(sub, a, b),
            (DynView::D1(a), DynView::D1(b)) => binary::<1>(sub, a, b),
            (DynView::D2(a), DynView::D2(b)) => binary::<2>(sub, a, b),
            (DynView::D3(a), DynView::D3(b)) => binary::<3>(sub, a, b),
            (DynView::D4(a), DynView::D4(b)) => binary::<4>(sub, a, b),
            (DynView::D5(a), DynView::D5(b)) => binary::<5>(sub, a, b),
            (DynView::D6(a), DynView::D6(b)) => binary::<6>(sub, a, b),
            _ => bad_case(),
        };
        drop(arena_r);
        r
    } else {
        let rest = &args[3..];
        match left {
            DynView::D0(a) => unary::<0>(sub, a, rest),
            DynView::D1(a) => unary::<1>(sub, a, rest),
            DynView::D2(a) => unary::<2>(sub, a, rest),
            DynView::D3(a) => unary::<3>(sub, a, rest),
            DynView::D4(a) => unary::<4>(sub, a, rest),
            DynView::D5(a) => unary::<5>(sub, a, rest),
            DynView::D6(a) => unary::<6>(sub, a, rest),
        }
    };
    drop(arena);
    out
}
