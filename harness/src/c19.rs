//! C19: numeric trait contracts (FromUsize, ZeroOne, the four owned/borrowed operand forms of
//! every operator) for the 14 primitive types, their Wrapping / Saturating wrappers, Trace and
//! Record, plus direct uses of the user types Rat / Fp / Wrapping<i64> in generic routines.
//! Case language: see coq/theories/Run/RunC19.v.
//!   (19 1 w tag n) (19 2 w tag) (19 3 w tag op a b) (19 4 tag op abits bbits)
//!   (19 5 ty A B C s) (19 6 ty X Y s) (19 7 ty n) (19 8 ty op (an ad) (bn bd))
//!   (19 9 ty op ka a kb b) (19 10 ty p r (x ..) (a b c d))
//!   (19 11 tag fn abits bbits) (19 12 ty (x ..) (rows cols data) p r) (19 13 ty (d ..) (v ..) (rows cols data))
//!   (19 14 ty n (data) (ddata) (xs) (dxs)) (19 15 ty n (data))
use crate::guarded;
use crate::num::{Enc, Fp, Rat};
use crate::sx::*;
use easy_ml::differentiation::{Primitive, Record, Trace, WengertList};
use easy_ml::matrices::Matrix;
use easy_ml::numeric::{FromUsize, Numeric, NumericRef, ZeroOne};
use easy_ml::tensors::Tensor;
use num_bigint::BigInt;
use std::num::{Saturating, Wrapping};
use std::ops::{Add, Div, Mul, Neg, Sub};

#[cfg(not(feature = "c03"))]
impl Enc for Wrapping<i64> {
    fn enc(&self) -> Sx {
        z(self.0)
    }
    fn dec(s: &Sx) -> Option<Self> {
        use num_integer::Integer;
        use num_traits::ToPrimitive;
        let m = s.int()?.mod_floor(&(BigInt::from(1) << 64));
        Some(Wrapping(m.to_u64()? as i64))
    }
    fn small(v: i64) -> Self {
        Wrapping(v)
    }
}

// ------------------------------------------------------------------ integers <-> the case language
trait IntEnc: Sized + Copy {
    fn to_big(self) -> BigInt;
    fn from_big(b: &BigInt) -> Option<Self>;
}
macro_rules! int_enc {
    ($($T:ty),*) => {$(
        impl IntEnc for $T {
            fn to_big(self) -> BigInt { BigInt::from(self) }
            fn from_big(b: &BigInt) -> Option<Self> { <$T>::try_from(b.clone()).ok() }
        }
        impl IntEnc for Wrapping<$T> {
            fn to_big(self) -> BigInt { BigInt::from(self.0) }
            fn from_big(b: &BigInt) -> Option<Self> { <$T>::try_from(b.clone()).ok().map(Wrapping) }
        }
        impl IntEnc for Saturating<$T> {
            fn to_big(self) -> BigInt { BigInt::from(self.0) }
            fn from_big(b: &BigInt) -> Option<Self> { <$T>::try_from(b.clone()).ok().map(Saturating) }
        }
    )*};
}
int_enc!(u8, i8, u16, i16, u32, i32, u64, i64, u128, i128, usize, isize);

/// `T op T`, `T op &T` for the four binary operators
trait Ops4:
    Copy
    + Add<Self, Output = Self>
    + Sub<Self, Output = Self>
    + Mul<Self, Output = Self>
    + Div<Self, Output = Self>
    + for<'y> Add<&'y Self, Output = Self>
    + for<'y> Sub<&'y Self, Output = Self>
    + for<'y> Mul<&'y Self, Output = Self>
    + for<'y> Div<&'y Self, Output = Self>
{
}
impl<T> Ops4 for T where
    T: Copy
        + Add<T, Output = T>
        + Sub<T, Output = T>
        + Mul<T, Output = T>
        + Div<T, Output = T>
        + for<'y> Add<&'y T, Output = T>
        + for<'y> Sub<&'y T, Output = T>
        + for<'y> Mul<&'y T, Output = T>
        + for<'y> Div<&'y T, Output = T>
{
}
/// `&T op T`, `&T op &T`
trait RefOps4<T>:
    Add<T, Output = T>
    + Sub<T, Output = T>
    + Mul<T, Output = T>
    + Div<T, Output = T>
    + for<'y> Add<&'y T, Output = T>
    + for<'y> Sub<&'y T, Output = T>
    + for<'y> Mul<&'y T, Output = T>
    + for<'y> Div<&'y T, Output = T>
{
}
impl<R, T> RefOps4<T> for R where
    R: Add<T, Output = T>
        + Sub<T, Output = T>
        + Mul<T, Output = T>
        + Div<T, Output = T>
        + for<'y> Add<&'y T, Output = T>
        + for<'y> Sub<&'y T, Output = T>
        + for<'y> Mul<&'y T, Output = T>
        + for<'y> Div<&'y T, Output = T>
{
}

/// Calls `$f::<Type>($args)` for the type named by (wrapper, tag); every integer type.
macro_rules! dispatch_all {
    ($w:expr, $tag:expr, $f:ident ( $($arg:expr),* )) => {
        match ($w, $tag) {
            (0, 0) => $f::<u8>($($arg),*), (0, 1) => $f::<i8>($($arg),*),
            (0, 2) => $f::<u16>($($arg),*), (0, 3) => $f::<i16>($($arg),*),
            (0, 4) => $f::<u32>($($arg),*), (0, 5) => $f::<i32>($($arg),*),
            (0, 6) => $f::<u64>($($arg),*), (0, 7) => $f::<i64>($($arg),*),
            (0, 8) => $f::<u128>($($arg),*), (0, 9) => $f::<i128>($($arg),*),
            (0, 10) => $f::<usize>($($arg),*), (0, 11) => $f::<isize>($($arg),*),
            (1, 0) => $f::<Wrapping<u8>>($($arg),*), (1, 1) => $f::<Wrapping<i8>>($($arg),*),
            (1, 2) => $f::<Wrapping<u16>>($($arg),*), (1, 3) => $f::<Wrapping<i16>>($($arg),*),
            (1, 4) => $f::<Wrapping<u32>>($($arg),*), (1, 5) => $f::<Wrapping<i32>>($($arg),*),
            (1, 6) => $f::<Wrapping<u64>>($($arg),*), (1, 7) => $f::<Wrapping<i64>>($($arg),*),
            (1, 8) => $f::<Wrapping<u128>>($($arg),*), (1, 9) => $f::<Wrapping<i128>>($($arg),*),
            (1, 10) => $f::<Wrapping<usize>>($($arg),*), (1, 11) => $f::<Wrapping<isize>>($($arg),*),
            (2, 0) => $f::<Saturating<u8>>($($arg),*), (2, 1) => $f::<Saturating<i8>>($($arg),*),
            (2, 2) => $f::<Saturating<u16>>($($arg),*), (2, 3) => $f::<Saturating<i16>>($($arg),*),
            (2, 4) => $f::<Saturating<u32>>($($arg),*), (2, 5) => $f::<Saturating<i32>>($($arg),*),
            (2, 6) => $f::<Saturating<u64>>($($arg),*), (2, 7) => $f::<Saturating<i64>>($($arg),*),
            (2, 8) => $f::<Saturating<u128>>($($arg),*), (2, 9) => $f::<Saturating<i128>>($($arg),*),
            (2, 10) => $f::<Saturating<usize>>($($arg),*), (2, 11) => $f::<Saturating<isize>>($($arg),*),
            _ => bad_case(),
        }
    };
}
/// The types with a unary minus: signed integers, every Wrapping, Saturating of signed integers.
macro_rules! dispatch_neg {
    ($w:expr, $tag:expr, $f:ident ( $($arg:expr),* )) => {
        match ($w, $tag) {
            (0, 1) => $f::<i8>($($arg),*), (0, 3) => $f::<i16>($($arg),*),
            (0, 5) => $f::<i32>($($arg),*), (0, 7) => $f::<i64>($($arg),*),
            (0, 9) => $f::<i128>($($arg),*), (0, 11) => $f::<isize>($($arg),*),
            (1, 0) => $f::<Wrapping<u8>>($($arg),*), (1, 1) => $f::<Wrapping<i8>>($($arg),*),
            (1, 2) => $f::<Wrapping<u16>>($($arg),*), (1, 3) => $f::<Wrapping<i16>>($($arg),*),
            (1, 4) => $f::<Wrapping<u32>>($($arg),*), (1, 5) => $f::<Wrapping<i32>>($($arg),*),
            (1, 6) => $f::<Wrapping<u64>>($($arg),*), (1, 7) => $f::<Wrapping<i64>>($($arg),*),
            (1, 8) => $f::<Wrapping<u128>>($($arg),*), (1, 9) => $f::<Wrapping<i128>>($($arg),*),
            (1, 10) => $f::<Wrapping<usize>>($($arg),*), (1, 11) => $f::<Wrapping<isize>>($($arg),*),
            (2, 1) => $f::<Saturating<i8>>($($arg),*), (2, 3) => $f::<Saturating<i16>>($($arg),*),
            (2, 5) => $f::<Saturating<i32>>($($arg),*), (2, 7) => $f::<Saturating<i64>>($($arg),*),
            (2, 9) => $f::<Saturating<i128>>($($arg),*), (2, 11) => $f::<Saturating<isize>>($($arg),*),
            _ => bad_case(),
        }
    };
}

// The types easy-ml accepts as `Numeric` element types (compile-time evidence for the blanket
// impls): signed primitives, floats, every Wrapping, the user types, Trace / Record of those.
#[allow(dead_code)]
fn _numeric_types() {
    fn numeric<T: Numeric>()
    where
        for<'a> &'a T: NumericRef<T>,
    {
    }
    numeric::<i8>(); numeric::<i16>(); numeric::<i32>(); numeric::<i64>(); numeric::<i128>();
    numeric::<isize>(); numeric::<f32>(); numeric::<f64>();
    numeric::<Wrapping<u8>>(); numeric::<Wrapping<i8>>(); numeric::<Wrapping<u16>>();
    numeric::<Wrapping<i16>>(); numeric::<Wrapping<u32>>(); numeric::<Wrapping<i32>>();
    numeric::<Wrapping<u64>>(); numeric::<Wrapping<i64>>(); numeric::<Wrapping<u128>>();
    numeric::<Wrapping<i128>>(); numeric::<Wrapping<usize>>(); numeric::<Wrapping<isize>>();
    // No Saturating<_> is Numeric with this std: Saturating<uN> has no Neg, Saturating<iN> no Sum
    // (the doc comment on `impl Numeric for T` in src/numeric.rs says otherwise). Their ZeroOne,
    // FromUsize and operator forms are checked below all the same.
    numeric::<Rat>(); numeric::<Fp>();
    numeric::<Trace<f64>>(); numeric::<Trace<Rat>>(); numeric::<Trace<Fp>>();
    numeric::<Record<'static, f64>>(); numeric::<Record<'static, Rat>>(); numeric::<Record<'static, Fp>>();
    numeric::<Trace<Wrapping<i64>>>(); numeric::<Record<'static, Wrapping<u32>>>();
}

pub fn run(args: &[Sx]) -> Sx {
    let Some(op) = args.first().and_then(|x| x.i64()) else { return bad_case() };
    match op {
        1 if args.len() == 4 => {
            let (Some(w), Some(tag), Some(n)) = (args[1].i64(), args[2].i64(), args[3].usize()) else {
                return bad_case();
            };
            // usize() accepts any u64; larger counts are outside the language
            if args[3].int().map(|b| b > &BigInt::from(u64::MAX)).unwrap_or(true) {
                return bad_case();
            }
            from_usize_case(w, tag, n)
        }
        2 if args.len() == 3 => {
            let (Some(w), Some(tag)) = (args[1].i64(), args[2].i64()) else { return bad_case() };
            zero_one_case(w, tag)
        }
        3 if args.len() == 6 => {
            let (Some(w), Some(tag), Some(o), Some(a), Some(b)) =
                (args[1].i64(), args[2].i64(), args[3].i64(), args[4].int(), args[5].int())
            else {
                return bad_case();
            };
            match o {
                0..=3 => dispatch_all!(w, tag, arith_case(o, a, b)),
                4 => dispatch_neg!(w, tag, neg_case(a)),
                _ => bad_case(),
            }
        }
        4 if args.len() == 5 => {
            let (Some(tag), Some(o), Some(a), Some(b)) =
                (args[1].i64(), args[2].i64(), args[3].int(), args[4].int())
            else {
                return bad_case();
            };
            float_case(tag, o, a, b)
        }
        11 if args.len() == 5 => {
            let (Some(tag), Some(f), Some(a), Some(b)) =
                (args[1].i64(), args[2].i64(), args[3].int(), args[4].int())
            else {
                return bad_case();
            };
            float_extra_case(tag, f, a, b)
        }
        12 if args.len() == 6 => {
            let Some(ty) = args[1].i64() else { return bad_case() };
            match ty {
                0 => whole_case::<Rat>(&args[2..]),
                1 => whole_case::<Fp>(&args[2..]),
                2 => whole_case::<Wrapping<i64>>(&args[2..]),
                3 => whole_case::<Whole>(&args[2..]),
                4 => whole_case::<i64>(&args[2..]),
                _ => bad_case(),
            }
        }
        13 if args.len() == 5 => {
            let Some(ty) = args[1].i64() else { return bad_case() };
            match ty {
                0 => ctor_case::<Rat>(&args[2..]),
                1 => ctor_case::<Fp>(&args[2..]),
                _ => bad_case(),
            }
        }
        15 if args.len() == 4 => {
            let Some(ty) = args[1].i64() else { return bad_case() };
            match ty {
                0 => inverse_any_case::<Rat>(&args[2..]),
                1 => inverse_any_case::<Fp>(&args[2..]),
                2 => inverse_any_case::<Wrapping<i64>>(&args[2..]),
                3 => inverse_any_case::<Whole>(&args[2..]),
                4 => inverse_any_case::<i64>(&args[2..]),
                _ => bad_case(),
            }
        }
        14 if args.len() == 7 => {
            let Some(ty) = args[1].i64() else { return bad_case() };
            match ty {
                0 => wrapper_elem_case::<Rat>(&args[2..]),
                1 => wrapper_elem_case::<Fp>(&args[2..]),
                _ => bad_case(),
            }
        }
        5..=10 if args.len() >= 3 => {
            let Some(ty) = args[1].i64() else { return bad_case() };
            match ty {
                0 => user_case::<Rat>(op, &args[2..]),
                1 => user_case::<Fp>(op, &args[2..]),
                2 => user_case::<Wrapping<i64>>(op, &args[2..]),
                _ => bad_case(),
            }
        }
        _ => bad_case(),
    }
}

// ------------------------------------------------------------------ FromUsize / ZeroOne
fn fu<T: FromUsize + IntEnc>(n: usize) -> Sx {
    opt(T::from_usize(n).map(|v| z(v.to_big())))
}
fn from_usize_case(w: i64, tag: i64, n: usize) -> Sx {
    if !(0..=2).contains(&w) {
        return bad_case();
    }
    match tag {
        12 => {
            // floats: always Some; the printed value is the crate's bit pattern, which the MODEL
            // (Model/FloatConv.v: round to nearest even in integer arithmetic, proved nearest in
            // Proofs/C19F.v) must name. The wrappers delegate; `n as f32` is what the macro says.
            let plain = f32::from_usize(n).map(|v| v.to_bits());
            let wr = <Wrapping<f32>>::from_usize(n).map(|v| v.0.to_bits());
            let sa = <Saturating<f32>>::from_usize(n).map(|v| v.0.to_bits());
            if plain != wr || plain != sa {
                return inconsistent(1912);
            }
            opt(plain.map(z))
        }
        13 => {
            let plain = f64::from_usize(n).map(|v| v.to_bits());
            let wr = <Wrapping<f64>>::from_usize(n).map(|v| v.0.to_bits());
            let sa = <Saturating<f64>>::from_usize(n).map(|v| v.0.to_bits());
            if plain != wr || plain != sa {
                return inconsistent(1913);
            }
            opt(plain.map(z))
        }
        _ => dispatch_all!(w, tag, fu(n)),
    }
}

fn zo<T: ZeroOne + IntEnc>() -> Sx {
    l(vec![z(T::zero().to_big()), z(T::one().to_big())])
}
fn zero_one_case(w: i64, tag: i64) -> Sx {
    if !(0..=2).contains(&w) {
        return bad_case();
    }
    match tag {
        12 => {
            let (a, b) = match w {
                0 => (f32::zero(), f32::one()),
                1 => (<Wrapping<f32>>::zero().0, <Wrapping<f32>>::one().0),
                _ => (<Saturating<f32>>::zero().0, <Saturating<f32>>::one().0),
            };
            if a.to_bits() != 0.0f32.to_bits() || b.to_bits() != 1.0f32.to_bits() {
                return inconsistent(1922);
            }
            l(vec![z(0), z(1)])
        }
        13 => {
            let (a, b) = match w {
                0 => (f64::zero(), f64::one()),
                1 => (<Wrapping<f64>>::zero().0, <Wrapping<f64>>::one().0),
                _ => (<Saturating<f64>>::zero().0, <Saturating<f64>>::one().0),
            };
            if a.to_bits() != 0.0f64.to_bits() || b.to_bits() != 1.0f64.to_bits() {
                return inconsistent(1923);
            }
            l(vec![z(0), z(1)])
        }
        _ => dispatch_all!(w, tag, zo()),
    }
}

// ------------------------------------------------------------------ operators, all forms
fn same<T: IntEnc>(rs: &[Option<T>], code: i64) -> Sx {
    let enc: Vec<Option<BigInt>> = rs.iter().map(|r| r.map(|v| v.to_big())).collect();
    for (i, e) in enc.iter().enumerate() {
        if *e != enc[0] {
            return inconsistent(code + i as i64);
        }
    }
    match &enc[0] {
        Some(v) => ok(z(v.clone())),
        None => panicked(),
    }
}

fn arith_case<T>(op: i64, a: &BigInt, b: &BigInt) -> Sx
where
    T: Ops4 + IntEnc,
    for<'x> &'x T: RefOps4<T>,
{
    let (Some(a), Some(b)) = (T::from_big(a), T::from_big(b)) else { return bad_case() };
    let rs: [Option<T>; 4] = match op {
        0 => [guarded(|| a + b), guarded(|| a + &b), guarded(|| &a + b), guarded(|| &a + &b)],
        1 => [guarded(|| a - b), guarded(|| a - &b), guarded(|| &a - b), guarded(|| &a - &b)],
        2 => [guarded(|| a * b), guarded(|| a * &b), guarded(|| &a * b), guarded(|| &a * &b)],
        _ => [guarded(|| a / b), guarded(|| a / &b), guarded(|| &a / b), guarded(|| &a / &b)],
    };
    same(&rs, 1930)
}

fn neg_case<T>(a: &BigInt) -> Sx
where
    T: Copy + IntEnc + Neg<Output = T>,
    for<'x> &'x T: Neg<Output = T>,
{
    let Some(a) = T::from_big(a) else { return bad_case() };
    let rs: [Option<T>; 2] = [guarded(|| -a), guarded(|| -&a)];
    same(&rs, 1940)
}

fn float_case(tag: i64, op: i64, a: &BigInt, b: &BigInt) -> Sx {
    use num_traits::ToPrimitive;
    macro_rules! forms {
        ($F:ty, $a:expr, $b:expr) => {{
            let (a, b): ($F, $F) = ($a, $b);
            let rs: Vec<$F> = match op {
                0 => vec![a + b, a + &b, &a + b, &a + &b],
                1 => vec![a - b, a - &b, &a - b, &a - &b],
                2 => vec![a * b, a * &b, &a * b, &a * &b],
                3 => vec![a / b, a / &b, &a / b, &a / &b],
                4 => vec![-a, -&a],
                _ => return bad_case(),
            };
            // bit-for-bit, except that the payload / sign of a NaN result is unspecified in Rust
            // (LLVM may commute the operands of `&a + b`): NaN results only have to be all NaN
            if rs.iter().any(|r| r.to_bits() != rs[0].to_bits() && !(r.is_nan() && rs[0].is_nan())) {
                return inconsistent(1950);
            }
            l(vec![z(1)])
        }};
    }
    match tag {
        12 => {
            let (Some(a), Some(b)) = (a.to_u32(), b.to_u32()) else { return bad_case() };
            forms!(f32, f32::from_bits(a), f32::from_bits(b))
        }
        13 => {
            let (Some(a), Some(b)) = (a.to_u64(), b.to_u64()) else { return bad_case() };
            forms!(f64, f64::from_bits(a), f64::from_bits(b))
        }
        _ => bad_case(),
    }
}

// ------------------------------------------------------------------ user types in generic routines
fn dec_matrix<T: Enc>(s: &Sx) -> Option<Matrix<T>> {
    let v = s.list()?;
    if v.len() != 3 {
        return None;
    }
    let (r, c) = (v[0].usize()?, v[1].usize()?);
    let data: Vec<T> = crate::num::dec_list(&v[2])?;
    if r.checked_mul(c) != Some(data.len()) || data.is_empty() {
        return None;
    }
    Some(Matrix::from_flat_row_major((r, c), data))
}
fn dec_vector<T: Enc>(s: &Sx) -> Option<Tensor<T, 1>> {
    let v = s.list()?;
    if v.len() != 2 {
        return None;
    }
    let len = v[0].usize()?;
    let data: Vec<T> = crate::num::dec_list(&v[1])?;
    Tensor::try_from([(dim(0), len)], data).ok()
}

fn user_case<T>(op: i64, args: &[Sx]) -> Sx
where
    T: Numeric + Primitive + Enc + PartialEq + 'static,
    for<'a> &'a T: NumericRef<T>,
{
    match op {
        5 if args.len() == 4 => {
            let (Some(a), Some(b), Some(c), Some(s)) = (
                dec_matrix::<T>(&args[0]),
                dec_matrix::<T>(&args[1]),
                dec_matrix::<T>(&args[2]),
                T::dec(&args[3]),
            ) else {
                return bad_case();
            };
            let enc = |r: Option<Matrix<T>>| match r {
                Some(m) => {
                    let (r, c) = m.size();
                    ok(l(vec![z(r), z(c), l(m.row_major_iter().map(|x| x.enc()).collect())]))
                }
                None => panicked(),
            };
            let by_ref = enc(guarded(|| -&((&(&a * &b) + &c) * &s)));
            let by_val = enc(guarded(|| -((a.clone() * b.clone() + c.clone()) * s.clone())));
            if by_ref != by_val {
                return inconsistent(1960);
            }
            by_ref
        }
        6 if args.len() == 3 => {
            let (Some(x), Some(y), Some(s)) =
                (dec_vector::<T>(&args[0]), dec_vector::<T>(&args[1]), T::dec(&args[2]))
            else {
                return bad_case();
            };
            let enc = |r: Option<T>| match r {
                Some(v) => ok(v.enc()),
                None => panicked(),
            };
            let by_ref = enc(guarded(|| (&(&x + &y) * &s).scalar_product(&y)));
            let by_val = enc(guarded(|| ((x.clone() + y.clone()) * s.clone()).scalar_product(y.clone())));
            if by_ref != by_val {
                return inconsistent(1961);
            }
            by_ref
        }
        7 if args.len() == 1 => {
            let Some(n) = args[0].usize() else { return bad_case() };
            let st = |t: Trace<T>| l(vec![t.number.enc(), t.derivative.enc()]);
            let sr = |r: Record<T>| {
                l(vec![r.number.enc(), opt(r.history().map(|_| z(0))), z(r.index)])
            };
            l(vec![
                st(<Trace<T>>::zero()),
                st(<Trace<T>>::one()),
                opt(<Trace<T>>::from_usize(n).map(st)),
                sr(<Record<T>>::zero()),
                sr(<Record<T>>::one()),
                opt(<Record<T>>::from_usize(n).map(sr)),
            ])
        }
        10 if args.len() == 4 => {
            let (Some(p), Some(r), Some(xs), Some(m)) = (
                T::dec(&args[0]),
                T::dec(&args[1]),
                crate::num::dec_list::<T>(&args[2]),
                crate::num::dec_list::<T>(&args[3]),
            ) else {
                return bad_case();
            };
            if xs.is_empty() || m.len() != 4 {
                return bad_case();
            }
            use easy_ml::linear_algebra as la;
            let matrix = Matrix::from_flat_row_major((2, 2), m.clone());
            let tensor = Tensor::from([(dim(0), 2), (dim(1), 2)], m);
            let det = la::determinant::<T>(&matrix);
            if det != la::determinant_tensor::<T, _, _>(&tensor) {
                return inconsistent(1970);
            }
            let Some(det) = det else { return inconsistent(1971) };
            if everywhere_at_rat() == 0 {
                return inconsistent(1972);
            }
            if let Err(code) = mean_variance_shapes::<T>(&xs, crate::shapes::key_of(args), 19100, &|v: &T| v.enc()) {
                return inconsistent(code);
            }
            l(vec![
                la::f1_score::<T>(p, r).enc(),
                la::mean(xs.iter().cloned()).enc(),
                la::variance(xs.into_iter()).enc(),
                det.enc(),
            ])
        }
        8 if args.len() == 3 => {
            let (Some(o), Some(a), Some(b)) = (args[0].i64(), dec_trace::<T>(&args[1]), dec_trace::<T>(&args[2]))
            else {
                return bad_case();
            };
            let st = |r: Option<Trace<T>>| match r {
                Some(t) => l(vec![t.number.enc(), t.derivative.enc()]),
                None => panicked(),
            };
            let (a2, b2) = (a.clone(), b.clone());
            let rs: Vec<Sx> = match o {
                0 => vec![st(guarded(|| &a + &b)), st(guarded(|| a.clone() + b.clone())),
                          st(guarded(|| a.clone() + &b)), st(guarded(|| &a + b.clone()))],
                1 => vec![st(guarded(|| &a - &b)), st(guarded(|| a.clone() - b.clone())),
                          st(guarded(|| a.clone() - &b)), st(guarded(|| &a - b.clone()))],
                2 => vec![st(guarded(|| &a * &b)), st(guarded(|| a.clone() * b.clone())),
                          st(guarded(|| a.clone() * &b)), st(guarded(|| &a * b.clone()))],
                3 => vec![st(guarded(|| &a / &b)), st(guarded(|| a.clone() / b.clone())),
                          st(guarded(|| a.clone() / &b)), st(guarded(|| &a / b.clone()))],
                4 => vec![st(guarded(|| -&a2)), st(guarded(|| -a2.clone()))],
                _ => return bad_case(),
            };
            let _ = b2;
            for (i, r) in rs.iter().enumerate() {
                if *r != rs[0] {
                    return inconsistent(1980 + i as i64);
                }
            }
            rs.into_iter().next().unwrap()
        }
        9 if args.len() == 5 => {
            let (Some(o), Some(ka), Some(a), Some(kb), Some(b)) =
                (args[0].i64(), args[1].i64(), T::dec(&args[2]), args[3].i64(), T::dec(&args[4]))
            else {
                return bad_case();
            };
            if !(0..=4).contains(&o) || !(0..=2).contains(&ka) || !(0..=2).contains(&kb) {
                return bad_case();
            }
            let forms: &[i64] = if o == 4 { &[0, 1] } else { &[0, 1, 2, 3] };
            let rs: Vec<Sx> = forms.iter().map(|f| record_form::<T>(o, ka, &a, kb, &b, *f)).collect();
            for (i, r) in rs.iter().enumerate() {
                if *r != rs[0] {
                    return inconsistent(1990 + i as i64);
                }
            }
            rs.into_iter().next().unwrap()
        }
        _ => bad_case(),
    }
}

fn dec_trace<T: Enc + Primitive>(s: &Sx) -> Option<Trace<T>> {
    let v = s.list()?;
    if v.len() != 2 {
        return None;
    }
    Some(Trace { number: T::dec(&v[0])?, derivative: T::dec(&v[1])? })
}

/// One operand form of a Record operator on fresh tapes: form 0 `&a op &b`, 1 `a op b`,
/// 2 `a op &b`, 3 `&a op b`; for negation form 0 `-&a`, 1 `-a`.
fn record_form<T>(o: i64, ka: i64, a: &T, kb: i64, b: &T, form: i64) -> Sx
where
    T: Numeric + Primitive + Enc + PartialEq + 'static,
    for<'a> &'a T: NumericRef<T>,
{
    let tape_a = WengertList::new();
    let tape_b = WengertList::new();
    let mk = |k: i64, x: &T| match k {
        0 => Record::constant(x.clone()),
        1 => Record::variable(x.clone(), &tape_a),
        _ => Record::variable(x.clone(), &tape_b),
    };
    let ra = mk(ka, a);
    let rb = mk(kb, b);
    let r: Option<Record<T>> = guarded(|| match (o, form) {
        (0, 0) => &ra + &rb, (0, 1) => ra.clone() + rb.clone(), (0, 2) => ra.clone() + &rb, (0, _) => &ra + rb.clone(),
        (1, 0) => &ra - &rb, (1, 1) => ra.clone() - rb.clone(), (1, 2) => ra.clone() - &rb, (1, _) => &ra - rb.clone(),
        (2, 0) => &ra * &rb, (2, 1) => ra.clone() * rb.clone(), (2, 2) => ra.clone() * &rb, (2, _) => &ra * rb.clone(),
        (3, 0) => &ra / &rb, (3, 1) => ra.clone() / rb.clone(), (3, 2) => ra.clone() / &rb, (3, _) => &ra / rb.clone(),
        (_, 0) => -&ra,
        (_, _) => -ra.clone(),
    });
    match r {
        None => panicked(),
        Some(r) => {
            let d = |k: i64, x: &Record<T>| -> Sx {
                if r.history().is_none() || k == 0 {
                    return nil();
                }
                match guarded(|| r.derivatives().at(x)) {
                    Some(v) => l(vec![v.enc()]),
                    None => l(vec![z(-1)]),
                }
            };
            let kb_eff = if o == 4 { 0 } else { kb };
            ok(l(vec![
                r.number.enc(),
                opt(r.history().map(|_| z(1))),
                z(r.index),
                d(ka, &ra),
                d(kb_eff, &rb),
            ]))
        }
    }
}

/// "Any user type supplying the same operations can be used everywhere a numeric type is
/// accepted": every generic routine of easy_ml::linear_algebra instantiated at `Rat`, which is
/// Clone but NOT Copy (and is not a primitive), so that a hidden extra bound on any of them
/// breaks the build of this harness. Returns the number of routines that ran without panicking.
fn everywhere_at_rat() -> usize {
    use easy_ml::linear_algebra as la;
    let q = |v: i64| Rat::int(v);
    let data = vec![q(4), q(1), q(1), q(3)];
    let m = Matrix::from_flat_row_major((2, 2), data.clone());
    let t = Tensor::from([(dim(0), 2), (dim(1), 2)], data.clone());
    let mut ran = 0usize;
    macro_rules! call {
        ($e:expr) => {
            if guarded(|| {
                let _ = $e;
            })
            .is_some()
            {
                ran += 1;
            }
        };
    }
    call!(la::inverse::<Rat>(&m));
    call!(la::inverse_tensor::<Rat, _, _>(&t));
    call!(la::determinant::<Rat>(&m));
    call!(la::determinant_tensor::<Rat, _, _>(&t));
    call!(la::covariance_column_features::<Rat>(&m));
    call!(la::covariance_row_features::<Rat>(&m));
    call!(la::covariance::<Rat, _, _>(&t, dim(0)));
    call!(la::mean(data.iter().cloned()));
    call!(la::variance(data.iter().cloned()));
    call!(la::softmax(data.iter().cloned()));
    call!(la::f1_score::<Rat>(q(1), q(3)));
    call!(la::cholesky_decomposition::<Rat>(&m));
    call!(la::cholesky_decomposition_tensor::<Rat, _, _>(&t));
    call!(la::ldlt_decomposition::<Rat>(&m));
    call!(la::ldlt_decomposition_tensor::<Rat, _, _>(&t));
    call!(la::qr_decomposition::<Rat>(&m));
    call!(la::qr_decomposition_tensor::<Rat, _, _>(&t));
    // the same through the container methods and the AD wrappers of the user type
    call!(m.determinant());
    call!(m.inverse());
    call!(m.covariance_column_features());
    call!(t.determinant());
    call!(t.inverse());
    call!(la::f1_score::<Trace<Rat>>(Trace::constant(q(1)), Trace::variable(q(3))));
    call!(la::mean(data.iter().cloned().map(Record::constant)));
    ran
}

// ------------------------------------------------------------------ iterator SHAPES at the hand-off
/// `mean`, `variance` and `softmax` take an ITERATOR: the same numbers through every iterator SHAPE
/// (crate::shapes: lower-bound-0 adaptors, custom and lying size hints, a not-fused iterator, ...)
/// must give the observation of the exact-size `xs.iter().cloned()` (`enc` of every scalar).
/// Code = base + 20 * routine + shape (routine 0 mean, 1 variance, 2 softmax).  `mean` never
/// consults the hint, so every lying hint is compared; `variance` / `softmax` collect the iterator
/// first: a lying lower bound of usize::MAX (shapes 12 / 15) makes `collect` panic with "capacity
/// overflow" (non-zero-sized elements) - accepted there: the canonical answer or a panic
/// (code base + 60 + shape otherwise).
fn mean_variance_shapes<E>(xs: &[E], key: u64, base: i64, enc: &dyn Fn(&E) -> Sx) -> Result<(), i64>
where
    E: Numeric,
{
    use crate::shapes::{self, with_shape};
    use easy_ml::linear_algebra as la;
    let obs = |r: Option<E>| r.map(|v| enc(&v));
    let mean0 = obs(guarded(|| la::mean(xs.iter().cloned())));
    let var0 = obs(guarded(|| la::variance(xs.iter().cloned())));
    for shape in shapes::plan(key, &shapes::LYING) {
        if obs(with_shape!(shape, xs.to_vec(), |it| guarded(|| la::mean(it)))) != mean0 {
            return Err(base + shape as i64);
        }
        let var = obs(with_shape!(shape, xs.to_vec(), |it| guarded(|| la::variance(it))));
        if shapes::lower_is_max(shape) {
            if var.is_some() && var != var0 {
                return Err(base + 60 + shape as i64);
            }
        } else if var != var0 {
            return Err(base + 20 + shape as i64);
        }
    }
    Ok(())
}

fn softmax_shapes<E>(xs: &[E], key: u64, base: i64, enc: &dyn Fn(&E) -> Sx) -> Result<(), i64>
where
    E: easy_ml::numeric::extra::Real,
{
    use crate::shapes::{self, with_shape};
    use easy_ml::linear_algebra as la;
    let obs = |r: Option<Vec<E>>| r.map(|v| l(v.iter().map(enc).collect()));
    let soft0 = obs(guarded(|| la::softmax(xs.iter().cloned())));
    for shape in shapes::plan(key, &shapes::LYING) {
        let soft = obs(with_shape!(shape, xs.to_vec(), |it| guarded(|| la::softmax(it))));
        if shapes::lower_is_max(shape) {
            if soft.is_some() && soft != soft0 {
                return Err(base + 60 + shape as i64);
            }
        } else if soft != soft0 {
            return Err(base + 40 + shape as i64);
        }
    }
    Ok(())
}

// ------------------------------------------------------------------ a user-defined whole-number type
/// The BigInt wrapper of src/using_custom_types.rs: every operation `Numeric` asks for, division
/// truncating toward zero (and total: x / 0 = 0, as the model's Z.quot) — NOT a field, so
/// `a / n` and `a * (1 / n)` differ and a generic routine has to follow its documented formula.
#[derive(Clone, Debug, PartialEq, Eq, PartialOrd, Ord)]
pub struct Whole(pub BigInt);

impl Whole {
    fn div_(&self, o: &Whole) -> Whole {
        use num_traits::Zero;
        if o.0.is_zero() {
            Whole(BigInt::zero())
        } else {
            Whole(&self.0 / &o.0)
        }
    }
}
macro_rules! whole_bin {
    ($Tr:ident, $m:ident, |$a:ident, $b:ident| $e:expr) => {
        impl $Tr<Whole> for Whole {
            type Output = Whole;
            fn $m(self, rhs: Whole) -> Whole {
                let ($a, $b) = (&self, &rhs);
                $e
            }
        }
        impl<'r> $Tr<&'r Whole> for Whole {
            type Output = Whole;
            fn $m(self, rhs: &Whole) -> Whole {
                let ($a, $b) = (&self, rhs);
                $e
            }
        }
        impl<'l> $Tr<Whole> for &'l Whole {
            type Output = Whole;
            fn $m(self, rhs: Whole) -> Whole {
                let ($a, $b) = (self, &rhs);
                $e
            }
        }
        impl<'l, 'r> $Tr<&'r Whole> for &'l Whole {
            type Output = Whole;
            fn $m(self, rhs: &Whole) -> Whole {
                let ($a, $b) = (self, rhs);
                $e
            }
        }
    };
}
whole_bin!(Add, add, |a, b| Whole(&a.0 + &b.0));
whole_bin!(Sub, sub, |a, b| Whole(&a.0 - &b.0));
whole_bin!(Mul, mul, |a, b| Whole(&a.0 * &b.0));
whole_bin!(Div, div, |a, b| a.div_(b));
impl Neg for Whole {
    type Output = Whole;
    fn neg(self) -> Whole {
        Whole(-self.0)
    }
}
impl Neg for &Whole {
    type Output = Whole;
    fn neg(self) -> Whole {
        Whole(-&self.0)
    }
}
impl std::iter::Sum for Whole {
    fn sum<I: Iterator<Item = Whole>>(iter: I) -> Whole {
        iter.fold(Whole(BigInt::from(0)), |a, b| a + b)
    }
}
impl ZeroOne for Whole {
    fn zero() -> Whole {
        Whole(BigInt::from(0))
    }
    fn one() -> Whole {
        Whole(BigInt::from(1))
    }
}
impl FromUsize for Whole {
    fn from_usize(n: usize) -> Option<Whole> {
        Some(Whole(BigInt::from(n)))
    }
}

/// Encoding of the element types of `(19 12 ..)` (kept apart from `Enc`: i64 is not an `Enc`).
trait WEnc: Sized {
    fn wenc(&self) -> Sx;
    fn wdec(s: &Sx) -> Option<Self>;
}
impl WEnc for Rat {
    fn wenc(&self) -> Sx { self.enc() }
    fn wdec(s: &Sx) -> Option<Self> { Rat::dec(s) }
}
impl WEnc for Fp {
    fn wenc(&self) -> Sx { self.enc() }
    fn wdec(s: &Sx) -> Option<Self> { Fp::dec(s) }
}
impl WEnc for Wrapping<i64> {
    fn wenc(&self) -> Sx { self.enc() }
    fn wdec(s: &Sx) -> Option<Self> { <Wrapping<i64> as Enc>::dec(s) }
}
impl WEnc for Whole {
    fn wenc(&self) -> Sx { z(self.0.clone()) }
    fn wdec(s: &Sx) -> Option<Self> { Some(Whole(s.int()?.clone())) }
}
impl WEnc for i64 {
    fn wenc(&self) -> Sx { z(*self) }
    fn wdec(s: &Sx) -> Option<Self> { s.i64() }
}

/// (19 12 ty (x ..) (rows cols data) p r): the division-bearing generic routines of
/// linear_algebra through every entry point, at any `Numeric` element type.
fn whole_case<T>(args: &[Sx]) -> Sx
where
    T: Numeric + WEnc + PartialEq + 'static,
    for<'a> &'a T: NumericRef<T>,
{
    use easy_ml::linear_algebra as la;
    use easy_ml::tensors::views::TensorView;
    let dec_list = |s: &Sx| -> Option<Vec<T>> { s.list()?.iter().map(T::wdec).collect() };
    let Some(m) = args[1].list() else { return bad_case() };
    if m.len() != 3 {
        return bad_case();
    }
    let (Some(xs), Some(rows), Some(cols), Some(data), Some(p), Some(r)) =
        (dec_list(&args[0]), m[0].usize(), m[1].usize(), dec_list(&m[2]), T::wdec(&args[2]), T::wdec(&args[3]))
    else {
        return bad_case();
    };
    if xs.is_empty() || rows == 0 || cols == 0 || rows.checked_mul(cols) != Some(data.len()) {
        return bad_case();
    }
    let scalar = |r: Option<T>| match r {
        Some(v) => ok(v.wenc()),
        None => panicked(),
    };
    let rows_of = |n: usize, c: usize, it: &mut dyn Iterator<Item = T>| -> Sx {
        let v: Vec<T> = it.collect();
        l((0..n).map(|i| l(v[i * c..(i + 1) * c].iter().map(|x| x.wenc()).collect())).collect())
    };
    let mat = |r: Option<Matrix<T>>| match r {
        Some(m) => {
            let (n, c) = m.size();
            ok(rows_of(n, c, &mut m.row_major_iter()))
        }
        None => panicked(),
    };
    let ten = |r: Option<Tensor<T, 2>>| match r {
        Some(t) => {
            let s = t.shape();
            if s[0].0 != "i" || s[1].0 != "j" {
                return inconsistent(1975);
            }
            ok(rows_of(s[0].1, s[1].1, &mut t.iter()))
        }
        None => panicked(),
    };
    let matrix = Matrix::from_flat_row_major((rows, cols), data.clone());
    let tensor = Tensor::from([(dim(0), rows), (dim(1), cols)], data);
    if let Err(code) = mean_variance_shapes::<T>(&xs, crate::shapes::key_of(args), 19200, &|v: &T| v.wenc()) {
        return inconsistent(code);
    }
    let mut out = vec![
        scalar(guarded(|| la::mean(xs.iter().cloned()))),
        scalar(guarded(|| la::variance(xs.iter().cloned()))),
    ];
    // the matrix routines: free function and method
    let cc = mat(guarded(|| la::covariance_column_features::<T>(&matrix)));
    if cc != mat(guarded(|| matrix.covariance_column_features())) {
        return inconsistent(1976);
    }
    out.push(cc);
    let cr = mat(guarded(|| la::covariance_row_features::<T>(&matrix)));
    if cr != mat(guarded(|| matrix.covariance_row_features())) {
        return inconsistent(1977);
    }
    out.push(cr);
    // the tensor routine: free function (tensor, &tensor, view), Tensor::covariance, TensorView::covariance
    for d in 0..2usize {
        let forms = [
            ten(guarded(|| la::covariance::<T, _, _>(&tensor, dim(d)))),
            ten(guarded(|| la::covariance::<T, _, _>(tensor.clone(), dim(d)))),
            ten(guarded(|| la::covariance::<T, _, _>(TensorView::from(&tensor), dim(d)))),
            ten(guarded(|| tensor.covariance(dim(d)))),
            ten(guarded(|| TensorView::from(&tensor).covariance(dim(d)))),
        ];
        for (i, f) in forms.iter().enumerate() {
            if *f != forms[0] {
                return inconsistent(1978 + 10 * d as i64 + 100 * i as i64);
            }
        }
        out.push(forms[0].clone());
    }
    match guarded(|| la::f1_score::<T>(p.clone(), r.clone())) {
        Some(v) => out.push(v.wenc()),
        None => out.push(panicked()),
    }
    l(out)
}

/// (19 13 ty (d ..) (v ..) (rows cols data)): routines no other property instantiates at the
/// user types.
fn ctor_case<T>(args: &[Sx]) -> Sx
where
    T: easy_ml::numeric::extra::Real + Numeric + Primitive + Enc + PartialEq + 'static,
    for<'a> &'a T: easy_ml::numeric::extra::RealRef<T> + NumericRef<T>,
{
    use easy_ml::matrices::iterators::{ColumnMajorOwnedIterator, RowMajorOwnedIterator};
    use easy_ml::numeric::extra::Pi;
    use easy_ml::tensors::indexing::TensorOwnedIterator;
    let Some(m) = args[2].list() else { return bad_case() };
    if m.len() != 3 {
        return bad_case();
    }
    let (Some(d), Some(v), Some(rows), Some(cols), Some(data)) = (
        crate::num::dec_list::<T>(&args[0]),
        crate::num::dec_list::<T>(&args[1]),
        m[0].usize(),
        m[1].usize(),
        crate::num::dec_list::<T>(&m[2]),
    ) else {
        return bad_case();
    };
    if d.is_empty() || v.is_empty() || rows == 0 || cols == 0 || rows.checked_mul(cols) != Some(data.len()) {
        return bad_case();
    }
    let enc_list = |v: Vec<T>| l(v.iter().map(|x| x.enc()).collect());
    let scalar = |r: Option<T>| match r {
        Some(v) => ok(v.enc()),
        None => panicked(),
    };
    let n = v.len();
    let diag = Matrix::from_diagonal(d);
    let (dr, dc) = diag.size();
    let matrix = Matrix::from_flat_row_major((rows, cols), data.clone());
    let tensor = Tensor::from([(dim(0), rows), (dim(1), cols)], data);
    let tpi = <Trace<T> as Pi>::pi();
    let rpi = <Record<T> as Pi>::pi();
    l(vec![
        l(vec![z(dr), z(dc), enc_list(diag.row_major_iter().collect())]),
        Tensor::from([(dim(0), n)], v.clone()).euclidean_length().enc(),
        scalar(guarded(|| Matrix::from_flat_row_major((n, 1), v.clone()).euclidean_length())),
        scalar(guarded(|| Matrix::from_flat_row_major((1, n), v.clone()).euclidean_length())),
        enc_list(RowMajorOwnedIterator::from_numeric(matrix.clone()).collect()),
        enc_list(ColumnMajorOwnedIterator::from_numeric(matrix).collect()),
        enc_list(TensorOwnedIterator::from_numeric(tensor).collect()),
        l(vec![tpi.number.enc(), tpi.derivative.enc()]),
        l(vec![rpi.number.enc(), opt(rpi.history().map(|_| z(0))), z(rpi.index)]),
    ])
}

/// (19 15 ty n (data)): determinant and inverse (Matrix route: free fn + method; Tensor route: free
/// fn on &Tensor, Tensor::inverse, TensorView::inverse) at any `Numeric` type — in particular types
/// whose `x / 0` panics: a singular input must answer None without dividing.
fn inverse_any_case<T>(args: &[Sx]) -> Sx
where
    T: Numeric + WEnc + PartialEq + 'static,
    for<'a> &'a T: NumericRef<T>,
{
    use easy_ml::linear_algebra as la;
    use easy_ml::tensors::views::TensorView;
    let (Some(n), Some(items)) = (args[0].usize(), args[1].list()) else { return bad_case() };
    let Some(data) = items.iter().map(T::wdec).collect::<Option<Vec<T>>>() else { return bad_case() };
    if !(1..=3).contains(&n) || data.len() != n * n {
        return bad_case();
    }
    let matrix = Matrix::from_flat_row_major((n, n), data.clone());
    let tensor = Tensor::from([(dim(0), n), (dim(1), n)], data);
    let rows_of = |v: Vec<T>| -> Sx { l((0..n).map(|i| l(v[i * n..(i + 1) * n].iter().map(|x| x.wenc()).collect())).collect()) };
    let out = |r: Option<Option<Sx>>| match r {
        Some(v) => ok(opt(v)),
        None => panicked(),
    };
    let det = [
        out(guarded(|| la::determinant::<T>(&matrix).map(|d| d.wenc()))),
        out(guarded(|| matrix.determinant().map(|d| d.wenc()))),
        out(guarded(|| la::determinant_tensor::<T, _, _>(&tensor).map(|d| d.wenc()))),
    ];
    let inv_m = [
        out(guarded(|| la::inverse::<T>(&matrix).map(|r| rows_of(r.row_major_iter().collect())))),
        out(guarded(|| matrix.inverse().map(|r| rows_of(r.row_major_iter().collect())))),
    ];
    let inv_t = [
        out(guarded(|| la::inverse_tensor::<T, _, _>(&tensor).map(|r| rows_of(r.iter().collect())))),
        out(guarded(|| tensor.inverse().map(|r| rows_of(r.iter().collect())))),
        out(guarded(|| TensorView::from(&tensor).inverse().map(|r| rows_of(r.iter().collect())))),
    ];
    if det.iter().any(|d| *d != det[0]) || inv_m[0] != inv_m[1] || inv_t.iter().any(|d| *d != inv_t[0]) {
        return inconsistent(1995);
    }
    l(vec![det[0].clone(), inv_m[0].clone(), inv_t[0].clone()])
}

/// The generic routines at an element type E (Trace<T> or Record<T>): every scalar of every
/// result encoded by `enc`.
fn wrapper_routines<E>(n: usize, m: &[E], xs: &[E], enc: &dyn Fn(&E) -> Sx) -> Sx
where
    E: easy_ml::numeric::extra::Real + Numeric + PartialEq,
    for<'a> &'a E: easy_ml::numeric::extra::RealRef<E> + NumericRef<E>,
{
    use easy_ml::linear_algebra as la;
    let matrix = Matrix::from_flat_row_major((n, n), m.to_vec());
    let tensor = Tensor::from([(dim(0), n), (dim(1), n)], m.to_vec());
    let vector = Tensor::from([(dim(0), xs.len())], xs.to_vec());
    let scalar = |r: Option<E>| match r {
        Some(v) => ok(enc(&v)),
        None => panicked(),
    };
    let rows_of = |v: Vec<E>| -> Sx { l((0..n).map(|i| l(v[i * n..(i + 1) * n].iter().map(enc).collect())).collect()) };
    // determinant / inverse: free function and method must agree on every encoded scalar
    let det_m = guarded(|| la::determinant::<E>(&matrix).map(|d| enc(&d)));
    let det_m2 = guarded(|| matrix.determinant().map(|d| enc(&d)));
    let det_t = guarded(|| la::determinant_tensor::<E, _, _>(&tensor).map(|d| enc(&d)));
    let det_t2 = guarded(|| tensor.determinant().map(|d| enc(&d)));
    let inv_m = guarded(|| la::inverse::<E>(&matrix).map(|r| rows_of(r.row_major_iter().collect())));
    let inv_m2 = guarded(|| matrix.inverse().map(|r| rows_of(r.row_major_iter().collect())));
    let inv_t = guarded(|| la::inverse_tensor::<E, _, _>(&tensor).map(|r| rows_of(r.iter().collect())));
    let inv_t2 = guarded(|| tensor.inverse().map(|r| rows_of(r.iter().collect())));
    if det_m != det_m2 || det_t != det_t2 || inv_m != inv_m2 || inv_t != inv_t2 {
        return inconsistent(1996);
    }
    let (Some(det_m), Some(det_t), Some(inv_m), Some(inv_t)) = (det_m, det_t, inv_m, inv_t) else {
        return inconsistent(1997);
    };
    // (a third of the cases only: at Record element types every encoded scalar costs a reverse sweep
    // of a tape that every extra call lengthens)
    let key = xs.iter().fold(n as u64, |h, x| crate::shapes::key_of(&[z(h as i64), enc(x)]));
    if key % 3 != 0 {
    } else if let Err(code) = mean_variance_shapes::<E>(xs, key, 19300, enc).and_then(|_| softmax_shapes::<E>(xs, key, 19300, enc)) {
        return inconsistent(code);
    }
    let product = guarded(|| &matrix * &matrix).map(|r| l(r.row_major_iter().map(|x| enc(&x)).collect()));
    let product2 = guarded(|| matrix.clone() * matrix.clone()).map(|r| l(r.row_major_iter().map(|x| enc(&x)).collect()));
    if product != product2 {
        return inconsistent(1998);
    }
    l(vec![
        opt(det_m),
        opt(det_t),
        opt(inv_m),
        opt(inv_t),
        scalar(guarded(|| la::mean(xs.iter().cloned()))),
        scalar(guarded(|| la::variance(xs.iter().cloned()))),
        match product {
            Some(p) => ok(p),
            None => panicked(),
        },
        l(la::softmax(xs.iter().cloned()).iter().map(enc).collect()),
        enc(&vector.euclidean_length()),
        enc(&la::f1_score::<E>(xs[0].clone(), xs[xs.len() - 1].clone())),
    ])
}

/// (19 14 ty n (data) (ddata) (xs) (dxs)): Trace<T> and Record<T> (all inputs variables on one
/// tape) as element types; Record's answer is (number, sum_i d/d input_i * seed_i).
fn wrapper_elem_case<T>(args: &[Sx]) -> Sx
where
    T: easy_ml::numeric::extra::Real + Numeric + Primitive + Enc + PartialEq + 'static,
    for<'a> &'a T: easy_ml::numeric::extra::RealRef<T> + NumericRef<T>,
{
    let (Some(n), Some(data), Some(ddata), Some(xs), Some(dxs)) = (
        args[0].usize(),
        crate::num::dec_list::<T>(&args[1]),
        crate::num::dec_list::<T>(&args[2]),
        crate::num::dec_list::<T>(&args[3]),
        crate::num::dec_list::<T>(&args[4]),
    ) else {
        return bad_case();
    };
    if !(1..=3).contains(&n) || data.len() != n * n || ddata.len() != n * n || xs.is_empty() || xs.len() != dxs.len() {
        return bad_case();
    }
    let lift = |v: &[T], d: &[T]| -> Vec<Trace<T>> {
        v.iter().zip(d).map(|(x, dx)| Trace { number: x.clone(), derivative: dx.clone() }).collect()
    };
    let by_trace = wrapper_routines::<Trace<T>>(n, &lift(&data, &ddata), &lift(&xs, &dxs), &|t: &Trace<T>| {
        l(vec![t.number.enc(), t.derivative.enc()])
    });
    let tape = WengertList::new();
    let rm: Vec<Record<T>> = data.iter().map(|x| Record::variable(x.clone(), &tape)).collect();
    let rx: Vec<Record<T>> = xs.iter().map(|x| Record::variable(x.clone(), &tape)).collect();
    let inputs: Vec<(Record<T>, T)> =
        rm.iter().cloned().zip(ddata.iter().cloned()).chain(rx.iter().cloned().zip(dxs.iter().cloned())).collect();
    let by_record = wrapper_routines::<Record<T>>(n, &rm, &rx, &|r: &Record<T>| {
        let mut directional = T::zero();
        if r.history().is_some() {
            let grad = r.derivatives();
            for (x, seed) in inputs.iter() {
                directional = directional + grad.at(x).clone() * seed.clone();
            }
        }
        l(vec![r.number.enc(), directional.enc()])
    });
    if by_trace != by_record {
        return l(vec![z(-8), z(1999), by_trace, by_record]);
    }
    by_trace
}

/// (19 11 tag fn abits bbits): Sqrt / Exp / Ln / Sin / Cos (by value and by reference), Pow (all
/// four forms) and Pi of f32 / f64 are the std methods, bit for bit (any NaN = any NaN).
fn float_extra_case(tag: i64, f: i64, a: &BigInt, b: &BigInt) -> Sx {
    use easy_ml::numeric::extra::{Cos, Exp, Ln, Pi, Pow, Sin, Sqrt};
    use num_traits::ToPrimitive;
    macro_rules! go {
        ($F:ty, $a:expr, $b:expr, $pi:expr) => {{
            let (a, b): ($F, $F) = ($a, $b);
            let (forms, expected): (Vec<$F>, $F) = match f {
                0 => (vec![Sqrt::sqrt(a), Sqrt::sqrt(&a)], <$F>::sqrt(a)),
                1 => (vec![Exp::exp(a), Exp::exp(&a)], <$F>::exp(a)),
                2 => (vec![Ln::ln(a), Ln::ln(&a)], <$F>::ln(a)),
                3 => (vec![Sin::sin(a), Sin::sin(&a)], <$F>::sin(a)),
                4 => (vec![Cos::cos(a), Cos::cos(&a)], <$F>::cos(a)),
                5 => (vec![Pow::pow(a, b), Pow::pow(a, &b), Pow::pow(&a, b), Pow::pow(&a, &b)], <$F>::powf(a, b)),
                6 => (vec![<$F as Pi>::pi()], $pi),
                _ => return bad_case(),
            };
            if forms.iter().any(|r| r.to_bits() != expected.to_bits() && !(r.is_nan() && expected.is_nan())) {
                return inconsistent(1955);
            }
            if f == 6 {
                l(vec![z(1), z(forms[0].to_bits())])
            } else {
                l(vec![z(1)])
            }
        }};
    }
    match tag {
        12 => {
            let (Some(a), Some(b)) = (a.to_u32(), b.to_u32()) else { return bad_case() };
            go!(f32, f32::from_bits(a), f32::from_bits(b), std::f32::consts::PI)
        }
        13 => {
            let (Some(a), Some(b)) = (a.to_u64(), b.to_u64()) else { return bad_case() };
            go!(f64, f64::from_bits(a), f64::from_bits(b), std::f64::consts::PI)
        }
        _ => bad_case(),
    }
}
