//! C08: Cholesky, LDL^T and QR decompositions through every entry point.
//!   (8 op ty (n0 n1) rows cols (x ...))      op 1 = Cholesky, 2 = LDL^T, 3 = QR
//! Result: see coq/theories/Run/RunC08.v.  The canonical result is the one of the tensor routine
//! on `&Tensor`; the Matrix routine and the tensor routine on an owned Tensor, `&mut Tensor`,
//! a TensorView over a borrowed / owned tensor, a TensorTranspose view of the transposed data, a
//! TensorMask view hiding an extra row and column and a TensorRange view into a padded tensor
//! must all produce the same factors (checked here).  `sqrt` is the uninterpreted polynomial of
//! num.rs, so the defining identities are NOT checked numerically here (they do not hold for the
//! stand-in) — only the exact equality with the model is compared by the check.
use crate::num::Enc;
use crate::sx::*;
use crate::with_ty;
use easy_ml::linear_algebra;
use easy_ml::matrices::Matrix;
use easy_ml::numeric::extra::{Real, RealRef};
use easy_ml::tensors::views::{IndexRange, TensorView};
use easy_ml::tensors::Tensor;

pub fn run(args: &[Sx]) -> Sx {
    if args.len() != 6 {
        return bad_case();
    }
    let (Some(op), Some(ty), Some(names), Some(rows), Some(cols)) =
        (args[0].i64(), args[1].i64(), args[2].usizes(), args[3].usize(), args[4].usize())
    else {
        return bad_case();
    };
    if names.len() != 2 || rows == 0 || cols == 0 || names[0] == names[1] || rows > 64 || cols > 64 {
        return bad_case();
    }
    // outside the language (see RunC08.v): Rat Cholesky beyond 4x4, Rat QR with more than one reflection
    if ty == 0 && ((op == 1 && rows > 4 && rows == cols) || (op == 3 && cols <= rows && std::cmp::min(rows - 1, cols) > 1)) {
        return bad_case();
    }
    with_ty!(ty, go(op, (names[0], names[1]), rows, cols, &args[5]))
}

type Shape = [(&'static str, usize); 2];
/// comparable form of a list of tensors: shapes and data
type Key<T> = Option<Vec<(Shape, Vec<T>)>>;

fn tkey<T: Clone>(t: &Tensor<T, 2>) -> (Shape, Vec<T>) {
    (t.shape(), t.iter().collect())
}
fn mdata<T: Clone>(m: &Matrix<T>) -> ((usize, usize), Vec<T>) {
    (m.size(), m.row_major_iter().collect())
}

fn go<T>(op: i64, names: (usize, usize), rows: usize, cols: usize, data: &Sx) -> Sx
where
    T: Real + Enc + PartialEq + std::fmt::Debug,
    for<'a> &'a T: RealRef<T>,
{
    let Some(data) = crate::num::dec_list::<T>(data) else { return bad_case() };
    if data.len() != rows * cols {
        return bad_case();
    }
    let (n0, n1) = (dim(names.0), dim(names.1));
    let at = |i: usize, j: usize| data[i * cols + j].clone();
    let junk = |k: usize| T::small(3 + (k as i64 % 5));

    let matrix = Matrix::from_flat_row_major((rows, cols), data.clone());
    let tensor = Tensor::from([(n0, rows), (n1, cols)], data.clone());
    let mut tdat = Vec::with_capacity(rows * cols);
    for j in 0..cols {
        for i in 0..rows {
            tdat.push(at(i, j));
        }
    }
    let transposed = Tensor::from([(n0, cols), (n1, rows)], tdat);
    let (pr, pc) = ((rows + 2 * cols) % (rows + 1), (3 * rows + cols) % (cols + 1));
    let mut bdat = Vec::new();
    for i in 0..rows + 1 {
        for j in 0..cols + 1 {
            if i == pr || j == pc {
                bdat.push(junk(i + 2 * j));
            } else {
                bdat.push(at(i - (i > pr) as usize, j - (j > pc) as usize));
            }
        }
    }
    let bigger = Tensor::from([(n0, rows + 1), (n1, cols + 1)], bdat);
    let mut pdat = Vec::new();
    for i in 0..rows + 2 {
        for j in 0..cols + 2 {
            if i == 0 || j == 0 || i == rows + 1 || j == cols + 1 {
                pdat.push(junk(i + 3 * j));
            } else {
                pdat.push(at(i - 1, j - 1));
            }
        }
    }
    let padded = Tensor::from([(n0, rows + 2), (n1, cols + 2)], pdat);

    // every tensor form of one routine, as comparable keys; $f maps its argument to a Key<T>
    macro_rules! forms {
        ($f:ident) => {{
            let mut v: Vec<(i64, Key<T>)> = vec![];
            v.push((1, $f!(&tensor)));
            v.push((2, $f!(tensor.clone())));
            {
                let mut copy = tensor.clone();
                v.push((3, $f!(&mut copy)));
            }
            {
                let view = TensorView::from(&tensor);
                v.push((4, $f!(&view)));
                v.push((5, $f!(TensorView::from(tensor.clone()))));
            }
            v.push((6, $f!(transposed.transpose_view([n1, n0]))));
            match bigger.mask([(n0, IndexRange::new(pr, 1)), (n1, IndexRange::new(pc, 1))]) {
                Ok(view) => v.push((7, $f!(view))),
                Err(_) => return inconsistent(870),
            }
            match padded.range([(n0, IndexRange::new(1, rows)), (n1, IndexRange::new(1, cols))]) {
                Ok(view) => v.push((8, $f!(view))),
                Err(_) => return inconsistent(871),
            }
            v
        }};
    }
    let enc_shape = |s: &Shape| shape_sx(s);
    let enc_data = |d: &Vec<T>| l(d.iter().map(|x| x.enc()).collect());

    match op {
        1 => {
            macro_rules! chol {
                ($x:expr) => {
                    linear_algebra::cholesky_decomposition_tensor::<T, _, _>($x).map(|t| vec![tkey(&t)])
                };
            }
            let all = forms!(chol);
            let canonical = all[0].1.clone();
            for (code, k) in &all {
                if *k != canonical {
                    return inconsistent(800 + code);
                }
            }
            let m = linear_algebra::cholesky_decomposition::<T>(&matrix);
            match (&m, &canonical) {
                (None, None) => {}
                (Some(m), Some(c)) => {
                    let (size, d) = mdata(m);
                    if size != (c[0].0[0].1, c[0].0[1].1) || d != c[0].1 {
                        return inconsistent(810);
                    }
                }
                _ => return inconsistent(811),
            }
            opt(canonical.map(|c| l(vec![enc_shape(&c[0].0), enc_data(&c[0].1)])))
        }
        2 => {
            macro_rules! ldlt {
                ($x:expr) => {
                    linear_algebra::ldlt_decomposition_tensor::<T, _, _>($x)
                        .map(|dec| vec![tkey(&dec.l), tkey(&dec.d)])
                };
            }
            let all = forms!(ldlt);
            let canonical = all[0].1.clone();
            for (code, k) in &all {
                if *k != canonical {
                    return inconsistent(820 + code);
                }
            }
            let m = linear_algebra::ldlt_decomposition::<T>(&matrix);
            match (&m, &canonical) {
                (None, None) => {}
                (Some(m), Some(c)) => {
                    let (ls, ld) = mdata(&m.l);
                    let (ds, dd) = mdata(&m.d);
                    if ls != (c[0].0[0].1, c[0].0[1].1) || ld != c[0].1 || ds != ls || dd != c[1].1 {
                        return inconsistent(830);
                    }
                }
                _ => return inconsistent(831),
            }
            opt(canonical.map(|c| {
                if c[0].0 != c[1].0 {
                    return inconsistent(832);
                }
                l(vec![enc_shape(&c[0].0), enc_data(&c[0].1), enc_data(&c[1].1)])
            }))
        }
        3 => {
            macro_rules! qr {
                ($x:expr) => {
                    linear_algebra::qr_decomposition_tensor::<T, _, _>($x)
                        .map(|dec| vec![tkey(&dec.q), tkey(&dec.r)])
                };
            }
            let all = forms!(qr);
            let canonical = all[0].1.clone();
            for (code, k) in &all {
                if *k != canonical {
                    return inconsistent(840 + code);
                }
            }
            let m = linear_algebra::qr_decomposition::<T>(&matrix);
            match (&m, &canonical) {
                (None, None) => {}
                (Some(m), Some(c)) => {
                    let (qs, qd) = mdata(&m.q);
                    let (rs, rd) = mdata(&m.r);
                    if qs != (c[0].0[0].1, c[0].0[1].1)
                        || qd != c[0].1
                        || rs != (c[1].0[0].1, c[1].0[1].1)
                        || rd != c[1].1
                    {
                        return inconsistent(850);
                    }
                }
                _ => return inconsistent(851),
            }
            opt(canonical.map(|c| {
                l(vec![enc_shape(&c[0].0), enc_data(&c[0].1), enc_shape(&c[1].0), enc_data(&c[1].1)])
            }))
        }
        _ => bad_case(),
    }
}
