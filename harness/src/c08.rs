//! C08: Cholesky, LDL^T and QR decompositions through every entry point.
//!   (8 op ty (n0 n1) rows cols (x ...))      op 1 = Cholesky, 2 = LDL^T, 3 = QR
//!   ty 3 = StrictRat0: StrictRat with the sqrt stand-in x^3 + 7x (zero at zero): QR on a zero
//!   (sub-)column divides 0 / 0 and panics; the model (instrumented, Model/DecompDiv.v) predicts it.
//!   For tags 2 and 3 the model side runs the division-instrumented transcriptions and predicts
//!   value / absence / panic `(2)`.
//!   ty 0 = Rat, 1 = Fp (total division, num.rs), 2 = StrictRat (c08/strict.rs): the values of Rat,
//!   entries encoded as for Rat, but `/` PANICS on a zero divisor, as the division of ordinary exact
//!   types does.  The property demands absence, "never a wrong factor or a panic", for a zero pivot
//!   (LDL^T) / a non-positive pivot (Cholesky), so the routines have to decide absence BEFORE they
//!   divide by the pivot; the model runs its total dictionary for tag 2 (its theorems say zero pivot
//!   <-> None) and a panic of any entry point is answered `(2)`, which no model result equals.
//!   All three routines host the type: LDL^T divides only by a pivot it tested `== 0`; Cholesky only
//!   by sqrt(pivot) with pivot > 0; QR only by the euclidean length sqrt(u.u) — and the polynomial
//!   stand-in sqrt x = x^3 + 7x + 23 is >= 23 on every x >= 0, so neither ever divides by zero on the
//!   unchanged code (with a true square root QR would, on a zero column: 0/0 — outside the property).
//! Result: see coq/theories/Run/RunC08.v.  The canonical result is the one of the tensor routine
//! on `&Tensor`; the Matrix routine and the tensor routine on an owned Tensor, `&mut Tensor`,
//! a TensorView over a borrowed / owned tensor, a TensorTranspose view of the transposed data, a
//! TensorMask view hiding an extra row and column and a TensorRange view into a padded tensor
//! must all produce the same factors (checked here).  `sqrt` is the uninterpreted polynomial of
//! num.rs, so the defining identities are NOT checked numerically here (they do not hold for the
//! stand-in) — only the exact equality with the model is compared by the check.
use crate::num::Enc;
use crate::sx::*;
use crate::with_ty;
use easy_ml::linear_algebra;
use easy_ml::matrices::Matrix;
use easy_ml::numeric::extra::{Real, RealRef};
use easy_ml::tensors::views::{IndexRange, TensorView};
use easy_ml::tensors::Tensor;

mod strict;

pub fn run(args: &[Sx]) -> Sx {
    if args.len() == 7 && args[0].i64() == Some(4) {
        return float_oracle(args);
    }
    if args.len() != 6 {
        return bad_case();
    }
    let (Some(op), Some(ty), Some(names), Some(rows), Some(cols)) =
        (args[0].i64(), args[1].i64(), args[2].usizes(), args[3].usize(), args[4].usize())
    else {
        return bad_case();
    };
    if names.len() != 2 || rows == 0 || cols == 0 || names[0] == names[1] || rows > 64 || cols > 64 {
        return bad_case();
    }
    // outside the language (see RunC08.v): Rat Cholesky beyond 4x4, Rat QR with more than one reflection
    // (exception, tag 3 only: two reflections on cheap inputs, see RunC08.v c08_sparse_small)
    let iterations = std::cmp::min(rows - 1, cols);
    if (ty == 0 || ty == 2 || ty == 3)
        && ((op == 1 && rows > 4 && rows == cols)
            || (op == 3
                && cols <= rows
                && iterations > 1
                && !(ty == 3 && iterations == 2 && rows <= 4 && sparse_small(rows, cols, &args[5]))))
    {
        return bad_case();
    }
    if ty == 2 {
        // a panic inside any entry point (division by zero of StrictRat, or anything else): `(2)`
        return match crate::guarded(|| go::<strict::StrictRat>(op, (names[0], names[1]), rows, cols, &args[5])) {
            Some(r) => r,
            None => panicked(),
        };
    }
    if ty == 3 {
        // StrictRat0: as tag 2 with the sqrt stand-in x^3 + 7x (zero at zero).  EVERY entry point is
        // run separately: the model predicts panic / value / absence of the routine, and all nine
        // entry points must do the same (a panicking form next to a non-panicking one is `(-8 ...)`)
        return strict0(op, (names[0], names[1]), rows, cols, &args[5]);
    }
    with_ty!(ty, go(op, (names[0], names[1]), rows, cols, &args[5]))
}

/// tag 3: the whole comparison under catch_unwind; when it panics, the canonical entry point alone
/// (tensor routine on `&Tensor`) and the Matrix routine alone must panic too — otherwise only some
/// form panicked and the forms disagree
fn strict0(op: i64, names: (usize, usize), rows: usize, cols: usize, data: &Sx) -> Sx {
    use strict::StrictRat0 as T;
    if let Some(r) = crate::guarded(|| go::<T>(op, names, rows, cols, data)) {
        return r;
    }
    let Some(d) = crate::num::dec_list::<T>(data) else { return bad_case() };
    if d.len() != rows * cols {
        return bad_case();
    }
    let tensor = Tensor::from([(dim(names.0), rows), (dim(names.1), cols)], d.clone());
    let matrix = Matrix::from_flat_row_major((rows, cols), d);
    let t_panics = crate::guarded(|| match op {
        1 => linear_algebra::cholesky_decomposition_tensor::<T, _, _>(&tensor).is_some(),
        2 => linear_algebra::ldlt_decomposition_tensor::<T, _, _>(&tensor).is_some(),
        _ => linear_algebra::qr_decomposition_tensor::<T, _, _>(&tensor).is_some(),
    })
    .is_none();
    let m_panics = crate::guarded(|| match op {
        1 => linear_algebra::cholesky_decomposition::<T>(&matrix).is_some(),
        2 => linear_algebra::ldlt_decomposition::<T>(&matrix).is_some(),
        _ => linear_algebra::qr_decomposition::<T>(&matrix).is_some(),
    })
    .is_none();
    if t_panics && m_panics {
        panicked()
    } else {
        inconsistent(890)
    }
}

/// every entry written `(n 1)` with |n| <= 2 and column 0 zero below the diagonal
fn sparse_small(rows: usize, cols: usize, data: &Sx) -> bool {
    let Some(items) = data.list() else { return false };
    let entry = |s: &Sx| -> Option<i64> {
        let p = s.list()?;
        if p.len() == 2 && p[1].i64() == Some(1) {
            p[0].i64().filter(|n| n.abs() <= 2)
        } else {
            None
        }
    };
    items.iter().all(|s| entry(s).is_some())
        && (1..rows).all(|i| items.get(i * cols).and_then(entry) == Some(0))
}

type Shape = [(&'static str, usize); 2];
/// comparable form of a list of tensors: shapes and data
type Key<T> = Option<Vec<(Shape, Vec<T>)>>;

fn tkey<T: Clone>(t: &Tensor<T, 2>) -> (Shape, Vec<T>) {
    (t.shape(), t.iter().collect())
}
fn mdata<T: Clone>(m: &Matrix<T>) -> ((usize, usize), Vec<T>) {
    (m.size(), m.row_major_iter().collect())
}

fn go<T>(op: i64, names: (usize, usize), rows: usize, cols: usize, data: &Sx) -> Sx
where
    T: Real + Enc + PartialEq + std::fmt::Debug,
    for<'a> &'a T: RealRef<T>,
{
    let Some(data) = crate::num::dec_list::<T>(data) else { return bad_case() };
    if data.len() != rows * cols {
        return bad_case();
    }
    let (n0, n1) = (dim(names.0), dim(names.1));
    let at = |i: usize, j: usize| data[i * cols + j].clone();
    let junk = |k: usize| T::small(3 + (k as i64 % 5));

    let matrix = Matrix::from_flat_row_major((rows, cols), data.clone());
    let tensor = Tensor::from([(n0, rows), (n1, cols)], data.clone());
    let mut tdat = Vec::with_capacity(rows * cols);
    for j in 0..cols {
        for i in 0..rows {
            tdat.push(at(i, j));
        }
    }
    let transposed = Tensor::from([(n0, cols), (n1, rows)], tdat);
    let (pr, pc) = ((rows + 2 * cols) % (rows + 1), (3 * rows + cols) % (cols + 1));
    let mut bdat = Vec::new();
    for i in 0..rows + 1 {
        for j in 0..cols + 1 {
            if i == pr || j == pc {
                bdat.push(junk(i + 2 * j));
            } else {
                bdat.push(at(i - (i > pr) as usize, j - (j > pc) as usize));
            }
        }
    }
    let bigger = Tensor::from([(n0, rows + 1), (n1, cols + 1)], bdat);
    let mut pdat = Vec::new();
    for i in 0..rows + 2 {
        for j in 0..cols + 2 {
            if i == 0 || j == 0 || i == rows + 1 || j == cols + 1 {
                pdat.push(junk(i + 3 * j));
            } else {
                pdat.push(at(i - 1, j - 1));
            }
        }
    }
    let padded = Tensor::from([(n0, rows + 2), (n1, cols + 2)], pdat);

    // every tensor form of one routine, as comparable keys; $f maps its argument to a Key<T>
    macro_rules! forms {
        ($f:ident) => {{
            let mut v: Vec<(i64, Key<T>)> = vec![];
            v.push((1, $f!(&tensor)));
            v.push((2, $f!(tensor.clone())));
            {
                let mut copy = tensor.clone();
                v.push((3, $f!(&mut copy)));
            }
            {
                let view = TensorView::from(&tensor);
                v.push((4, $f!(&view)));
                v.push((5, $f!(TensorView::from(tensor.clone()))));
            }
            v.push((6, $f!(transposed.transpose_view([n1, n0]))));
            match bigger.mask([(n0, IndexRange::new(pr, 1)), (n1, IndexRange::new(pc, 1))]) {
                Ok(view) => v.push((7, $f!(view))),
                Err(_) => return inconsistent(870),
            }
            match padded.range([(n0, IndexRange::new(1, rows)), (n1, IndexRange::new(1, cols))]) {
                Ok(view) => v.push((8, $f!(view))),
                Err(_) => return inconsistent(871),
            }
            v
        }};
    }
    let enc_shape = |s: &Shape| shape_sx(s);
    let enc_data = |d: &Vec<T>| l(d.iter().map(|x| x.enc()).collect());

    match op {
        1 => {
            macro_rules! chol {
                ($x:expr) => {
                    linear_algebra::cholesky_decomposition_tensor::<T, _, _>($x).map(|t| vec![tkey(&t)])
                };
            }
            let all = forms!(chol);
            let canonical = all[0].1.clone();
            for (code, k) in &all {
                if *k != canonical {
                    return inconsistent(800 + code);
                }
            }
            let m = linear_algebra::cholesky_decomposition::<T>(&matrix);
            match (&m, &canonical) {
                (None, None) => {}
                (Some(m), Some(c)) => {
                    let (size, d) = mdata(m);
                    if size != (c[0].0[0].1, c[0].0[1].1) || d != c[0].1 {
                        return inconsistent(810);
                    }
                }
                _ => return inconsistent(811),
            }
            opt(canonical.map(|c| l(vec![enc_shape(&c[0].0), enc_data(&c[0].1)])))
        }
        2 => {
            macro_rules! ldlt {
                ($x:expr) => {
                    linear_algebra::ldlt_decomposition_tensor::<T, _, _>($x)
                        .map(|dec| vec![tkey(&dec.l), tkey(&dec.d)])
                };
            }
            let all = forms!(ldlt);
            let canonical = all[0].1.clone();
            for (code, k) in &all {
                if *k != canonical {
                    return inconsistent(820 + code);
                }
            }
            let m = linear_algebra::ldlt_decomposition::<T>(&matrix);
            match (&m, &canonical) {
                (None, None) => {}
                (Some(m), Some(c)) => {
                    let (ls, ld) = mdata(&m.l);
                    let (ds, dd) = mdata(&m.d);
                    if ls != (c[0].0[0].1, c[0].0[1].1) || ld != c[0].1 || ds != ls || dd != c[1].1 {
                        return inconsistent(830);
                    }
                }
                _ => return inconsistent(831),
            }
            opt(canonical.map(|c| {
                if c[0].0 != c[1].0 {
                    return inconsistent(832);
                }
                l(vec![enc_shape(&c[0].0), enc_data(&c[0].1), enc_data(&c[1].1)])
            }))
        }
        3 => {
            macro_rules! qr {
                ($x:expr) => {
                    linear_algebra::qr_decomposition_tensor::<T, _, _>($x)
                        .map(|dec| vec![tkey(&dec.q), tkey(&dec.r)])
                };
            }
            let all = forms!(qr);
            let canonical = all[0].1.clone();
            for (code, k) in &all {
                if *k != canonical {
                    return inconsistent(840 + code);
                }
            }
            let m = linear_algebra::qr_decomposition::<T>(&matrix);
            match (&m, &canonical) {
                (None, None) => {}
                (Some(m), Some(c)) => {
                    let (qs, qd) = mdata(&m.q);
                    let (rs, rd) = mdata(&m.r);
                    if qs != (c[0].0[0].1, c[0].0[1].1)
                        || qd != c[0].1
                        || rs != (c[1].0[0].1, c[1].0[1].1)
                        || rd != c[1].1
                    {
                        return inconsistent(850);
                    }
                }
                _ => return inconsistent(851),
            }
            opt(canonical.map(|c| {
                l(vec![enc_shape(&c[0].0), enc_data(&c[0].1), enc_shape(&c[1].0), enc_data(&c[1].1)])
            }))
        }
        _ => bad_case(),
    }
}


// ------------------------------------------------------------------ op 4: f64 oracle
//   (8 4 which (n0 n1) rows cols (x ...) scale)   entries (num/den) * 2^scale
// (1) present and every defining identity holds, () absent, (0 code) an identity fails.
fn float_oracle(args: &[Sx]) -> Sx {
    let (Some(which), Some(names), Some(rows), Some(cols), Some(raw), Some(scale)) = (
        args[1].i64(),
        args[2].usizes(),
        args[3].usize(),
        args[4].usize(),
        args[5].list(),
        args[6].i64(),
    ) else {
        return bad_case();
    };
    if names.len() != 2 || names[0] == names[1] || rows == 0 || cols == 0 || rows > 8 || cols > 8
        || raw.len() != rows * cols || scale.abs() > 900
    {
        return bad_case();
    }
    let mut data = Vec::with_capacity(rows * cols);
    for x in raw {
        let Some(p) = x.list() else { return bad_case() };
        if p.len() != 2 {
            return bad_case();
        }
        let (Some(n), Some(d)) = (p[0].i64(), p[1].i64()) else { return bad_case() };
        if d == 0 {
            return bad_case();
        }
        data.push((n as f64 / d as f64) * 2f64.powi(scale as i32));
    }
    let (n0, n1) = (dim(names[0]), dim(names[1]));
    let a = |i: usize, j: usize| data[i * cols + j];
    let norm = data.iter().fold(0.0f64, |m, x| m.max(x.abs()));
    let matrix = Matrix::from_flat_row_major((rows, cols), data.clone());
    let tensor = Tensor::from([(n0, rows), (n1, cols)], data.clone());
    let mut tdat = Vec::with_capacity(rows * cols);
    for j in 0..cols {
        for i in 0..rows {
            tdat.push(a(i, j));
        }
    }
    let transposed = Tensor::from([(n0, cols), (n1, rows)], tdat);
    let bits = |t: &Tensor<f64, 2>| (t.shape(), t.iter().map(|x| x.to_bits()).collect::<Vec<u64>>());
    let mbits = |m: &Matrix<f64>| (m.size(), m.row_major_iter().map(|x| x.to_bits()).collect::<Vec<u64>>());
    let flat = |t: &Tensor<f64, 2>| t.iter().collect::<Vec<f64>>();
    let bad = |code: i64| l(vec![z(0), z(code)]);
    let yes = l(vec![z(1)]);
    let tol = 1e-9 * norm;
    match which {
        1 => {
            let r = linear_algebra::cholesky_decomposition_tensor::<f64, _, _>(&tensor);
            let forms = [
                linear_algebra::cholesky_decomposition_tensor::<f64, _, _>(tensor.clone()),
                linear_algebra::cholesky_decomposition_tensor::<f64, _, _>(TensorView::from(&tensor)),
                linear_algebra::cholesky_decomposition_tensor::<f64, _, _>(transposed.transpose_view([n1, n0])),
            ];
            for f in &forms {
                if f.as_ref().map(bits) != r.as_ref().map(bits) {
                    return inconsistent(881);
                }
            }
            let m = linear_algebra::cholesky_decomposition::<f64>(&matrix);
            if m.as_ref().map(|x| mbits(x).1) != r.as_ref().map(|x| bits(x).1) {
                return inconsistent(882);
            }
            let Some(lt) = r else { return nil() };
            if lt.shape() != tensor.shape() {
                return bad(1);
            }
            let lf = flat(&lt);
            let n = rows;
            let le = |i: usize, j: usize| lf[i * n + j];
            for i in 0..n {
                if !(le(i, i) > 0.0) {
                    return bad(2);
                }
                for j in i + 1..n {
                    if le(i, j) != 0.0 {
                        return bad(3);
                    }
                }
                for j in 0..n {
                    let s: f64 = (0..n).map(|k| le(i, k) * le(j, k)).sum();
                    if !((s - a(i, j)).abs() <= tol) {
                        return bad(4);
                    }
                }
            }
            yes
        }
        2 => {
            let r = linear_algebra::ldlt_decomposition_tensor::<f64, _, _>(&tensor);
            let key = |x: &Option<linear_algebra::LDLTDecompositionTensor<f64>>| {
                x.as_ref().map(|d| (bits(&d.l), bits(&d.d)))
            };
            let forms = [
                linear_algebra::ldlt_decomposition_tensor::<f64, _, _>(tensor.clone()),
                linear_algebra::ldlt_decomposition_tensor::<f64, _, _>(TensorView::from(&tensor)),
                linear_algebra::ldlt_decomposition_tensor::<f64, _, _>(transposed.transpose_view([n1, n0])),
            ];
            for f in &forms {
                if key(f) != key(&r) {
                    return inconsistent(883);
                }
            }
            let m = linear_algebra::ldlt_decomposition::<f64>(&matrix);
            if m.as_ref().map(|x| (mbits(&x.l).1, mbits(&x.d).1)) != r.as_ref().map(|x| (bits(&x.l).1, bits(&x.d).1)) {
                return inconsistent(884);
            }
            let Some(dec) = r else { return nil() };
            if dec.l.shape() != tensor.shape() || dec.d.shape() != tensor.shape() {
                return bad(11);
            }
            let (lf, df) = (flat(&dec.l), flat(&dec.d));
            let n = rows;
            let le = |i: usize, j: usize| lf[i * n + j];
            let de = |i: usize, j: usize| df[i * n + j];
            for i in 0..n {
                if le(i, i) != 1.0 || de(i, i) == 0.0 {
                    return bad(12);
                }
                for j in 0..n {
                    if (j > i && le(i, j) != 0.0) || (j != i && de(i, j) != 0.0) {
                        return bad(13);
                    }
                    let s: f64 = (0..n).map(|k| le(i, k) * de(k, k) * le(j, k)).sum();
                    if !((s - a(i, j)).abs() <= tol) {
                        return bad(14);
                    }
                }
            }
            yes
        }
        3 => {
            let r = linear_algebra::qr_decomposition_tensor::<f64, _, _>(&tensor);
            let key = |x: &Option<linear_algebra::QRDecompositionTensor<f64>>| {
                x.as_ref().map(|d| (bits(&d.q), bits(&d.r)))
            };
            let forms = [
                linear_algebra::qr_decomposition_tensor::<f64, _, _>(tensor.clone()),
                linear_algebra::qr_decomposition_tensor::<f64, _, _>(TensorView::from(&tensor)),
                linear_algebra::qr_decomposition_tensor::<f64, _, _>(transposed.transpose_view([n1, n0])),
            ];
            for f in &forms {
                if key(f) != key(&r) {
                    return inconsistent(885);
                }
            }
            let m = linear_algebra::qr_decomposition::<f64>(&matrix);
            if m.as_ref().map(|x| (mbits(&x.q).1, mbits(&x.r).1)) != r.as_ref().map(|x| (bits(&x.q).1, bits(&x.r).1)) {
                return inconsistent(886);
            }
            let Some(dec) = r else { return nil() };
            if dec.q.shape() != [(n0, rows), (n1, rows)] || dec.r.shape() != [(n0, rows), (n1, cols)] {
                return bad(21);
            }
            let (qf, rf) = (flat(&dec.q), flat(&dec.r));
            let qe = |i: usize, j: usize| qf[i * rows + j];
            let re = |i: usize, j: usize| rf[i * cols + j];
            for i in 0..rows {
                for j in 0..cols {
                    // upper triangular: exactly zero or negligible against the input
                    if j < i && !(re(i, j).abs() <= 1e-12 * norm) {
                        return bad(22);
                    }
                    let s: f64 = (0..rows).map(|k| qe(i, k) * re(k, j)).sum();
                    if !((s - a(i, j)).abs() <= tol) {
                        return bad(23);
                    }
                }
                for j in 0..rows {
                    let s: f64 = (0..rows).map(|k| qe(k, i) * qe(k, j)).sum();
                    let want = if i == j { 1.0 } else { 0.0 };
                    if !((s - want).abs() <= 1e-9) {
                        return bad(24);
                    }
                }
            }
            yes
        }
        _ => bad_case(),
    }
}
