//! `StrictRat`: the harness' exact rationals (`num::Rat`) with a `/` that PANICS on a zero divisor,
//! like every ordinary exact rational / integer type does (num-rational, i64, ...).  Everything
//! else — `+ - *`, negation, comparison, `Sum`, zero / one / from_usize, the uninterpreted
//! polynomial stand-ins for sqrt / exp / ln / sin / cos / pow / pi — is delegated to `Rat`, so on
//! every run in which no division by zero happens the values are exactly those of `Rat` (type tag 0).
//! Type tag 2 of the C08 case language.  The model runs the SAME total dictionary (Qops) for tag 2:
//! the property says a zero pivot / a non-positive pivot gives absence, "never a wrong factor or
//! a panic", so the routines must decide absence BEFORE they divide by the pivot; a routine that
//! divides first is silently fine on `f64`, `Rat`, `Fp` (x / 0 is an infinity resp. 0 that is then
//! thrown away) and panics here.
use crate::num::{Enc, Rat};
use crate::sx::Sx;
use easy_ml::numeric::extra::{Cos, Exp, Ln, Pi, Pow, Sin, Sqrt};
use easy_ml::numeric::{FromUsize, ZeroOne};
use std::iter::Sum;
use std::ops::{Add, Div, Mul, Neg, Sub};

#[derive(Clone, Debug, PartialEq, PartialOrd)]
pub struct StrictQ<const Z: bool>(pub Rat);
/// type tag 2 (C08) / 4 (C07): sqrt stand-in of Rat (x^3 + 7x + 23, never zero on x >= 0)
pub type StrictRat = StrictQ<false>;
/// type tag 3 (C08): sqrt stand-in x^3 + 7x — zero at zero, positive on positive arguments, like
/// the true square root: a zero vector has euclidean length zero and Householder's
/// `element / &length` is 0 / 0 (a panic here) on a zero (sub-)column
#[allow(dead_code)]
pub type StrictRat0 = StrictQ<true>;

pub const DIV_BY_ZERO: &str = "StrictRat: division by zero";

impl<const Z: bool> StrictQ<Z> {
    fn add_(&self, o: &StrictQ<Z>) -> StrictQ<Z> {
        StrictQ(&self.0 + &o.0)
    }
    fn sub_(&self, o: &StrictQ<Z>) -> StrictQ<Z> {
        StrictQ(&self.0 - &o.0)
    }
    fn mul_(&self, o: &StrictQ<Z>) -> StrictQ<Z> {
        StrictQ(&self.0 * &o.0)
    }
    fn div_(&self, o: &StrictQ<Z>) -> StrictQ<Z> {
        // Rat is always reduced with a positive denominator, so zero has exactly one representation
        if o.0 == Rat::int(0) {
            panic!("{}", DIV_BY_ZERO);
        }
        StrictQ(&self.0 / &o.0)
    }
}

macro_rules! bin {
    ($Tr:ident, $m:ident, $f:ident) => {
        impl<const Z: bool> $Tr<StrictQ<Z>> for StrictQ<Z> {
            type Output = StrictQ<Z>;
            fn $m(self, o: StrictQ<Z>) -> StrictQ<Z> {
                self.$f(&o)
            }
        }
        impl<const Z: bool> $Tr<&StrictQ<Z>> for StrictQ<Z> {
            type Output = StrictQ<Z>;
            fn $m(self, o: &StrictQ<Z>) -> StrictQ<Z> {
                self.$f(o)
            }
        }
        impl<const Z: bool> $Tr<StrictQ<Z>> for &StrictQ<Z> {
            type Output = StrictQ<Z>;
            fn $m(self, o: StrictQ<Z>) -> StrictQ<Z> {
                self.$f(&o)
            }
        }
        impl<const Z: bool> $Tr<&StrictQ<Z>> for &StrictQ<Z> {
            type Output = StrictQ<Z>;
            fn $m(self, o: &StrictQ<Z>) -> StrictQ<Z> {
                self.$f(o)
            }
        }
    };
}
bin!(Add, add, add_);
bin!(Sub, sub, sub_);
bin!(Mul, mul, mul_);
bin!(Div, div, div_);

impl<const Z: bool> Neg for StrictQ<Z> {
    type Output = StrictQ<Z>;
    fn neg(self) -> StrictQ<Z> {
        StrictQ(-&self.0)
    }
}
impl<const Z: bool> Neg for &StrictQ<Z> {
    type Output = StrictQ<Z>;
    fn neg(self) -> StrictQ<Z> {
        StrictQ(-&self.0)
    }
}
impl<const Z: bool> Sum for StrictQ<Z> {
    fn sum<I: Iterator<Item = StrictQ<Z>>>(iter: I) -> StrictQ<Z> {
        iter.fold(Self::zero(), |a, b| a.add_(&b))
    }
}
impl<'a, const Z: bool> Sum<&'a StrictQ<Z>> for StrictQ<Z> {
    fn sum<I: Iterator<Item = &'a StrictQ<Z>>>(iter: I) -> StrictQ<Z> {
        iter.fold(Self::zero(), |a, b| a.add_(b))
    }
}
impl<const Z: bool> ZeroOne for StrictQ<Z> {
    fn zero() -> StrictQ<Z> {
        StrictQ(Rat::zero())
    }
    fn one() -> StrictQ<Z> {
        StrictQ(Rat::one())
    }
}
impl<const Z: bool> FromUsize for StrictQ<Z> {
    fn from_usize(n: usize) -> Option<StrictQ<Z>> {
        Rat::from_usize(n).map(StrictQ)
    }
}

macro_rules! un {
    ($Tr:ident, $m:ident) => {
        impl<const Z: bool> $Tr for StrictQ<Z> {
            type Output = StrictQ<Z>;
            fn $m(self) -> StrictQ<Z> {
                StrictQ((&self.0).$m())
            }
        }
        impl<const Z: bool> $Tr for &StrictQ<Z> {
            type Output = StrictQ<Z>;
            fn $m(self) -> StrictQ<Z> {
                StrictQ((&self.0).$m())
            }
        }
    };
}
impl<const Z: bool> StrictQ<Z> {
    fn sqrt_(&self) -> StrictQ<Z> {
        if Z {
            let x = &self.0;
            StrictQ(&(&(x * x) * x) + &(&Rat::int(7) * x))
        } else {
            StrictQ((&self.0).sqrt())
        }
    }
}
impl<const Z: bool> Sqrt for StrictQ<Z> {
    type Output = StrictQ<Z>;
    fn sqrt(self) -> StrictQ<Z> {
        self.sqrt_()
    }
}
impl<const Z: bool> Sqrt for &StrictQ<Z> {
    type Output = StrictQ<Z>;
    fn sqrt(self) -> StrictQ<Z> {
        self.sqrt_()
    }
}
un!(Exp, exp);
un!(Ln, ln);
un!(Sin, sin);
un!(Cos, cos);

impl<const Z: bool> Pow<StrictQ<Z>> for StrictQ<Z> {
    type Output = StrictQ<Z>;
    fn pow(self, rhs: StrictQ<Z>) -> StrictQ<Z> {
        StrictQ((&self.0).pow(&rhs.0))
    }
}
impl<const Z: bool> Pow<&StrictQ<Z>> for StrictQ<Z> {
    type Output = StrictQ<Z>;
    fn pow(self, rhs: &StrictQ<Z>) -> StrictQ<Z> {
        StrictQ((&self.0).pow(&rhs.0))
    }
}
impl<const Z: bool> Pow<StrictQ<Z>> for &StrictQ<Z> {
    type Output = StrictQ<Z>;
    fn pow(self, rhs: StrictQ<Z>) -> StrictQ<Z> {
        StrictQ((&self.0).pow(&rhs.0))
    }
}
impl<const Z: bool> Pow<&StrictQ<Z>> for &StrictQ<Z> {
    type Output = StrictQ<Z>;
    fn pow(self, rhs: &StrictQ<Z>) -> StrictQ<Z> {
        StrictQ((&self.0).pow(&rhs.0))
    }
}
impl<const Z: bool> Pi for StrictQ<Z> {
    fn pi() -> StrictQ<Z> {
        StrictQ(Rat::pi())
    }
}

impl<const Z: bool> Enc for StrictQ<Z> {
    fn enc(&self) -> Sx {
        self.0.enc()
    }
    fn dec(s: &Sx) -> Option<StrictQ<Z>> {
        Rat::dec(s).map(StrictQ)
    }
    fn small(v: i64) -> StrictQ<Z> {
        StrictQ(Rat::small(v))
    }
}

#[allow(dead_code)]
fn _assert_traits() {
    fn real<T: easy_ml::numeric::extra::Real>()
    where
        for<'a> &'a T: easy_ml::numeric::extra::RealRef<T>,
    {
    }
    real::<StrictRat>();
    real::<StrictRat0>();
}
