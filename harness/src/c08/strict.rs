//! `StrictRat`: the harness' exact rationals (`num::Rat`) with a `/` that PANICS on a zero divisor,
//! like every ordinary exact rational / integer type does (num-rational, i64, ...).  Everything
//! else — `+ - *`, negation, comparison, `Sum`, zero / one / from_usize, the uninterpreted
//! polynomial stand-ins for sqrt / exp / ln / sin / cos / pow / pi — is delegated to `Rat`, so on
//! every run in which no division by zero happens the values are exactly those of `Rat` (type tag 0).
//! Type tag 2 of the C08 case language.  The model runs the SAME total dictionary (Qops) for tag 2:
//! the property says a zero pivot / a non-positive pivot gives absence, "never a wrong factor or
//! a panic", so the routines must decide absence BEFORE they divide by the pivot; a routine that
//! divides first is silently fine on `f64`, `Rat`, `Fp` (x / 0 is an infinity resp. 0 that is then
//! thrown away) and panics here.
use crate::num::{Enc, Rat};
use crate::sx::Sx;
use easy_ml::numeric::extra::{Cos, Exp, Ln, Pi, Pow, Sin, Sqrt};
use easy_ml::numeric::{FromUsize, ZeroOne};
use std::iter::Sum;
use std::ops::{Add, Div, Mul, Neg, Sub};

#[derive(Clone, Debug, PartialEq, PartialOrd)]
pub struct StrictRat(pub Rat);

pub const DIV_BY_ZERO: &str = "StrictRat: division by zero";

impl StrictRat {
    fn add_(&self, o: &StrictRat) -> StrictRat {
        StrictRat(&self.0 + &o.0)
    }
    fn sub_(&self, o: &StrictRat) -> StrictRat {
        StrictRat(&self.0 - &o.0)
    }
    fn mul_(&self, o: &StrictRat) -> StrictRat {
        StrictRat(&self.0 * &o.0)
    }
    fn div_(&self, o: &StrictRat) -> StrictRat {
        // Rat is always reduced with a positive denominator, so zero has exactly one representation
        if o.0 == Rat::int(0) {
            panic!("{}", DIV_BY_ZERO);
        }
        StrictRat(&self.0 / &o.0)
    }
}

macro_rules! bin {
    ($Tr:ident, $m:ident, $f:ident) => {
        impl $Tr<StrictRat> for StrictRat {
            type Output = StrictRat;
            fn $m(self, o: StrictRat) -> StrictRat {
                self.$f(&o)
            }
        }
        impl $Tr<&StrictRat> for StrictRat {
            type Output = StrictRat;
            fn $m(self, o: &StrictRat) -> StrictRat {
                self.$f(o)
            }
        }
        impl $Tr<StrictRat> for &StrictRat {
            type Output = StrictRat;
            fn $m(self, o: StrictRat) -> StrictRat {
                self.$f(&o)
            }
        }
        impl $Tr<&StrictRat> for &StrictRat {
            type Output = StrictRat;
            fn $m(self, o: &StrictRat) -> StrictRat {
                self.$f(o)
            }
        }
    };
}
bin!(Add, add, add_);
bin!(Sub, sub, sub_);
bin!(Mul, mul, mul_);
bin!(Div, div, div_);

impl Neg for StrictRat {
    type Output = StrictRat;
    fn neg(self) -> StrictRat {
        StrictRat(-&self.0)
    }
}
impl Neg for &StrictRat {
    type Output = StrictRat;
    fn neg(self) -> StrictRat {
        StrictRat(-&self.0)
    }
}
impl Sum for StrictRat {
    fn sum<I: Iterator<Item = StrictRat>>(iter: I) -> StrictRat {
        iter.fold(StrictRat::zero(), |a, b| a.add_(&b))
    }
}
impl<'a> Sum<&'a StrictRat> for StrictRat {
    fn sum<I: Iterator<Item = &'a StrictRat>>(iter: I) -> StrictRat {
        iter.fold(StrictRat::zero(), |a, b| a.add_(b))
    }
}
impl ZeroOne for StrictRat {
    fn zero() -> StrictRat {
        StrictRat(Rat::zero())
    }
    fn one() -> StrictRat {
        StrictRat(Rat::one())
    }
}
impl FromUsize for StrictRat {
    fn from_usize(n: usize) -> Option<StrictRat> {
        Rat::from_usize(n).map(StrictRat)
    }
}

macro_rules! un {
    ($Tr:ident, $m:ident) => {
        impl $Tr for StrictRat {
            type Output = StrictRat;
            fn $m(self) -> StrictRat {
                StrictRat((&self.0).$m())
            }
        }
        impl $Tr for &StrictRat {
            type Output = StrictRat;
            fn $m(self) -> StrictRat {
                StrictRat((&self.0).$m())
            }
        }
    };
}
un!(Sqrt, sqrt);
un!(Exp, exp);
un!(Ln, ln);
un!(Sin, sin);
un!(Cos, cos);

impl Pow<StrictRat> for StrictRat {
    type Output = StrictRat;
    fn pow(self, rhs: StrictRat) -> StrictRat {
        StrictRat((&self.0).pow(&rhs.0))
    }
}
impl Pow<&StrictRat> for StrictRat {
    type Output = StrictRat;
    fn pow(self, rhs: &StrictRat) -> StrictRat {
        StrictRat((&self.0).pow(&rhs.0))
    }
}
impl Pow<StrictRat> for &StrictRat {
    type Output = StrictRat;
    fn pow(self, rhs: StrictRat) -> StrictRat {
        StrictRat((&self.0).pow(&rhs.0))
    }
}
impl Pow<&StrictRat> for &StrictRat {
    type Output = StrictRat;
    fn pow(self, rhs: &StrictRat) -> StrictRat {
        StrictRat((&self.0).pow(&rhs.0))
    }
}
impl Pi for StrictRat {
    fn pi() -> StrictRat {
        StrictRat(Rat::pi())
    }
}

impl Enc for StrictRat {
    fn enc(&self) -> Sx {
        self.0.enc()
    }
    fn dec(s: &Sx) -> Option<StrictRat> {
        Rat::dec(s).map(StrictRat)
    }
    fn small(v: i64) -> StrictRat {
        StrictRat(Rat::small(v))
    }
}

#[allow(dead_code)]
fn _assert_traits() {
    fn real<T: easy_ml::numeric::extra::Real>()
    where
        for<'a> &'a T: easy_ml::numeric::extra::RealRef<T>,
    {
    }
    real::<StrictRat>();
}
