//! op 4: `(2 4 shape layout names req)` — a source OUTSIDE the view algebra: a user-implemented
//! TensorRef over a tensor of `shape` that reports `layout` as its data_layout, whatever it is
//! (possibly breaking clause 5 of the TensorRef contract: names that are not the view_shape's).
//! Observed: `TensorRename::from(src, names).data_layout()`,
//! `TensorTranspose::try_from(src, req).map(data_layout)`, `TensorAccess::from_memory_order(src)`
//! (the two documented panic paths and the keep-the-name arm of the transposition), and for D = 2
//! `MatrixRefTensor::from(src).data_layout()`.
//! op 5: `(2 5 term n0 n1 probes)` — a 2-dimensional view of the algebra taken through
//! `MatrixRefTensor::from` and back through `TensorRefMatrix::with_names(.., [n0, n1])`.
use super::build::{build, e_access, e_shape, leaf_ids, AnyView, Arena, E};
use super::{layout_sx, value};
use crate::guarded;
use crate::sx::*;
use easy_ml::interop::{MatrixRefTensor, TensorRefMatrix};
use easy_ml::matrices::views::{DataLayout as MDataLayout, MatrixRef};
use easy_ml::tensors::indexing::{TensorAccess, TensorTranspose};
use easy_ml::tensors::views::{DataLayout, TensorRef, TensorRename};
use easy_ml::tensors::{Dimension, Tensor};

/// A TensorRef implementation a user of the crate could write: correct indexing (it delegates to
/// a Tensor), but an arbitrary claimed data_layout.
struct Foreign<const D: usize> {
    tensor: Tensor<E, D>,
    layout: DataLayout<D>,
}

// Safety (of this test double): indexing and shape are exactly the wrapped Tensor's, there is no
// interior mutability; only the data_layout claim may be wrong, and nothing here performs an
// unchecked access or a raw-memory walk based on it.
unsafe impl<const D: usize> TensorRef<E, D> for Foreign<D> {
    fn get_reference(&self, indexes: [usize; D]) -> Option<&E> {
        self.tensor.get_reference(indexes)
    }
    fn view_shape(&self) -> [(Dimension, usize); D] {
        self.tensor.view_shape()
    }
    unsafe fn get_reference_unchecked(&self, indexes: [usize; D]) -> &E {
        self.tensor.get_reference_unchecked(indexes)
    }
    fn data_layout(&self) -> DataLayout<D> {
        self.layout.clone()
    }
}

fn layout_of<const D: usize>(s: &Sx) -> Option<DataLayout<D>> {
    let v = s.list()?;
    match (v.first()?.i64()?, v.len()) {
        (0, 2) => {
            let names = v[1].usizes()?;
            if names.len() != D {
                return None;
            }
            Some(DataLayout::Linear(names_arr(&names)))
        }
        (1, 1) => Some(DataLayout::NonLinear),
        (2, 1) => Some(DataLayout::Other),
        _ => None,
    }
}

fn foreign_d<const D: usize>(shape: &[(usize, usize)], layout: &Sx, names: &[usize], req: &[usize]) -> Sx {
    let Some(layout) = layout_of::<D>(layout) else { return bad_case() };
    if names.len() != D || req.len() != D {
        return bad_case();
    }
    let shape: [(&'static str, usize); D] = shape_arr(shape);
    let Some(elements) = shape.iter().try_fold(1usize, |a, x| a.checked_mul(x.1)).filter(|e| *e <= 10_000) else {
        return bad_case();
    };
    let data: Vec<E> = (0..elements as i64).map(|k| (k, 0usize)).collect();
    let Ok(tensor) = Tensor::try_from(shape, data) else { return bad_case() };
    let src = Foreign { tensor, layout };
    let names: [&'static str; D] = names_arr(names);
    let req: [&'static str; D] = names_arr(req);
    // ---- TensorRename::data_layout (through the source itself, a shared reference and a Box)
    let renamed = guarded(|| TensorRename::from(&src, names).data_layout());
    let renamed_boxed = guarded(|| TensorRename::from(Box::new(&src), names).data_layout());
    if renamed != renamed_boxed {
        return inconsistent(280);
    }
    let renamed = match renamed {
        None => panicked(),
        Some(lay) => ok(layout_sx(&lay)),
    };
    // ---- TensorTranspose::data_layout
    let transposed = match guarded(|| TensorTranspose::try_from(&src, req).map(|t| t.data_layout())) {
        None => panicked(),
        Some(Err(e)) => err(e_access(&e)),
        Some(Ok(lay)) => {
            // a TensorAccess passes the source's layout through unchanged
            match TensorAccess::try_from(&src, req) {
                Ok(acc) if acc.data_layout() == src.data_layout() => {}
                _ => return inconsistent(281),
            }
            ok(layout_sx(&lay))
        }
    };
    // ---- TensorAccess::from_memory_order
    let memory = match guarded(|| TensorAccess::from_memory_order(&src).map(|acc| acc.shape())) {
        None => panicked(),
        Some(None) => ok(nil()),
        Some(Some(sh)) => ok(l(vec![shape_sx(&sh)])),
    };
    l(vec![renamed, transposed, memory, as_matrix_layout(&src)])
}

/// D = 2: what MatrixRefTensor reports for the source's layout claim; () otherwise
fn as_matrix_layout<const D: usize>(src: &Foreign<D>) -> Sx {
    if D != 2 {
        return nil();
    }
    let two = Foreign::<2> {
        tensor: Tensor::from(
            [(src.tensor.shape()[0].0, src.tensor.shape()[0].1), (src.tensor.shape()[1].0, src.tensor.shape()[1].1)],
            src.tensor.iter().collect(),
        ),
        layout: match &src.layout {
            DataLayout::Linear(order) => DataLayout::Linear([order[0], order[1]]),
            DataLayout::NonLinear => DataLayout::NonLinear,
            DataLayout::Other => DataLayout::Other,
        },
    };
    l(vec![mlayout_sx(MatrixRefTensor::from(&two).data_layout())])
}

pub fn foreign(args: &[Sx]) -> Sx {
    if args.len() != 5 {
        return bad_case();
    }
    let (Some(shape), Some(names), Some(req)) = (args[1].pairs_usize(), args[3].usizes(), args[4].usizes()) else {
        return bad_case();
    };
    match shape.len() {
        0 => foreign_d::<0>(&shape, &args[2], &names, &req),
        1 => foreign_d::<1>(&shape, &args[2], &names, &req),
        2 => foreign_d::<2>(&shape, &args[2], &names, &req),
        3 => foreign_d::<3>(&shape, &args[2], &names, &req),
        4 => foreign_d::<4>(&shape, &args[2], &names, &req),
        _ => bad_case(),
    }
}

fn mlayout_sx(m: MDataLayout) -> Sx {
    z(match m {
        MDataLayout::RowMajor => 0,
        MDataLayout::ColumnMajor => 1,
        MDataLayout::Other => 2,
    })
}

fn trip_observe<S: TensorRef<E, 2>>(view: S, n0: usize, n1: usize, probes: &[Vec<usize>]) -> Sx {
    let shape = view.view_shape();
    let as_matrix = MatrixRefTensor::from(view);
    if (as_matrix.view_rows(), as_matrix.view_columns()) != (shape[0].1, shape[1].1) {
        return inconsistent(285);
    }
    let mlayout = as_matrix.data_layout();
    let trip = match TensorRefMatrix::with_names(as_matrix, [dim(n0), dim(n1)]) {
        Err(e) => return ok(l(vec![mlayout_sx(mlayout), err(e_shape(&e))])),
        Ok(t) => t,
    };
    let tshape = trip.view_shape();
    let mut results = vec![];
    for p in probes {
        let p: [usize; 2] = idx_arr(p);
        let r = trip.get_reference(p);
        if r.is_some() && p[0] < tshape[0].1 && p[1] < tshape[1].1 {
            let u = unsafe { trip.get_reference_unchecked(p) } as *const E;
            if Some(u) != r.map(|x| x as *const E) {
                return inconsistent(286);
            }
        }
        results.push(value(r.map(|x| x.0)));
    }
    ok(l(vec![
        mlayout_sx(mlayout),
        ok(l(vec![shape_sx(&tshape), layout_sx(&trip.data_layout()), l(results)])),
    ]))
}

pub fn trip(args: &[Sx]) -> Sx {
    if args.len() != 5 {
        return bad_case();
    }
    let (Some(n0), Some(n1)) = (args[2].usize(), args[3].usize()) else { return bad_case() };
    let Some(probes) = args[4].list().and_then(|p| p.iter().map(|x| x.usizes()).collect::<Option<Vec<_>>>()) else {
        return bad_case();
    };
    if probes.iter().any(|p| p.len() != 2) {
        return bad_case();
    }
    let mut ids = vec![];
    if !leaf_ids(&args[1], &mut ids) {
        return bad_case();
    }
    let mut sorted = ids.clone();
    sorted.sort();
    sorted.dedup();
    if sorted.len() != ids.len() {
        return bad_case();
    }
    let mut arena = Arena::new();
    let view = match build(&args[1], &mut arena) {
        Ok(v) => v,
        Err(failure) => return failure,
    };
    match view {
        AnyView::M(super::build::fam_mut::DynView::D2(v)) => trip_observe(v, n0, n1, &probes),
        AnyView::R(super::build::fam_ref::DynView::D2(v)) => trip_observe(v, n0, n1, &probes),
        _ => bad_case(),
    }
}
