//! Hand-written fully static compositions: the same term language as the dynamic interpreter,
//! but each recognised term skeleton is built with concrete (non-erased) adaptor types over
//! `&mut Tensor` / `&mut Matrix` leaves, so the generic code is exercised in the monomorphisations
//! a user of the crate gets.  `(2 2 term probes writes)`; the model treats it exactly like op 1.
use super::build::{e_access, e_shape, e_strict, index_range, params, Params, E};
use super::observe;
use crate::guarded;
use crate::sx::*;
use easy_ml::interop::TensorRefMatrix;
use easy_ml::matrices::Matrix;
use easy_ml::tensors::indexing::{TensorAccess, TensorTranspose};
use easy_ml::tensors::views::{
    IndexRange, TensorChain, TensorExpansion, TensorIndex, TensorMask, TensorMut, TensorRange,
    TensorRename, TensorReverse, TensorStack,
};
use easy_ml::tensors::Tensor;

/// leaf storage: dumped (in term order) and freed after the view is gone
pub struct Leaves {
    dumps: Vec<Box<dyn Fn() -> Sx>>,
    frees: Vec<Box<dyn FnOnce()>>,
}
impl Leaves {
    pub fn new() -> Leaves {
        Leaves { dumps: vec![], frees: vec![] }
    }
    pub fn dump(&self) -> Sx {
        l(self.dumps.iter().map(|f| f()).collect())
    }
}
impl Drop for Leaves {
    fn drop(&mut self) {
        for f in self.frees.drain(..) {
            f();
        }
    }
}

type R<T> = Result<T, Sx>;

pub fn leaf<const D: usize>(ls: &mut Leaves, t: &Sx) -> R<&'static mut Tensor<E, D>> {
    let v = t.list().ok_or_else(bad_case)?;
    if v.len() != 3 || v[0].i64() != Some(0) {
        return Err(bad_case());
    }
    let id = v[1].i64().ok_or_else(bad_case)?;
    let shape = v[2].pairs_usize().ok_or_else(bad_case)?;
    if shape.len() != D {
        return Err(bad_case());
    }
    let shape: [(&'static str, usize); D] = shape_arr(&shape);
    let elements = shape.iter().try_fold(1usize, |a, x| a.checked_mul(x.1)).filter(|e| *e <= 100_000).ok_or_else(bad_case)?;
    let data: Vec<E> = (0..elements as i64).map(|k| (id * 1000 + k, 0usize)).collect();
    match Tensor::try_from(shape, data) {
        Err(e) => Err(err(e_shape(&e))),
        Ok(t) => {
            let p = Box::into_raw(Box::new(t));
            ls.dumps.push(Box::new(move || l(unsafe { &*p }.iter().map(|x| z(x.0)).collect())));
            ls.frees.push(Box::new(move || drop(unsafe { Box::from_raw(p) })));
            Ok(unsafe { &mut *p })
        }
    }
}

fn matrix_leaf(ls: &mut Leaves, t: &Sx) -> R<TensorRefMatrix<E, &'static mut Matrix<E>, [&'static str; 2]>> {
    let v = t.list().ok_or_else(bad_case)?;
    if v.len() != 6 || v[0].i64() != Some(12) {
        return Err(bad_case());
    }
    let id = v[1].i64().ok_or_else(bad_case)?;
    let n: Vec<usize> = v[2..6].iter().map(|x| x.usize()).collect::<Option<_>>().ok_or_else(bad_case)?;
    let elements = n[0].checked_mul(n[1]).filter(|e| *e <= 100_000).ok_or_else(bad_case)?;
    let data: Vec<E> = (0..elements as i64).map(|k| (id * 1000 + k, 0usize)).collect();
    let m = guarded(|| Matrix::from_flat_row_major((n[0], n[1]), data)).ok_or_else(panicked)?;
    let p = Box::into_raw(Box::new(m));
    ls.dumps.push(Box::new(move || l(unsafe { &*p }.row_major_iter().map(|x| z(x.0)).collect())));
    ls.frees.push(Box::new(move || drop(unsafe { Box::from_raw(p) })));
    TensorRefMatrix::with_names(unsafe { &mut *p }, [dim(n[2]), dim(n[3])]).map_err(|e| err(e_shape(&e)))
}

fn all_params<const D: usize>(p: &Sx) -> R<(bool, [Option<IndexRange>; D])> {
    match params(p).ok_or_else(bad_case)? {
        Params::All(strict, all) if all.len() == D => {
            Ok((strict, std::array::from_fn(|d| all[d].map(|(s, n)| index_range(s, n, d)))))
        }
        _ => Err(bad_case()),
    }
}

fn s_range<S: TensorMut<E, D>, const D: usize>(src: S, p: &Sx) -> R<TensorRange<E, S, D>> {
    let (strict, arr) = all_params::<D>(p)?;
    if strict {
        guarded(|| TensorRange::from_all_strict(src, arr)).ok_or_else(panicked)?.map_err(|e| err(e_strict(&e)))
    } else {
        guarded(|| TensorRange::from_all(src, arr)).ok_or_else(panicked)?.map_err(|e| err(e_shape(&e)))
    }
}
fn s_mask<S: TensorMut<E, D>, const D: usize>(src: S, p: &Sx) -> R<TensorMask<E, S, D>> {
    let (strict, arr) = all_params::<D>(p)?;
    if strict {
        guarded(|| TensorMask::from_all_strict(src, arr)).ok_or_else(panicked)?.map_err(|e| err(e_strict(&e)))
    } else {
        guarded(|| TensorMask::from_all(src, arr)).ok_or_else(panicked)?.map_err(|e| err(e_shape(&e)))
    }
}
fn names<const D: usize>(s: &Sx) -> R<[&'static str; D]> {
    let v = s.usizes().ok_or_else(bad_case)?;
    if v.len() != D {
        return Err(bad_case());
    }
    Ok(names_arr(&v))
}
pub fn s_reverse<S: TensorMut<E, D>, const D: usize>(src: S, ns: &Sx) -> R<TensorReverse<E, S, D>> {
    let v: Vec<&'static str> = ns.usizes().ok_or_else(bad_case)?.iter().map(|n| dim(*n)).collect();
    guarded(|| TensorReverse::from(src, &v)).ok_or_else(panicked)
}
pub fn s_rename<S: TensorMut<E, D>, const D: usize>(src: S, ns: &Sx) -> R<TensorRename<E, S, D>> {
    let ns = names::<D>(ns)?;
    guarded(|| TensorRename::from(src, ns)).ok_or_else(panicked)
}
fn s_access<S: TensorMut<E, D>, const D: usize>(src: S, ns: &Sx) -> R<TensorAccess<E, S, D>> {
    let ns = names::<D>(ns)?;
    TensorAccess::try_from(src, ns).map_err(|e| err(e_access(&e)))
}
fn s_transpose<S: TensorMut<E, D>, const D: usize>(src: S, ns: &Sx) -> R<TensorTranspose<E, S, D>> {
    let ns = names::<D>(ns)?;
    TensorTranspose::try_from(src, ns).map_err(|e| err(e_access(&e)))
}

/// "6(2(10(0/2,0/2)))": adaptor tags with the leaf dimensionalities
pub fn skeleton(t: &Sx) -> Option<String> {
    let v = t.list()?;
    let tag = v.first()?.i64()?;
    Some(match tag {
        0 => format!("0/{}", v.get(2)?.list()?.len()),
        12 => "12".to_string(),
        9 | 10 => {
            let subs: Option<Vec<String>> = v.get(1)?.list()?.iter().map(skeleton).collect();
            format!("{}({})", tag, subs?.join(","))
        }
        1..=8 | 11 => format!("{}({})", tag, skeleton(v.get(1)?)?),
        _ => return None,
    })
}

fn finish<S: TensorMut<E, D>, const D: usize>(
    view: S,
    ls: &Leaves,
    probes: &[Vec<usize>],
    writes: &[(Vec<usize>, i64)],
    form: usize,
) -> Sx {
    if probes.iter().any(|p| p.len() != D) || writes.iter().any(|w| w.0.len() != D) {
        return bad_case();
    }
    match observe::<S, D>(view, probes, writes, form) {
        Err(code) => code,
        Ok(mut items) => {
            let flags = items.pop().unwrap();
            items.push(l(vec![flags, ls.dump()]));
            ok(l(items))
        }
    }
}

pub fn execute(term: &Sx, probes: &[Vec<usize>], writes: &[(Vec<usize>, i64)], form: usize) -> Sx {
    let Some(sk) = skeleton(term) else { return bad_case() };
    let mut ls = Leaves::new();
    let at = |t: &Sx, path: &[usize]| -> Sx {
        let mut cur = t.clone();
        for &i in path {
            cur = cur.list().expect("skeleton")[i].clone();
        }
        cur
    };
    // every builder returns Err(result line) on the first failing constructor, like build()
    macro_rules! go {
        ($build:expr) => {{
            let built = (|| $build)();
            match built {
                Err(failure) => failure,
                Ok(view) => finish(view, &ls, probes, writes, form),
            }
        }};
    }
    match sk.as_str() {
        // reversal over a mask over a chain of two tensors (tuple form)
        "6(2(10(0/2,0/2)))" => {
            let a = leaf::<2>(&mut ls, &at(term, &[1, 1, 1, 0]));
            let b = a.and_then(|a| leaf::<2>(&mut ls, &at(term, &[1, 1, 1, 1])).map(|b| (a, b)));
            go!({
                let (a, b) = b?;
                let along = dim(at(term, &[1, 1, 2]).usize().ok_or_else(bad_case)?);
                let chain = guarded(|| TensorChain::<E, (_, _), 2>::from((a, b), along)).ok_or_else(panicked)?;
                let mask = s_mask(chain, &at(term, &[1, 2]))?;
                s_reverse(mask, &at(term, &[2]))
            })
        }
        // sub-range of a reversal
        "1(6(0/3))" => {
            let a = leaf::<3>(&mut ls, &at(term, &[1, 1]));
            go!({
                let rev = s_reverse(a?, &at(term, &[1, 2]))?;
                s_range(rev, &at(term, &[2]))
            })
        }
        // selection out of an expansion
        "3(4(0/2))" => {
            let a = leaf::<2>(&mut ls, &at(term, &[1, 1]));
            go!({
                let es = at(term, &[1, 2]).pairs_usize().ok_or_else(bad_case)?;
                let ps = at(term, &[2]).pairs_usize().ok_or_else(bad_case)?;
                if es.len() != 1 || ps.len() != 1 {
                    return Err(bad_case());
                }
                let a = a?;
                let ex = guarded(|| TensorExpansion::<E, _, 2, 1>::from(a, [(es[0].0, dim(es[0].1))])).ok_or_else(panicked)?;
                guarded(|| TensorIndex::<E, _, 3, 1>::from(ex, [(dim(ps[0].0), ps[0].1)])).ok_or_else(panicked)
            })
        }
        // transposition of a reordering (the class of finding F13)
        "8(7(0/3))" => {
            let a = leaf::<3>(&mut ls, &at(term, &[1, 1]));
            go!({
                let acc = s_access(a?, &at(term, &[1, 2]))?;
                s_transpose(acc, &at(term, &[2]))
            })
        }
        // stack (tuple form) of two renamed vectors
        "9(5(0/1),5(0/1))" => {
            let a = leaf::<1>(&mut ls, &at(term, &[1, 0, 1]));
            go!({
                let ra = s_rename(a?, &at(term, &[1, 0, 2]))?;
                let b = leaf::<1>(&mut ls, &at(term, &[1, 1, 1]))?;
                let rb = s_rename(b, &at(term, &[1, 1, 2]))?;
                let pos = at(term, &[2]).usize().ok_or_else(bad_case)?;
                let name = dim(at(term, &[3]).usize().ok_or_else(bad_case)?);
                guarded(|| TensorStack::<E, (_, _), 1>::from((ra, rb), (pos, name))).ok_or_else(panicked)
            })
        }
        // mask over a matrix-backed source
        "2(12)" => {
            let m = matrix_leaf(&mut ls, &at(term, &[1]));
            go!({ s_mask(m?, &at(term, &[2])) })
        }
        // Box<S> of a sub-range
        "11(1(0/1))" => {
            let a = leaf::<1>(&mut ls, &at(term, &[1, 1]));
            go!({ s_range(a?, &at(term, &[1, 2])).map(Box::new) })
        }
        // reordering of a selection
        "7(3(0/3))" => {
            let a = leaf::<3>(&mut ls, &at(term, &[1, 1]));
            go!({
                let ps = at(term, &[1, 2]).pairs_usize().ok_or_else(bad_case)?;
                if ps.len() != 1 {
                    return Err(bad_case());
                }
                let a = a?;
                let sel = guarded(|| TensorIndex::<E, _, 3, 1>::from(a, [(dim(ps[0].0), ps[0].1)])).ok_or_else(panicked)?;
                s_access(sel, &at(term, &[2]))
            })
        }
        _ => bad_case(),
    }
}
