//! Hand-written fully static compositions (non-erased monomorphisations).
use crate::sx::*;

pub fn run(_args: &[Sx]) -> Sx {
    bad_case()
}
