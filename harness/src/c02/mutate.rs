//! op 3: `(2 3 term shape' probes writes)` — build a chain of TensorReverse / TensorRename over ONE
//! tensor leaf with concrete types, reach the leaf through the public `source_ref_mut()` accessors
//! (on the adaptors directly for even leaf ids, through `TensorView::source_ref_mut` for odd ones),
//! `reshape_mut` it and observe the SAME view object afterwards.
use super::build::E;
use super::fixed::{leaf, s_rename, s_reverse, skeleton, Leaves};
use super::observe;
use crate::guarded;
use crate::sx::*;
use easy_ml::tensors::views::{TensorMut, TensorRename, TensorReverse, TensorView};
use easy_ml::tensors::Tensor;

/// something whose innermost tensor can be reached through source_ref_mut()
pub trait Reshape<const D: usize> {
    fn reshape(&mut self, shape: [(&'static str, usize); D], through_view: bool);
}
impl<const D: usize> Reshape<D> for &'static mut Tensor<E, D> {
    fn reshape(&mut self, shape: [(&'static str, usize); D], _through_view: bool) {
        self.reshape_mut(shape);
    }
}
impl<S: Reshape<D> + TensorMut<E, D>, const D: usize> Reshape<D> for TensorReverse<E, S, D> {
    fn reshape(&mut self, shape: [(&'static str, usize); D], through_view: bool) {
        if through_view {
            let mut tv = TensorView::from(&mut *self);
            tv.source_ref_mut().source_ref_mut().reshape(shape, through_view);
        } else {
            self.source_ref_mut().reshape(shape, through_view);
        }
    }
}
impl<S: Reshape<D> + TensorMut<E, D>, const D: usize> Reshape<D> for TensorRename<E, S, D> {
    fn reshape(&mut self, shape: [(&'static str, usize); D], through_view: bool) {
        if through_view {
            let mut tv = TensorView::from(&mut *self);
            tv.source_ref_mut().source_ref_mut().reshape(shape, through_view);
        } else {
            self.source_ref_mut().reshape(shape, through_view);
        }
    }
}

fn finish<S: Reshape<D> + TensorMut<E, D>, const D: usize>(
    mut view: S,
    ls: &Leaves,
    shape: &[(usize, usize)],
    through_view: bool,
    probes: &[Vec<usize>],
    writes: &[(Vec<usize>, i64)],
    form: usize,
) -> Sx {
    if probes.iter().any(|p| p.len() != D) || writes.iter().any(|w| w.0.len() != D) || shape.len() != D {
        return bad_case();
    }
    let before = view.view_shape();
    let new_shape: [(&'static str, usize); D] = shape_arr(shape);
    if guarded(|| view.reshape(new_shape, through_view)).is_none() {
        // reshape_mut validates before it changes anything
        if view.view_shape() != before {
            return inconsistent(270);
        }
        return ok(panicked());
    }
    match observe::<S, D>(view, probes, writes, form) {
        Err(code) => code,
        Ok(mut items) => {
            let flags = items.pop().unwrap();
            items.push(l(vec![flags, ls.dump()]));
            ok(ok(l(items)))
        }
    }
}

fn at(t: &Sx, path: &[usize]) -> Sx {
    let mut cur = t.clone();
    for &i in path {
        cur = cur.list().expect("skeleton")[i].clone();
    }
    cur
}

fn run_d<const D: usize>(
    sk: &str,
    term: &Sx,
    shape: &[(usize, usize)],
    probes: &[Vec<usize>],
    writes: &[(Vec<usize>, i64)],
    form: usize,
) -> Sx {
    let mut ls = Leaves::new();
    // the leaf is the innermost term
    let depth = sk.matches('(').count();
    let leaf_term = at(term, &vec![1; depth]);
    let through_view = leaf_term.list().and_then(|v| v.get(1).and_then(|x| x.i64())).unwrap_or(0) % 2 == 1;
    let a = match leaf::<D>(&mut ls, &leaf_term) {
        Ok(a) => a,
        Err(failure) => return failure,
    };
    macro_rules! go {
        ($build:expr) => {{
            let built = (|| $build)();
            match built {
                Err(failure) => failure,
                Ok(view) => finish(view, &ls, shape, through_view, probes, writes, form),
            }
        }};
    }
    let leaf_sk = format!("0/{}", D);
    let strip = sk.replace(&leaf_sk, "L");
    match strip.as_str() {
        "6(L)" => go!({ s_reverse(a, &at(term, &[2])) }),
        "5(L)" => go!({ s_rename(a, &at(term, &[2])) }),
        "6(5(L))" => go!({ s_reverse(s_rename(a, &at(term, &[1, 2]))?, &at(term, &[2])) }),
        "5(6(L))" => go!({ s_rename(s_reverse(a, &at(term, &[1, 2]))?, &at(term, &[2])) }),
        "6(6(L))" => go!({ s_reverse(s_reverse(a, &at(term, &[1, 2]))?, &at(term, &[2])) }),
        "5(5(L))" => go!({ s_rename(s_rename(a, &at(term, &[1, 2]))?, &at(term, &[2])) }),
        "6(5(6(L)))" => go!({
            s_reverse(s_rename(s_reverse(a, &at(term, &[1, 1, 2]))?, &at(term, &[1, 2]))?, &at(term, &[2]))
        }),
        "5(6(5(L)))" => go!({
            s_rename(s_reverse(s_rename(a, &at(term, &[1, 1, 2]))?, &at(term, &[1, 2]))?, &at(term, &[2]))
        }),
        _ => bad_case(),
    }
}

pub fn execute(
    term: &Sx,
    shape: &[(usize, usize)],
    probes: &[Vec<usize>],
    writes: &[(Vec<usize>, i64)],
    form: usize,
) -> Sx {
    let Some(sk) = skeleton(term) else { return bad_case() };
    let d = shape.len();
    match d {
        0 => run_d::<0>(&sk, term, shape, probes, writes, form),
        1 => run_d::<1>(&sk, term, shape, probes, writes, form),
        2 => run_d::<2>(&sk, term, shape, probes, writes, form),
        3 => run_d::<3>(&sk, term, shape, probes, writes, form),
        4 => run_d::<4>(&sk, term, shape, probes, writes, form),
        _ => bad_case(),
    }
}
