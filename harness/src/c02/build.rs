//! The dynamic view interpreter: term -> type-erased view through the real constructors.
//! Element type E = (i64, usize) so that RecordTensor (a TensorRef over (T, Index)) can take part;
//! the i64 identifies the element (leaf*1000 + offset), the usize is always 0.
//! Two families of erased views (c02/family.rs, included twice):
//!   fam_mut: `Box<dyn TensorMut<E, D>>` over `&'static mut` leaves,
//!   fam_ref: `Box<dyn TensorRef<E, D>>`, entered through a shared reference `&S` (wrapper kind 4).
use crate::guarded;
use crate::sx::*;
use easy_ml::interop::TensorRefMatrix;
use easy_ml::matrices::Matrix;
use easy_ml::tensors::views::{
    IndexRange, IndexRangeValidationError, StrictIndexRangeValidationError, TensorRef,
};
use easy_ml::tensors::{InvalidDimensionsError, InvalidShapeError, Tensor};

pub type E = (i64, usize);

macro_rules! family_imports {
    () => {
        use super::{e_access, e_irv, e_shape, e_strict, index_range, params, LeafRef, LeafShared, Params, E};
        use easy_ml::tensors::Tensor;
        use crate::guarded;
        use crate::sx::*;
        use easy_ml::differentiation::RecordTensor;
        use easy_ml::tensors::indexing::{TensorAccess, TensorTranspose};
        use easy_ml::tensors::views::{
            IndexRange, TensorChain, TensorExpansion, TensorIndex, TensorMask, TensorRange,
            TensorRename, TensorReverse, TensorStack, TensorView,
        };
    };
}
pub mod fam_mut {
    family_imports!();
    macro_rules! only_mut { ($($t:tt)*) => { $($t)* }; }
    macro_rules! only_ref { ($($t:tt)*) => {}; }
    use easy_ml::tensors::views::TensorMut as Tr;
    include!("family.rs");
}
pub mod fam_ref {
    family_imports!();
    macro_rules! only_mut { ($($t:tt)*) => {}; }
    macro_rules! only_ref { ($($t:tt)*) => { $($t)* }; }
    use easy_ml::tensors::views::TensorRef as Tr;
    include!("family.rs");
}

pub enum AnyView {
    M(fam_mut::DynView),
    R(fam_ref::DynView),
}

/// wrapper kind 4: a shared reference `&S` as the source (leaked: the case is short lived)
fn share_mut(v: fam_mut::DynView) -> fam_ref::DynView {
    macro_rules! go { ($($V:ident),*) => { match v { $(fam_mut::DynView::$V(b) => {
        let r: &'static fam_mut::Dyn<_> = Box::leak(Box::new(b));
        fam_ref::DynView::$V(Box::new(r))
    })* } } }
    go!(D0, D1, D2, D3, D4, D5, D6)
}
fn share_ref(v: fam_ref::DynView) -> fam_ref::DynView {
    macro_rules! go { ($($V:ident),*) => { match v { $(fam_ref::DynView::$V(b) => {
        let r: &'static fam_ref::Dyn<_> = Box::leak(Box::new(b));
        fam_ref::DynView::$V(Box::new(r))
    })* } } }
    go!(D0, D1, D2, D3, D4, D5, D6)
}

// ---------------------------------------------------------------- leaves
enum Leaf {
    T0(*mut Tensor<E, 0>),
    T1(*mut Tensor<E, 1>),
    T2(*mut Tensor<E, 2>),
    T3(*mut Tensor<E, 3>),
    T4(*mut Tensor<E, 4>),
    T5(*mut Tensor<E, 5>),
    T6(*mut Tensor<E, 6>),
    M(*mut Matrix<E>),
}

/// Owns the leaf tensors; the view under test holds `&'static mut` borrows into them, which are
/// all dropped (with the view) before `dump` reads the leaves again.
pub struct Arena {
    leaves: Vec<Leaf>,
}

impl Arena {
    pub fn new() -> Arena {
        Arena { leaves: vec![] }
    }
    pub fn dump(&self) -> Sx {
        l(self
            .leaves
            .iter()
            .map(|leaf| unsafe {
                let values: Vec<E> = match leaf {
                    Leaf::T0(p) => (**p).iter().collect(),
                    Leaf::T1(p) => (**p).iter().collect(),
                    Leaf::T2(p) => (**p).iter().collect(),
                    Leaf::T3(p) => (**p).iter().collect(),
                    Leaf::T4(p) => (**p).iter().collect(),
                    Leaf::T5(p) => (**p).iter().collect(),
                    Leaf::T6(p) => (**p).iter().collect(),
                    Leaf::M(p) => (**p).row_major_iter().collect(),
                };
                l(values.into_iter().map(|x| z(x.0)).collect())
            })
            .collect())
    }
}

impl Drop for Arena {
    fn drop(&mut self) {
        for leaf in self.leaves.drain(..) {
            unsafe {
                match leaf {
                    Leaf::T0(p) => drop(Box::from_raw(p)),
                    Leaf::T1(p) => drop(Box::from_raw(p)),
                    Leaf::T2(p) => drop(Box::from_raw(p)),
                    Leaf::T3(p) => drop(Box::from_raw(p)),
                    Leaf::T4(p) => drop(Box::from_raw(p)),
                    Leaf::T5(p) => drop(Box::from_raw(p)),
                    Leaf::T6(p) => drop(Box::from_raw(p)),
                    Leaf::M(p) => drop(Box::from_raw(p)),
                }
            }
        }
    }
}

/// the leaf tensor itself (for the convenience constructors of `Tensor`)
pub enum LeafRef {
    D0(&'static mut Tensor<E, 0>),
    D1(&'static mut Tensor<E, 1>),
    D2(&'static mut Tensor<E, 2>),
    D3(&'static mut Tensor<E, 3>),
    D4(&'static mut Tensor<E, 4>),
    D5(&'static mut Tensor<E, 5>),
    D6(&'static mut Tensor<E, 6>),
}
pub enum LeafShared {
    D0(&'static Tensor<E, 0>),
    D1(&'static Tensor<E, 1>),
    D2(&'static Tensor<E, 2>),
    D3(&'static Tensor<E, 3>),
    D4(&'static Tensor<E, 4>),
    D5(&'static Tensor<E, 5>),
    D6(&'static Tensor<E, 6>),
}
impl LeafRef {
    pub fn shared(self) -> LeafShared {
        match self {
            LeafRef::D0(t) => LeafShared::D0(t),
            LeafRef::D1(t) => LeafShared::D1(t),
            LeafRef::D2(t) => LeafShared::D2(t),
            LeafRef::D3(t) => LeafShared::D3(t),
            LeafRef::D4(t) => LeafShared::D4(t),
            LeafRef::D5(t) => LeafShared::D5(t),
            LeafRef::D6(t) => LeafShared::D6(t),
        }
    }
}

macro_rules! leaf_ref_case {
    ($arena:expr, $id:expr, $shape:expr; $($d:literal $L:ident $V:ident),*) => {
        match $shape.len() {
            $($d => {
                let shape: [(&'static str, usize); $d] = shape_arr($shape);
                let elements: usize = match shape.iter().try_fold(1usize, |a, x| a.checked_mul(x.1)) {
                    Some(e) if e <= 100_000 => e,
                    _ => return Err(bad_case()),
                };
                let data: Vec<E> = (0..elements as i64).map(|k| ($id * 1000 + k, 0usize)).collect();
                match Tensor::try_from(shape, data) {
                    Err(e) => Err(err(e_shape(&e))),
                    Ok(t) => {
                        let p = Box::into_raw(Box::new(t));
                        $arena.leaves.push(Leaf::$L(p));
                        let r: &'static mut Tensor<E, $d> = unsafe { &mut *p };
                        Ok(LeafRef::$V(r))
                    }
                }
            })*
            _ => Err(bad_case()),
        }
    };
}

fn leaf_ref(t: &Sx, arena: &mut Arena) -> Result<LeafRef, Sx> {
    let v = t.list().ok_or_else(bad_case)?;
    if v.len() != 3 || v[0].i64() != Some(0) {
        return Err(bad_case());
    }
    let id = v[1].i64().ok_or_else(bad_case)?;
    let shape = v[2].pairs_usize().ok_or_else(bad_case)?;
    leaf_ref_case!(arena, id, &shape; 0 T0 D0, 1 T1 D1, 2 T2 D2, 3 T3 D3, 4 T4 D4, 5 T5 D5, 6 T6 D6)
}

macro_rules! leaf_case {
    ($arena:expr, $id:expr, $shape:expr; $($d:literal $L:ident $V:ident),*) => {
        match $shape.len() {
            $($d => {
                let shape: [(&'static str, usize); $d] = shape_arr($shape);
                let elements: usize = match shape.iter().try_fold(1usize, |a, x| a.checked_mul(x.1)) {
                    Some(e) if e <= 100_000 => e,
                    _ => return Err(bad_case()),
                };
                let data: Vec<E> = (0..elements as i64).map(|k| ($id * 1000 + k, 0usize)).collect();
                match Tensor::try_from(shape, data) {
                    Err(e) => Err(err(e_shape(&e))),
                    Ok(t) => {
                        let p = Box::into_raw(Box::new(t));
                        $arena.leaves.push(Leaf::$L(p));
                        let r: &'static mut Tensor<E, $d> = unsafe { &mut *p };
                        Ok(AnyView::M(fam_mut::DynView::$V(Box::new(r))))
                    }
                }
            })*
            _ => Err(bad_case()),
        }
    };
}

// ---------------------------------------------------------------- error payloads
pub fn e_shape<const D: usize>(e: &InvalidShapeError<D>) -> Sx {
    l(vec![z(0), shape_sx(&e.shape())])
}
fn e_dims<const D: usize, const P: usize>(e: &InvalidDimensionsError<D, P>) -> Sx {
    l(vec![z(1), names_sx(&e.provided_names()), names_sx(&e.valid_names())])
}
/// IndexRange's fields are crate-private: read them from the Debug rendering
/// `IndexRange { start: 1, length: 3 }`.
fn range_sx(r: &IndexRange) -> Sx {
    let text = format!("{:?}", r);
    let num_after = |key: &str| -> usize {
        let at = text.find(key).expect("IndexRange debug format") + key.len();
        text[at..]
            .chars()
            .take_while(|c| c.is_ascii_digit())
            .collect::<String>()
            .parse()
            .expect("IndexRange debug number")
    };
    l(vec![z(num_after("start: ")), z(num_after("length: "))])
}
pub fn e_irv<const D: usize, const P: usize>(e: &IndexRangeValidationError<D, P>) -> Sx {
    match e {
        IndexRangeValidationError::InvalidShape(s) => l(vec![z(3), e_shape(s)]),
        IndexRangeValidationError::InvalidDimensions(d) => l(vec![z(4), e_dims(d)]),
    }
}
pub fn e_strict<const D: usize, const P: usize>(e: &StrictIndexRangeValidationError<D, P>) -> Sx {
    match e {
        StrictIndexRangeValidationError::OutsideShape { shape, index_range } => l(vec![
            z(2),
            shape_sx(shape),
            l(index_range.iter().map(|o| opt(o.as_ref().map(range_sx))).collect()),
        ]),
        StrictIndexRangeValidationError::Error(inner) => l(vec![z(5), e_irv(inner)]),
    }
}

// ---------------------------------------------------------------- parameters
pub enum Params {
    Named(bool, Vec<(usize, usize, usize)>),
    All(bool, Vec<Option<(usize, usize)>>),
}

pub fn params(s: &Sx) -> Option<Params> {
    let v = s.list()?;
    if v.len() != 3 {
        return None;
    }
    let strict = v[1].bool()?;
    match v[0].i64()? {
        0 => {
            let named = v[2]
                .list()?
                .iter()
                .map(|x| {
                    let t = x.usizes()?;
                    if t.len() != 3 {
                        return None;
                    }
                    Some((t[0], t[1], t[2]))
                })
                .collect::<Option<Vec<_>>>()?;
            Some(Params::Named(strict, named))
        }
        1 => {
            let all = v[2]
                .list()?
                .iter()
                .map(|x| match x.option()? {
                    None => Some(None),
                    Some(r) => {
                        let t = r.usizes()?;
                        if t.len() != 2 {
                            return None;
                        }
                        Some(Some((t[0], t[1])))
                    }
                })
                .collect::<Option<Vec<_>>>()?;
            Some(Params::All(strict, all))
        }
        _ => None,
    }
}

/// the conversions into IndexRange that must agree: IndexRange::new, (start, len), [start, len]
/// and start..end (when the end does not overflow)
pub fn index_range(start: usize, len: usize, salt: usize) -> IndexRange {
    let base = IndexRange::new(start, len);
    let tuple: IndexRange = (start, len).into();
    let array: IndexRange = [start, len].into();
    assert!(base == tuple && base == array, "EASYML-C02 IndexRange conversions disagree");
    if let Some(end) = start.checked_add(len) {
        let range: IndexRange = (start..end).into();
        assert!(base == range, "EASYML-C02 IndexRange from Range disagrees");
        if salt % 2 == 1 {
            return range;
        }
    }
    match salt % 3 {
        0 => base,
        1 => tuple,
        _ => array,
    }
}


pub fn e_access<const D: usize>(e: &easy_ml::tensors::indexing::InvalidDimensionsError<D>) -> Sx {
    l(vec![z(6), shape_sx(&e.actual), names_sx(&e.requested)])
}


fn matrix_leaf(arena: &mut Arena, id: i64, rows: usize, cols: usize, n0: usize, n1: usize) -> Result<AnyView, Sx> {
    let Some(elements) = rows.checked_mul(cols) else { return Err(bad_case()) };
    if elements > 100_000 {
        return Err(bad_case());
    }
    let data: Vec<E> = (0..elements as i64).map(|k| (id * 1000 + k, 0usize)).collect();
    let Some(m) = guarded(|| Matrix::from_flat_row_major((rows, cols), data)) else {
        return Err(panicked());
    };
    let p = Box::into_raw(Box::new(m));
    arena.leaves.push(Leaf::M(p));
    let r: &'static mut Matrix<E> = unsafe { &mut *p };
    match TensorRefMatrix::with_names(r, [dim(n0), dim(n1)]) {
        Err(e) => Err(err(e_shape(&e))),
        Ok(v) => Ok(AnyView::M(fam_mut::DynView::D2(Box::new(v)))),
    }
}

/// collects the leaf ids of a term (false: not a term)
pub fn leaf_ids(t: &Sx, out: &mut Vec<i64>) -> bool {
    let Some(v) = t.list() else { return false };
    let Some(tag) = v.first().and_then(|x| x.i64()) else { return false };
    match tag {
        0 | 12 => match v.get(1).and_then(|x| x.i64()) {
            Some(id) if id >= 0 => {
                out.push(id);
                true
            }
            _ => false,
        },
        1..=8 | 11 => v.len() >= 2 && leaf_ids(&v[1], out),
        9 | 10 => match v.get(1).and_then(|x| x.list()) {
            Some(ts) => ts.iter().all(|t| leaf_ids(t, out)),
            None => false,
        },
        _ => false,
    }
}


/// Err(result line) on the first failing constructor (or a line outside the case language)
pub fn build(t: &Sx, arena: &mut Arena) -> Result<AnyView, Sx> {
    let v = t.list().ok_or_else(bad_case)?;
    let tag = v.first().and_then(|x| x.i64()).ok_or_else(bad_case)?;
    match (tag, v.len()) {
        (0, 3) => {
            let id = v[1].i64().ok_or_else(bad_case)?;
            let shape = v[2].pairs_usize().ok_or_else(bad_case)?;
            leaf_case!(arena, id, &shape; 0 T0 D0, 1 T1 D1, 2 T2 D2, 3 T3 D3, 4 T4 D4, 5 T5 D5, 6 T6 D6)
        }
        (12, 6) => {
            let id = v[1].i64().ok_or_else(bad_case)?;
            let n: Vec<usize> = v[2..6].iter().map(|x| x.usize()).collect::<Option<_>>().ok_or_else(bad_case)?;
            matrix_leaf(arena, id, n[0], n[1], n[2], n[3])
        }
        (11, 3) if v[2].i64() == Some(4) => {
            // a shared reference as the source: everything above it is read-only
            Ok(AnyView::R(match build(&v[1], arena)? {
                AnyView::M(m) => share_mut(m),
                AnyView::R(r) => share_ref(r),
            }))
        }
        // convenience constructors: via 4 / 5 = `Tensor::xxx(&self)` / `Tensor::xxx_mut(&mut self)` on the
        // leaf itself; via 3 = `TensorView::xxx(&self)`: the adaptor's source is `&S` (read-only family);
        // via 1 / 2 = `TensorView::xxx_owned` / `xxx_mut`
        (1..=8, 4) => {
            let via = v[3].i64().ok_or_else(bad_case)?;
            match via {
                4 => fam_ref::conv_leaf(leaf_ref(&v[1], arena)?, tag, &v[2]).map(AnyView::R),
                5 => fam_mut::conv_leaf(leaf_ref(&v[1], arena)?, tag, &v[2]).map(AnyView::M),
                3 => {
                    let shared = match build(&v[1], arena)? {
                        AnyView::M(m) => share_mut(m),
                        AnyView::R(r) => r,
                    };
                    fam_ref::apply_unary(shared, v).map(AnyView::R)
                }
                1 | 2 => match build(&v[1], arena)? {
                    AnyView::M(m) => fam_mut::apply_unary(m, v).map(AnyView::M),
                    AnyView::R(r) => fam_ref::apply_unary(r, v).map(AnyView::R),
                },
                _ => Err(bad_case()),
            }
        }
        (1..=8, 3) | (11, 3) => match build(&v[1], arena)? {
            AnyView::M(m) => fam_mut::apply_unary(m, v).map(AnyView::M),
            AnyView::R(r) => fam_ref::apply_unary(r, v).map(AnyView::R),
        },
        (9, 5) | (10, 4) => {
            let ts = v[1].list().ok_or_else(bad_case)?;
            let (pos, name, kind) = if tag == 9 {
                (v[2].usize().ok_or_else(bad_case)?, v[3].usize().ok_or_else(bad_case)?, v[4].i64().ok_or_else(bad_case)?)
            } else {
                (0, v[2].usize().ok_or_else(bad_case)?, v[3].i64().ok_or_else(bad_case)?)
            };
            if ts.is_empty() {
                // only arrays can be empty; the constructors must refuse for every dimensionality
                if kind != 0 {
                    return Err(bad_case());
                }
                return if fam_mut::empty_sources_panic(tag == 9, pos, name) && fam_ref::empty_sources_panic(tag == 9, pos, name) {
                    Err(panicked())
                } else {
                    Err(inconsistent(265))
                };
            }
            let mut ms = vec![];
            let mut rs = vec![];
            for t in ts {
                match build(t, arena)? {
                    AnyView::M(m) => ms.push(m),
                    AnyView::R(r) => rs.push(r),
                }
            }
            if !ms.is_empty() && !rs.is_empty() {
                return Err(bad_case()); // mixed families cannot share one array / tuple element type here
            }
            if rs.is_empty() {
                if tag == 9 { fam_mut::apply_stack(ms, pos, name, kind) } else { fam_mut::apply_chain(ms, name, kind) }.map(AnyView::M)
            } else {
                if tag == 9 { fam_ref::apply_stack(rs, pos, name, kind) } else { fam_ref::apply_chain(rs, name, kind) }.map(AnyView::R)
            }
        }
        _ => Err(bad_case()),
    }
}
