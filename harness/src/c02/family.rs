// Included TWICE (see build.rs): once with `Tr` = TensorMut (mutable family, sources are
// `Box<dyn TensorMut<E, D>>`) and once with `Tr` = TensorRef (read-only family, entered through a
// shared reference `&S`; sources are `Box<dyn TensorRef<E, D>>`). Every adaptor application calls
// the REAL constructor on the type-erased source and re-boxes the result.

pub type Dyn<const D: usize> = Box<dyn Tr<E, D>>;

pub enum DynView {
    D0(Dyn<0>),
    D1(Dyn<1>),
    D2(Dyn<2>),
    D3(Dyn<3>),
    D4(Dyn<4>),
    D5(Dyn<5>),
    D6(Dyn<6>),
}
impl DynView {
    pub fn dims(&self) -> usize {
        match self {
            DynView::D0(_) => 0,
            DynView::D1(_) => 1,
            DynView::D2(_) => 2,
            DynView::D3(_) => 3,
            DynView::D4(_) => 4,
            DynView::D5(_) => 5,
            DynView::D6(_) => 6,
        }
    }
}

/// pack / unpack between the enum and a statically known dimensionality
pub trait Dim<const D: usize> {
    fn pack(b: Dyn<D>) -> DynView;
    fn unpack(v: DynView) -> Option<Dyn<D>>;
}
pub struct K;
macro_rules! dim_impl {
    ($($d:literal $V:ident),*) => {$(
        impl Dim<$d> for K {
            fn pack(b: Dyn<$d>) -> DynView { DynView::$V(b) }
            fn unpack(v: DynView) -> Option<Dyn<$d>> { match v { DynView::$V(b) => Some(b), _ => None } }
        }
    )*};
}
dim_impl!(0 D0, 1 D1, 2 D2, 3 D3, 4 D4, 5 D5, 6 D6);

/// dispatch a generic function over the dimensionality held by a DynView
#[allow(unused_macros)]
macro_rules! each_d {
    ($v:expr, $f:ident ( $($arg:expr),* )) => {
        match $v {
            DynView::D0(x) => $f::<0>(x, $($arg),*),
            DynView::D1(x) => $f::<1>(x, $($arg),*),
            DynView::D2(x) => $f::<2>(x, $($arg),*),
            DynView::D3(x) => $f::<3>(x, $($arg),*),
            DynView::D4(x) => $f::<4>(x, $($arg),*),
            DynView::D5(x) => $f::<5>(x, $($arg),*),
            DynView::D6(x) => $f::<6>(x, $($arg),*),
        }
    };
}

macro_rules! named_case {
    ($Adaptor:ident, $src:expr, $strict:expr, $named:expr, $D:ident; $($p:literal),*) => {
        match $named.len() {
            $($p => {
                let arr: [(&'static str, IndexRange); $p] =
                    std::array::from_fn(|k| (dim($named[k].0), index_range($named[k].1, $named[k].2, k)));
                if $strict {
                    match guarded(|| $Adaptor::from_strict($src, arr)) {
                        None => Err(panicked()),
                        Some(Err(e)) => Err(err(e_strict(&e))),
                        Some(Ok(v)) => Ok(Box::new(v) as Dyn<$D>),
                    }
                } else {
                    match guarded(|| $Adaptor::from($src, arr)) {
                        None => Err(panicked()),
                        Some(Err(e)) => Err(err(e_irv(&e))),
                        Some(Ok(v)) => Ok(Box::new(v) as Dyn<$D>),
                    }
                }
            })*
            _ => Err(bad_case()),
        }
    };
}

macro_rules! ranged_fn {
    ($name:ident, $Adaptor:ident) => {
        fn $name<const D: usize>(src: Dyn<D>, p: &Params) -> Result<DynView, Sx>
        where
            K: Dim<D>,
        {
            let out: Result<Dyn<D>, Sx> = match p {
                Params::All(strict, all) => {
                    if all.len() != D {
                        return Err(bad_case());
                    }
                    let arr: [Option<IndexRange>; D] =
                        std::array::from_fn(|d| all[d].map(|(s, n)| index_range(s, n, d)));
                    if *strict {
                        match guarded(|| $Adaptor::from_all_strict(src, arr)) {
                            None => Err(panicked()),
                            Some(Err(e)) => Err(err(e_strict(&e))),
                            Some(Ok(v)) => Ok(Box::new(v) as Dyn<D>),
                        }
                    } else {
                        match guarded(|| $Adaptor::from_all(src, arr)) {
                            None => Err(panicked()),
                            Some(Err(e)) => Err(err(e_shape(&e))),
                            Some(Ok(v)) => Ok(Box::new(v) as Dyn<D>),
                        }
                    }
                }
                Params::Named(strict, named) => {
                    named_case!($Adaptor, src, *strict, named, D; 0, 1, 2, 3, 4, 5, 6, 7)
                }
            };
            out.map(<K as Dim<D>>::pack)
        }
    };
}
ranged_fn!(apply_range, TensorRange);
ranged_fn!(apply_mask, TensorMask);

pub fn apply_rename<const D: usize>(src: Dyn<D>, names: &[usize]) -> Result<DynView, Sx>
where
    K: Dim<D>,
{
    if names.len() != D {
        return Err(bad_case());
    }
    let names: [&'static str; D] = names_arr(names);
    match guarded(|| TensorRename::from(src, names)) {
        None => Err(panicked()),
        Some(v) => {
            if v.get_names() != &names {
                return Err(inconsistent(260));
            }
            Ok(<K as Dim<D>>::pack(Box::new(v)))
        }
    }
}

pub fn apply_reverse<const D: usize>(src: Dyn<D>, names: &[usize]) -> Result<DynView, Sx>
where
    K: Dim<D>,
{
    let names: Vec<&'static str> = names.iter().map(|n| dim(*n)).collect();
    match guarded(|| TensorReverse::from(src, &names)) {
        None => Err(panicked()),
        Some(v) => Ok(<K as Dim<D>>::pack(Box::new(v))),
    }
}

pub fn apply_access<const D: usize>(src: Dyn<D>, names: &[usize]) -> Result<DynView, Sx>
where
    K: Dim<D>,
{
    if names.len() != D {
        return Err(bad_case());
    }
    let names: [&'static str; D] = names_arr(names);
    // the panicking constructor must reject exactly when try_from does
    let would_panic = guarded(|| {
        TensorAccess::from(&src, names);
    })
    .is_none();
    match TensorAccess::try_from(src, names) {
        Err(e) => {
            if !would_panic {
                return Err(inconsistent(261));
            }
            Err(err(e_access(&e)))
        }
        Ok(v) => {
            if would_panic {
                return Err(inconsistent(262));
            }
            Ok(<K as Dim<D>>::pack(Box::new(v)))
        }
    }
}

pub fn apply_transpose<const D: usize>(src: Dyn<D>, names: &[usize]) -> Result<DynView, Sx>
where
    K: Dim<D>,
{
    if names.len() != D {
        return Err(bad_case());
    }
    let names: [&'static str; D] = names_arr(names);
    let would_panic = guarded(|| {
        TensorTranspose::from(&src, names);
    })
    .is_none();
    match TensorTranspose::try_from(src, names) {
        Err(e) => {
            if !would_panic {
                return Err(inconsistent(263));
            }
            Err(err(e_access(&e)))
        }
        Ok(v) => {
            if would_panic {
                return Err(inconsistent(264));
            }
            Ok(<K as Dim<D>>::pack(Box::new(v)))
        }
    }
}

pub fn apply_wrap<const D: usize>(src: Dyn<D>, kind: i64) -> Result<DynView, Sx>
where
    K: Dim<D>,
{
    let out: Dyn<D> = match kind {
        // Box<S> with S = Box<dyn TensorMut>
        0 => Box::new(Box::new(src)),
        // &mut S (leaked: the case is short lived)
        1 => {
            let r: &'static mut Dyn<D> = Box::leak(Box::new(src));
            Box::new(r)
        }
        // the erased box used as a source again
        2 => Box::new(src),
        // RecordTensor over the view (index transparent, no history)
        3 => Box::new(RecordTensor::<'static, i64, Dyn<D>, D>::from_existing(None, TensorView::from(src))),
        _ => return Err(bad_case()),
    };
    Ok(<K as Dim<D>>::pack(out))
}

macro_rules! index_case {
    ($src:expr, $ps:expr; $( ($Vin:ident, $d:literal, $i:literal, $Vout:ident) ),*) => {
        match ($src, $ps.len()) {
            $( (DynView::$Vin(x), $i) => {
                let arr: [(&'static str, usize); $i] = std::array::from_fn(|k| (dim($ps[k].0), $ps[k].1));
                match guarded(|| TensorIndex::<E, _, $d, $i>::from(x, arr)) {
                    None => Err(panicked()),
                    Some(v) => Ok(DynView::$Vout(Box::new(v))),
                }
            } )*
            _ => Err(bad_case()),
        }
    };
}

pub fn apply_index(src: DynView, ps: &[(usize, usize)]) -> Result<DynView, Sx> {
    index_case!(src, ps;
        (D1, 1, 1, D0),
        (D2, 2, 1, D1), (D2, 2, 2, D0),
        (D3, 3, 1, D2), (D3, 3, 2, D1), (D3, 3, 3, D0),
        (D4, 4, 1, D3), (D4, 4, 2, D2), (D4, 4, 3, D1), (D4, 4, 4, D0),
        (D5, 5, 1, D4), (D5, 5, 2, D3), (D5, 5, 3, D2), (D5, 5, 4, D1), (D5, 5, 5, D0),
        (D6, 6, 1, D5), (D6, 6, 2, D4), (D6, 6, 3, D3), (D6, 6, 4, D2), (D6, 6, 5, D1), (D6, 6, 6, D0))
}

macro_rules! expand_case {
    ($src:expr, $es:expr; $( ($Vin:ident, $d:literal, $i:literal, $Vout:ident) ),*) => {
        match ($src, $es.len()) {
            $( (DynView::$Vin(x), $i) => {
                let arr: [(usize, &'static str); $i] = std::array::from_fn(|k| ($es[k].0, dim($es[k].1)));
                match guarded(|| TensorExpansion::<E, _, $d, $i>::from(x, arr)) {
                    None => Err(panicked()),
                    Some(v) => Ok(DynView::$Vout(Box::new(v))),
                }
            } )*
            _ => Err(bad_case()),
        }
    };
}

pub fn apply_expand(src: DynView, es: &[(usize, usize)]) -> Result<DynView, Sx> {
    expand_case!(src, es;
        (D0, 0, 1, D1), (D0, 0, 2, D2), (D0, 0, 3, D3), (D0, 0, 4, D4), (D0, 0, 5, D5), (D0, 0, 6, D6),
        (D1, 1, 1, D2), (D1, 1, 2, D3), (D1, 1, 3, D4), (D1, 1, 4, D5), (D1, 1, 5, D6),
        (D2, 2, 1, D3), (D2, 2, 2, D4), (D2, 2, 3, D5), (D2, 2, 4, D6),
        (D3, 3, 1, D4), (D3, 3, 2, D5), (D3, 3, 3, D6),
        (D4, 4, 1, D5), (D4, 4, 2, D6),
        (D5, 5, 1, D6))
}

fn unpack_all<const D: usize>(vs: Vec<DynView>) -> Option<Vec<Dyn<D>>>
where
    K: Dim<D>,
{
    vs.into_iter().map(<K as Dim<D>>::unpack).collect()
}

fn to_array<T, const N: usize>(v: Vec<T>) -> [T; N] {
    match v.try_into() {
        Ok(a) => a,
        Err(_) => panic!("harness: source count"),
    }
}

macro_rules! stack_case {
    ($srcs:expr, $along:expr, $kind:expr; $( ($d:literal, $Vout:ident) ),*) => {
        match $srcs[0].dims() {
            $( $d => {
                let Some(mut v) = unpack_all::<$d>($srcs) else { return Err(bad_case()) };
                let along = $along;
                let built: Option<Dyn<{ $d + 1 }>> = match ($kind, v.len()) {
                    (0, 1) => guarded(|| Box::new(TensorStack::<E, [Dyn<$d>; 1], $d>::from(to_array(v), along)) as Dyn<{ $d + 1 }>),
                    (0, 2) => guarded(|| Box::new(TensorStack::<E, [Dyn<$d>; 2], $d>::from(to_array(v), along)) as Dyn<{ $d + 1 }>),
                    (0, 3) => guarded(|| Box::new(TensorStack::<E, [Dyn<$d>; 3], $d>::from(to_array(v), along)) as Dyn<{ $d + 1 }>),
                    (0, 4) => guarded(|| Box::new(TensorStack::<E, [Dyn<$d>; 4], $d>::from(to_array(v), along)) as Dyn<{ $d + 1 }>),
                    (0, 5) => guarded(|| Box::new(TensorStack::<E, [Dyn<$d>; 5], $d>::from(to_array(v), along)) as Dyn<{ $d + 1 }>),
                    (1, 2) => {
                        let b = v.pop().unwrap();
                        let a = v.pop().unwrap();
                        guarded(|| Box::new(TensorStack::<E, (Dyn<$d>, Dyn<$d>), $d>::from((a, b), along)) as Dyn<{ $d + 1 }>)
                    }
                    (1, 3) => {
                        let c = v.pop().unwrap();
                        let b = v.pop().unwrap();
                        let a = v.pop().unwrap();
                        guarded(|| Box::new(TensorStack::<E, (Dyn<$d>, Dyn<$d>, Dyn<$d>), $d>::from((a, b, c), along)) as Dyn<{ $d + 1 }>)
                    }
                    (1, 4) => {
                        let e = v.pop().unwrap();
                        let c = v.pop().unwrap();
                        let b = v.pop().unwrap();
                        let a = v.pop().unwrap();
                        guarded(|| Box::new(TensorStack::<E, (Dyn<$d>, Dyn<$d>, Dyn<$d>, Dyn<$d>), $d>::from((a, b, c, e), along)) as Dyn<{ $d + 1 }>)
                    }
                    _ => return Err(bad_case()),
                };
                match built {
                    None => Err(panicked()),
                    Some(b) => Ok(DynView::$Vout(b)),
                }
            } )*
            _ => Err(bad_case()),
        }
    };
}

pub fn apply_stack(srcs: Vec<DynView>, pos: usize, name: usize, kind: i64) -> Result<DynView, Sx> {
    if srcs.is_empty() {
        return Err(bad_case());
    }
    stack_case!(srcs, (pos, dim(name)), kind; (0, D1), (1, D2), (2, D3), (3, D4), (4, D5), (5, D6))
}

fn chain_d<const D: usize>(srcs: Vec<DynView>, along: &'static str, kind: i64) -> Result<DynView, Sx>
where
    K: Dim<D>,
{
    let Some(mut v) = unpack_all::<D>(srcs) else { return Err(bad_case()) };
    let built: Option<Dyn<D>> = match (kind, v.len()) {
        (0, 1) => guarded(|| Box::new(TensorChain::<E, [Dyn<D>; 1], D>::from(to_array(v), along)) as Dyn<D>),
        (0, 2) => guarded(|| Box::new(TensorChain::<E, [Dyn<D>; 2], D>::from(to_array(v), along)) as Dyn<D>),
        (0, 3) => guarded(|| Box::new(TensorChain::<E, [Dyn<D>; 3], D>::from(to_array(v), along)) as Dyn<D>),
        (0, 4) => guarded(|| Box::new(TensorChain::<E, [Dyn<D>; 4], D>::from(to_array(v), along)) as Dyn<D>),
        (0, 5) => guarded(|| Box::new(TensorChain::<E, [Dyn<D>; 5], D>::from(to_array(v), along)) as Dyn<D>),
        (1, 2) => {
            let b = v.pop().unwrap();
            let a = v.pop().unwrap();
            guarded(|| Box::new(TensorChain::<E, (Dyn<D>, Dyn<D>), D>::from((a, b), along)) as Dyn<D>)
        }
        (1, 3) => {
            let c = v.pop().unwrap();
            let b = v.pop().unwrap();
            let a = v.pop().unwrap();
            guarded(|| Box::new(TensorChain::<E, (Dyn<D>, Dyn<D>, Dyn<D>), D>::from((a, b, c), along)) as Dyn<D>)
        }
        (1, 4) => {
            let e = v.pop().unwrap();
            let c = v.pop().unwrap();
            let b = v.pop().unwrap();
            let a = v.pop().unwrap();
            guarded(|| Box::new(TensorChain::<E, (Dyn<D>, Dyn<D>, Dyn<D>, Dyn<D>), D>::from((a, b, c, e), along)) as Dyn<D>)
        }
        _ => return Err(bad_case()),
    };
    match built {
        None => Err(panicked()),
        Some(b) => Ok(<K as Dim<D>>::pack(b)),
    }
}

pub fn apply_chain(srcs: Vec<DynView>, name: usize, kind: i64) -> Result<DynView, Sx> {
    if srcs.is_empty() {
        return Err(bad_case());
    }
    let along = dim(name);
    match srcs[0].dims() {
        0 => chain_d::<0>(srcs, along, kind),
        1 => chain_d::<1>(srcs, along, kind),
        2 => chain_d::<2>(srcs, along, kind),
        3 => chain_d::<3>(srcs, along, kind),
        4 => chain_d::<4>(srcs, along, kind),
        5 => chain_d::<5>(srcs, along, kind),
        6 => chain_d::<6>(srcs, along, kind),
        _ => Err(bad_case()),
    }
}


/// `TensorStack::from([], ..)` / `TensorChain::from([], ..)`: "No sources provided" for every D
pub fn empty_sources_panic(stack: bool, pos: usize, name: usize) -> bool {
    let along = dim(name);
    macro_rules! st { ($($d:literal),*) => { true $(&& guarded(|| { TensorStack::<E, [Dyn<$d>; 0], $d>::from([], (pos, along)); }).is_none())* } }
    macro_rules! ch { ($($d:literal),*) => { true $(&& guarded(|| { TensorChain::<E, [Dyn<$d>; 0], $d>::from([], along); }).is_none())* } }
    if stack { st!(0, 1, 2, 3, 4, 5) } else { ch!(0, 1, 2, 3, 4, 5, 6) }
}

/// applies the single-source adaptor `v` = (tag src-term args..) to the already built source
pub fn apply_unary(src: DynView, v: &[Sx]) -> Result<DynView, Sx> {
    let tag = v[0].i64().ok_or_else(bad_case)?;
    match (tag, v.len()) {
        (1, 3) => {
            let p = params(&v[2]).ok_or_else(bad_case)?;
            each_d!(src, apply_range(&p))
        }
        (2, 3) => {
            let p = params(&v[2]).ok_or_else(bad_case)?;
            each_d!(src, apply_mask(&p))
        }
        (3, 3) => apply_index(src, &v[2].pairs_usize().ok_or_else(bad_case)?),
        (4, 3) => apply_expand(src, &v[2].pairs_usize().ok_or_else(bad_case)?),
        (5, 3) => {
            let names = v[2].usizes().ok_or_else(bad_case)?;
            each_d!(src, apply_rename(&names))
        }
        (6, 3) => {
            let names = v[2].usizes().ok_or_else(bad_case)?;
            each_d!(src, apply_reverse(&names))
        }
        (7, 3) => {
            let names = v[2].usizes().ok_or_else(bad_case)?;
            each_d!(src, apply_access(&names))
        }
        (8, 3) => {
            let names = v[2].usizes().ok_or_else(bad_case)?;
            each_d!(src, apply_transpose(&names))
        }
        (11, 3) => {
            let kind = v[2].i64().ok_or_else(bad_case)?;
            each_d!(src, apply_wrap(kind))
        }
        // convenience constructors of TensorView: via 1 = `_owned`, 2 = `_mut`, 3 = by reference
        (1..=8, 4) => conv_view(src, tag, &v[2], v[3].i64().ok_or_else(bad_case)?),
        _ => Err(bad_case()),
    }
}

// ------------------------------------------------------------------------------------------
// Convenience constructors (`TensorView::range_owned(..)`, `Tensor::reverse(..)`, ...): each is
// `TensorView::from(Adaptor::from(SOURCE, args))`; `TensorView::source()` hands the adaptor back,
// which is re-boxed like every other adaptor.  Receivers: a TensorView over the erased source
// (owned / `&mut` / `&`), or the leaf Tensor itself (`&mut` / `&`).
fn tv_owned<const D: usize>(x: Dyn<D>) -> TensorView<E, Dyn<D>, D> {
    TensorView::from(x)
}
fn tv_mut<const D: usize>(x: Dyn<D>) -> &'static mut TensorView<E, Dyn<D>, D> {
    Box::leak(Box::new(TensorView::from(x)))
}
#[allow(dead_code)]
fn tv_ref<const D: usize>(x: Dyn<D>) -> &'static TensorView<E, Dyn<D>, D> {
    Box::leak(Box::new(TensorView::from(x)))
}
fn tv_probe<const D: usize>(r: &TensorView<E, Dyn<D>, D>) -> &Dyn<D> {
    r.source_ref()
}
#[allow(dead_code)]
fn t_probe<const D: usize>(r: &Tensor<E, D>) -> &Tensor<E, D> {
    r
}

macro_rules! conv_named {
    ($recv:expr, $method:ident, $named:expr, $D:ident; $($p:literal),*) => {
        match $named.len() {
            $($p => {
                let arr: [(&'static str, IndexRange); $p] =
                    std::array::from_fn(|k| (dim($named[k].0), index_range($named[k].1, $named[k].2, k)));
                match guarded(|| $recv.$method(arr)) {
                    None => Err(panicked()),
                    Some(Err(e)) => Err(err(e_irv(&e))),
                    Some(Ok(v)) => Ok(Box::new(v.source()) as Dyn<$D>),
                }
            })*
            _ => Err(bad_case()),
        }
    };
}

// the panicking constructors behind index_by* / transpose_view must panic exactly when try_from
// reports an error; the canonical result is that error
macro_rules! conv_panicking {
    ($recv:expr, $probe:ident, $Try:ident, $names:expr, $call:expr, $D:ident) => {{
        let expected = $Try::try_from($probe(std::borrow::Borrow::borrow(&$recv)), $names).err().map(|e| e_access(&e));
        match (guarded($call), expected) {
            (None, Some(e)) => Err(err(e)),
            (Some(v), None) => Ok(Box::new(v) as Dyn<$D>),
            _ => Err(inconsistent(266)),
        }
    }};
}

macro_rules! conv_generic_fn {
    ($fname:ident, $Src:ty, $mk:ident, $probe:ident, $range:ident, $mask:ident, $reverse:ident, $index_by:ident
     $(, ref_only $rename_view:ident $transpose_view:ident)?) => {
        #[allow(dead_code)]
        pub fn $fname<const D: usize>(src: $Src, tag: i64, args: &Sx) -> Result<DynView, Sx>
        where
            K: Dim<D>,
        {
            let recv = $mk(src);
            let out: Result<Dyn<D>, Sx> = match tag {
                1 | 2 => {
                    let Some(Params::Named(false, named)) = params(args) else { return Err(bad_case()) };
                    if tag == 1 {
                        conv_named!(recv, $range, named, D; 0, 1, 2, 3, 4, 5, 6, 7)
                    } else {
                        conv_named!(recv, $mask, named, D; 0, 1, 2, 3, 4, 5, 6, 7)
                    }
                }
                6 => {
                    let names: Vec<&'static str> = args.usizes().ok_or_else(bad_case)?.iter().map(|n| dim(*n)).collect();
                    match guarded(|| recv.$reverse(&names)) {
                        None => Err(panicked()),
                        Some(v) => Ok(Box::new(v.source()) as Dyn<D>),
                    }
                }
                7 => {
                    let names = args.usizes().ok_or_else(bad_case)?;
                    if names.len() != D {
                        return Err(bad_case());
                    }
                    let names: [&'static str; D] = names_arr(&names);
                    conv_panicking!(recv, $probe, TensorAccess, names, || recv.$index_by(names), D)
                }
                $(
                5 => {
                    let names = args.usizes().ok_or_else(bad_case)?;
                    if names.len() != D {
                        return Err(bad_case());
                    }
                    let names: [&'static str; D] = names_arr(&names);
                    match guarded(|| recv.$rename_view(names)) {
                        None => Err(panicked()),
                        Some(v) => Ok(Box::new(v.source()) as Dyn<D>),
                    }
                }
                8 => {
                    let names = args.usizes().ok_or_else(bad_case)?;
                    if names.len() != D {
                        return Err(bad_case());
                    }
                    let names: [&'static str; D] = names_arr(&names);
                    conv_panicking!(recv, $probe, TensorTranspose, names, || recv.$transpose_view(names).source(), D)
                }
                )?
                _ => Err(bad_case()),
            };
            out.map(<K as Dim<D>>::pack)
        }
    };
}

fn id_recv<T>(x: T) -> T {
    x
}

conv_generic_fn!(conv_tv_owned, Dyn<D>, tv_owned, tv_probe, range_owned, mask_owned, reverse_owned, index_by_owned);
conv_generic_fn!(conv_tv_mut, Dyn<D>, tv_mut, tv_probe, range_mut, mask_mut, reverse_mut, index_by_mut);
only_ref! {
    conv_generic_fn!(conv_tv_ref, Dyn<D>, tv_ref, tv_probe, range, mask, reverse, index_by, ref_only rename_view transpose_view);
    conv_generic_fn!(conv_t_ref, &'static Tensor<E, D>, id_recv, t_probe, range, mask, reverse, index_by, ref_only rename_view transpose_view);
}
only_mut! {
    conv_generic_fn!(conv_t_mut, &'static mut Tensor<E, D>, id_recv, t_probe, range_mut, mask_mut, reverse_mut, index_by_mut);
}

// select / expand exist for exactly one pair and per dimensionality
macro_rules! conv_select_case {
    ($src:expr, $args:expr, $mk:ident, $method:ident, $W:ident; $( ($Vin:ident, $Vout:ident) ),*) => {{
        let ps = $args.pairs_usize().ok_or_else(bad_case)?;
        if ps.len() != 1 {
            return Err(bad_case());
        }
        match $src {
            $( $W::$Vin(x) => {
                let recv = $mk(x);
                match guarded(|| recv.$method([(dim(ps[0].0), ps[0].1)])) {
                    None => Err(panicked()),
                    Some(v) => Ok(DynView::$Vout(Box::new(v.source()))),
                }
            } )*
            #[allow(unreachable_patterns)]
            _ => Err(bad_case()),
        }
    }};
}
macro_rules! conv_expand_case {
    ($src:expr, $args:expr, $mk:ident, $method:ident, $W:ident; $( ($Vin:ident, $Vout:ident) ),*) => {{
        let es = $args.pairs_usize().ok_or_else(bad_case)?;
        if es.len() != 1 {
            return Err(bad_case());
        }
        match $src {
            $( $W::$Vin(x) => {
                let recv = $mk(x);
                match guarded(|| recv.$method([(es[0].0, dim(es[0].1))])) {
                    None => Err(panicked()),
                    Some(v) => Ok(DynView::$Vout(Box::new(v.source()))),
                }
            } )*
            #[allow(unreachable_patterns)]
            _ => Err(bad_case()),
        }
    }};
}
macro_rules! conv_select {
    ($src:expr, $args:expr, $mk:ident, $method:ident, $W:ident) => {
        conv_select_case!($src, $args, $mk, $method, $W; (D1, D0), (D2, D1), (D3, D2), (D4, D3), (D5, D4), (D6, D5))
    };
}
macro_rules! conv_expand {
    ($src:expr, $args:expr, $mk:ident, $method:ident, $W:ident) => {
        conv_expand_case!($src, $args, $mk, $method, $W; (D0, D1), (D1, D2), (D2, D3), (D3, D4), (D4, D5), (D5, D6))
    };
}

/// `(tag src args via)`: the convenience constructors of TensorView over the erased source
pub fn conv_view(src: DynView, tag: i64, args: &Sx, via: i64) -> Result<DynView, Sx> {
    match (via, tag) {
        (1, 3) => conv_select!(src, args, tv_owned, select_owned, DynView),
        (1, 4) => conv_expand!(src, args, tv_owned, expand_owned, DynView),
        (1, _) => each_d!(src, conv_tv_owned(tag, args)),
        (2, 3) => conv_select!(src, args, tv_mut, select_mut, DynView),
        (2, 4) => conv_expand!(src, args, tv_mut, expand_mut, DynView),
        (2, _) => each_d!(src, conv_tv_mut(tag, args)),
        (3, _) => conv_view_ref(src, tag, args),
        _ => Err(bad_case()),
    }
}
only_ref! {
    fn conv_view_ref(src: DynView, tag: i64, args: &Sx) -> Result<DynView, Sx> {
        match tag {
            3 => conv_select!(src, args, tv_ref, select, DynView),
            4 => conv_expand!(src, args, tv_ref, expand, DynView),
            _ => each_d!(src, conv_tv_ref(tag, args)),
        }
    }
    /// `Tensor::xxx(&self, ..)` on the leaf tensor itself
    pub fn conv_leaf(leaf: LeafRef, tag: i64, args: &Sx) -> Result<DynView, Sx> {
        let leaf = leaf.shared();
        match tag {
            3 => conv_select!(leaf, args, id_recv, select, LeafShared),
            4 => conv_expand!(leaf, args, id_recv, expand, LeafShared),
            _ => match leaf {
                LeafShared::D0(t) => conv_t_ref::<0>(t, tag, args),
                LeafShared::D1(t) => conv_t_ref::<1>(t, tag, args),
                LeafShared::D2(t) => conv_t_ref::<2>(t, tag, args),
                LeafShared::D3(t) => conv_t_ref::<3>(t, tag, args),
                LeafShared::D4(t) => conv_t_ref::<4>(t, tag, args),
                LeafShared::D5(t) => conv_t_ref::<5>(t, tag, args),
                LeafShared::D6(t) => conv_t_ref::<6>(t, tag, args),
            },
        }
    }
}
only_mut! {
    fn conv_view_ref(_src: DynView, _tag: i64, _args: &Sx) -> Result<DynView, Sx> {
        Err(bad_case()) // a `&S` source is read-only: build.rs moves the source to the other family first
    }
    /// `Tensor::xxx_mut(&mut self, ..)` on the leaf tensor itself
    pub fn conv_leaf(leaf: LeafRef, tag: i64, args: &Sx) -> Result<DynView, Sx> {
        match tag {
            3 => conv_select!(leaf, args, id_recv, select_mut, LeafRef),
            4 => conv_expand!(leaf, args, id_recv, expand_mut, LeafRef),
            _ => match leaf {
                LeafRef::D0(t) => conv_t_mut::<0>(t, tag, args),
                LeafRef::D1(t) => conv_t_mut::<1>(t, tag, args),
                LeafRef::D2(t) => conv_t_mut::<2>(t, tag, args),
                LeafRef::D3(t) => conv_t_mut::<3>(t, tag, args),
                LeafRef::D4(t) => conv_t_mut::<4>(t, tag, args),
                LeafRef::D5(t) => conv_t_mut::<5>(t, tag, args),
                LeafRef::D6(t) => conv_t_mut::<6>(t, tag, args),
            },
        }
    }
}
