//! (C12's own snapshot of harness/src/c02/build.rs, so that work in progress on C02 cannot break C12.)
//! The dynamic view interpreter: term -> `Box<dyn TensorMut<i64, D>>` through the real constructors.
use crate::guarded;
use crate::sx::*;
use easy_ml::interop::TensorRefMatrix;
use easy_ml::matrices::Matrix;
use easy_ml::tensors::indexing::{TensorAccess, TensorTranspose};
use easy_ml::tensors::views::{
    IndexRange, IndexRangeValidationError, StrictIndexRangeValidationError, TensorChain,
    TensorExpansion, TensorIndex, TensorMask, TensorMut, TensorRange, TensorRename, TensorReverse,
    TensorStack,
};
use easy_ml::tensors::{InvalidDimensionsError, InvalidShapeError, Tensor};

pub type Dyn<const D: usize> = Box<dyn TensorMut<i64, D>>;

pub enum DynView {
    D0(Dyn<0>),
    D1(Dyn<1>),
    D2(Dyn<2>),
    D3(Dyn<3>),
    D4(Dyn<4>),
    D5(Dyn<5>),
    D6(Dyn<6>),
}

impl DynView {
    pub fn dims(&self) -> usize {
        match self {
            DynView::D0(_) => 0,
            DynView::D1(_) => 1,
            DynView::D2(_) => 2,
            DynView::D3(_) => 3,
            DynView::D4(_) => 4,
            DynView::D5(_) => 5,
            DynView::D6(_) => 6,
        }
    }
}

/// pack / unpack between the enum and a statically known dimensionality
pub trait Dim<const D: usize> {
    fn pack(b: Dyn<D>) -> DynView;
    fn unpack(v: DynView) -> Option<Dyn<D>>;
}
pub struct K;
macro_rules! dim_impl {
    ($($d:literal $V:ident),*) => {$(
        impl Dim<$d> for K {
            fn pack(b: Dyn<$d>) -> DynView { DynView::$V(b) }
            fn unpack(v: DynView) -> Option<Dyn<$d>> { match v { DynView::$V(b) => Some(b), _ => None } }
        }
    )*};
}
dim_impl!(0 D0, 1 D1, 2 D2, 3 D3, 4 D4, 5 D5, 6 D6);

/// dispatch a generic function over the dimensionality held by a DynView
macro_rules! each_d {
    ($v:expr, $f:ident ( $($arg:expr),* )) => {
        match $v {
            DynView::D0(x) => $f::<0>(x, $($arg),*),
            DynView::D1(x) => $f::<1>(x, $($arg),*),
            DynView::D2(x) => $f::<2>(x, $($arg),*),
            DynView::D3(x) => $f::<3>(x, $($arg),*),
            DynView::D4(x) => $f::<4>(x, $($arg),*),
            DynView::D5(x) => $f::<5>(x, $($arg),*),
            DynView::D6(x) => $f::<6>(x, $($arg),*),
        }
    };
}

// ---------------------------------------------------------------- leaves
enum Leaf {
    T0(*mut Tensor<i64, 0>),
    T1(*mut Tensor<i64, 1>),
    T2(*mut Tensor<i64, 2>),
    T3(*mut Tensor<i64, 3>),
    T4(*mut Tensor<i64, 4>),
    T5(*mut Tensor<i64, 5>),
    T6(*mut Tensor<i64, 6>),
    M(*mut Matrix<i64>),
}

/// Owns the leaf tensors; the view under test holds `&'static mut` borrows into them, which are
/// all dropped (with the view) before `dump` reads the leaves again.
pub struct Arena {
    leaves: Vec<Leaf>,
}

impl Arena {
    pub fn new() -> Arena {
        Arena { leaves: vec![] }
    }
    pub fn dump(&self) -> Sx {
        l(self
            .leaves
            .iter()
            .map(|leaf| unsafe {
                let values: Vec<i64> = match leaf {
                    Leaf::T0(p) => (**p).iter().collect(),
                    Leaf::T1(p) => (**p).iter().collect(),
                    Leaf::T2(p) => (**p).iter().collect(),
                    Leaf::T3(p) => (**p).iter().collect(),
                    Leaf::T4(p) => (**p).iter().collect(),
                    Leaf::T5(p) => (**p).iter().collect(),
                    Leaf::T6(p) => (**p).iter().collect(),
                    Leaf::M(p) => (**p).row_major_iter().collect(),
                };
                l(values.into_iter().map(z).collect())
            })
            .collect())
    }
}

impl Drop for Arena {
    fn drop(&mut self) {
        for leaf in self.leaves.drain(..) {
            unsafe {
                match leaf {
                    Leaf::T0(p) => drop(Box::from_raw(p)),
                    Leaf::T1(p) => drop(Box::from_raw(p)),
                    Leaf::T2(p) => drop(Box::from_raw(p)),
                    Leaf::T3(p) => drop(Box::from_raw(p)),
                    Leaf::T4(p) => drop(Box::from_raw(p)),
                    Leaf::T5(p) => drop(Box::from_raw(p)),
                    Leaf::T6(p) => drop(Box::from_raw(p)),
                    Leaf::M(p) => drop(Box::from_raw(p)),
                }
            }
        }
    }
}

macro_rules! leaf_case {
    ($arena:expr, $id:expr, $shape:expr; $($d:literal $L:ident $V:ident),*) => {
        match $shape.len() {
            $($d => {
                let shape: [(&'static str, usize); $d] = shape_arr($shape);
                let elements: usize = match shape.iter().try_fold(1usize, |a, x| a.checked_mul(x.1)) {
                    Some(e) if e <= 100_000 => e,
                    _ => return Err(bad_case()),
                };
                let data: Vec<i64> = (0..elements as i64).map(|k| $id * 1000 + k).collect();
                match Tensor::try_from(shape, data) {
                    Err(e) => Err(err(e_shape(&e))),
                    Ok(t) => {
                        let p = Box::into_raw(Box::new(t));
                        $arena.leaves.push(Leaf::$L(p));
                        let r: &'static mut Tensor<i64, $d> = unsafe { &mut *p };
                        Ok(DynView::$V(Box::new(r)))
                    }
                }
            })*
            _ => Err(bad_case()),
        }
    };
}

// ---------------------------------------------------------------- error payloads
pub fn e_shape<const D: usize>(e: &InvalidShapeError<D>) -> Sx {
    l(vec![z(0), shape_sx(&e.shape())])
}
fn e_dims<const D: usize, const P: usize>(e: &InvalidDimensionsError<D, P>) -> Sx {
    l(vec![z(1), names_sx(&e.provided_names()), names_sx(&e.valid_names())])
}
/// IndexRange's fields are crate-private: read them from the Debug rendering
/// `IndexRange { start: 1, length: 3 }`.
fn range_sx(r: &IndexRange) -> Sx {
    let text = format!("{:?}", r);
    let num_after = |key: &str| -> usize {
        let at = text.find(key).expect("IndexRange debug format") + key.len();
        text[at..]
            .chars()
            .take_while(|c| c.is_ascii_digit())
            .collect::<String>()
            .parse()
            .expect("IndexRange debug number")
    };
    l(vec![z(num_after("start: ")), z(num_after("length: "))])
}
fn e_irv<const D: usize, const P: usize>(e: &IndexRangeValidationError<D, P>) -> Sx {
    match e {
        IndexRangeValidationError::InvalidShape(s) => l(vec![z(3), e_shape(s)]),
        IndexRangeValidationError::InvalidDimensions(d) => l(vec![z(4), e_dims(d)]),
    }
}
pub fn e_strict<const D: usize, const P: usize>(e: &StrictIndexRangeValidationError<D, P>) -> Sx {
    match e {
        StrictIndexRangeValidationError::OutsideShape { shape, index_range } => l(vec![
            z(2),
            shape_sx(shape),
            l(index_range.iter().map(|o| opt(o.as_ref().map(range_sx))).collect()),
        ]),
        StrictIndexRangeValidationError::Error(inner) => l(vec![z(5), e_irv(inner)]),
    }
}

// ---------------------------------------------------------------- parameters
pub enum Params {
    Named(bool, Vec<(usize, usize, usize)>),
    All(bool, Vec<Option<(usize, usize)>>),
}

pub fn params(s: &Sx) -> Option<Params> {
    let v = s.list()?;
    if v.len() != 3 {
        return None;
    }
    let strict = v[1].bool()?;
    match v[0].i64()? {
        0 => {
            let named = v[2]
                .list()?
                .iter()
                .map(|x| {
                    let t = x.usizes()?;
                    if t.len() != 3 {
                        return None;
                    }
                    Some((t[0], t[1], t[2]))
                })
                .collect::<Option<Vec<_>>>()?;
            Some(Params::Named(strict, named))
        }
        1 => {
            let all = v[2]
                .list()?
                .iter()
                .map(|x| match x.option()? {
                    None => Some(None),
                    Some(r) => {
                        let t = r.usizes()?;
                        if t.len() != 2 {
                            return None;
                        }
                        Some(Some((t[0], t[1])))
                    }
                })
                .collect::<Option<Vec<_>>>()?;
            Some(Params::All(strict, all))
        }
        _ => None,
    }
}

/// the conversions into IndexRange that must agree: IndexRange::new, (start, len), [start, len]
/// and start..end (when the end does not overflow)
pub fn index_range(start: usize, len: usize, salt: usize) -> IndexRange {
    let base = IndexRange::new(start, len);
    let tuple: IndexRange = (start, len).into();
    let array: IndexRange = [start, len].into();
    assert!(base == tuple && base == array, "EASYML-C02 IndexRange conversions disagree");
    if let Some(end) = start.checked_add(len) {
        let range: IndexRange = (start..end).into();
        assert!(base == range, "EASYML-C02 IndexRange from Range disagrees");
        if salt % 2 == 1 {
            return range;
        }
    }
    match salt % 3 {
        0 => base,
        1 => tuple,
        _ => array,
    }
}

macro_rules! named_case {
    ($Adaptor:ident, $src:expr, $strict:expr, $named:expr, $D:ident; $($p:literal),*) => {
        match $named.len() {
            $($p => {
                let arr: [(&'static str, IndexRange); $p] =
                    std::array::from_fn(|k| (dim($named[k].0), index_range($named[k].1, $named[k].2, k)));
                if $strict {
                    match guarded(|| $Adaptor::from_strict($src, arr)) {
                        None => Err(panicked()),
                        Some(Err(e)) => Err(err(e_strict(&e))),
                        Some(Ok(v)) => Ok(Box::new(v) as Dyn<$D>),
                    }
                } else {
                    match guarded(|| $Adaptor::from($src, arr)) {
                        None => Err(panicked()),
                        Some(Err(e)) => Err(err(e_irv(&e))),
                        Some(Ok(v)) => Ok(Box::new(v) as Dyn<$D>),
                    }
                }
            })*
            _ => Err(bad_case()),
        }
    };
}

macro_rules! ranged_fn {
    ($name:ident, $Adaptor:ident) => {
        fn $name<const D: usize>(src: Dyn<D>, p: &Params) -> Result<DynView, Sx>
        where
            K: Dim<D>,
        {
            let out: Result<Dyn<D>, Sx> = match p {
                Params::All(strict, all) => {
                    if all.len() != D {
                        return Err(bad_case());
                    }
                    let arr: [Option<IndexRange>; D] =
                        std::array::from_fn(|d| all[d].map(|(s, n)| index_range(s, n, d)));
                    if *strict {
                        match guarded(|| $Adaptor::from_all_strict(src, arr)) {
                            None => Err(panicked()),
                            Some(Err(e)) => Err(err(e_strict(&e))),
                            Some(Ok(v)) => Ok(Box::new(v) as Dyn<D>),
                        }
                    } else {
                        match guarded(|| $Adaptor::from_all(src, arr)) {
                            None => Err(panicked()),
                            Some(Err(e)) => Err(err(e_shape(&e))),
                            Some(Ok(v)) => Ok(Box::new(v) as Dyn<D>),
                        }
                    }
                }
                Params::Named(strict, named) => {
                    named_case!($Adaptor, src, *strict, named, D; 0, 1, 2, 3, 4, 5, 6, 7)
                }
            };
            out.map(<K as Dim<D>>::pack)
        }
    };
}
ranged_fn!(apply_range, TensorRange);
ranged_fn!(apply_mask, TensorMask);

fn apply_rename<const D: usize>(src: Dyn<D>, names: &[usize]) -> Result<DynView, Sx>
where
    K: Dim<D>,
{
    if names.len() != D {
        return Err(bad_case());
    }
    let names: [&'static str; D] = names_arr(names);
    match guarded(|| TensorRename::from(src, names)) {
        None => Err(panicked()),
        Some(v) => {
            if v.get_names() != &names {
                return Err(inconsistent(260));
            }
            Ok(<K as Dim<D>>::pack(Box::new(v)))
        }
    }
}

fn apply_reverse<const D: usize>(src: Dyn<D>, names: &[usize]) -> Result<DynView, Sx>
where
    K: Dim<D>,
{
    let names: Vec<&'static str> = names.iter().map(|n| dim(*n)).collect();
    match guarded(|| TensorReverse::from(src, &names)) {
        None => Err(panicked()),
        Some(v) => Ok(<K as Dim<D>>::pack(Box::new(v))),
    }
}

pub fn e_access<const D: usize>(e: &easy_ml::tensors::indexing::InvalidDimensionsError<D>) -> Sx {
    l(vec![z(6), shape_sx(&e.actual), names_sx(&e.requested)])
}

fn apply_access<const D: usize>(src: Dyn<D>, names: &[usize]) -> Result<DynView, Sx>
where
    K: Dim<D>,
{
    if names.len() != D {
        return Err(bad_case());
    }
    let names: [&'static str; D] = names_arr(names);
    // the panicking constructor must reject exactly when try_from does
    let would_panic = guarded(|| {
        TensorAccess::from(&src, names);
    })
    .is_none();
    match TensorAccess::try_from(src, names) {
        Err(e) => {
            if !would_panic {
                return Err(inconsistent(261));
            }
            Err(err(e_access(&e)))
        }
        Ok(v) => {
            if would_panic {
                return Err(inconsistent(262));
            }
            Ok(<K as Dim<D>>::pack(Box::new(v)))
        }
    }
}

fn apply_transpose<const D: usize>(src: Dyn<D>, names: &[usize]) -> Result<DynView, Sx>
where
    K: Dim<D>,
{
    if names.len() != D {
        return Err(bad_case());
    }
    let names: [&'static str; D] = names_arr(names);
    let would_panic = guarded(|| {
        TensorTranspose::from(&src, names);
    })
    .is_none();
    match TensorTranspose::try_from(src, names) {
        Err(e) => {
            if !would_panic {
                return Err(inconsistent(263));
            }
            Err(err(e_access(&e)))
        }
        Ok(v) => {
            if would_panic {
                return Err(inconsistent(264));
            }
            Ok(<K as Dim<D>>::pack(Box::new(v)))
        }
    }
}

fn apply_wrap<const D: usize>(src: Dyn<D>, kind: i64) -> Result<DynView, Sx>
where
    K: Dim<D>,
{
    let out: Dyn<D> = match kind {
        // Box<S> with S = Box<dyn TensorMut>
        0 => Box::new(Box::new(src)),
        // &mut S (leaked: the case is short lived)
        1 => {
            let r: &'static mut Dyn<D> = Box::leak(Box::new(src));
            Box::new(r)
        }
        // Box<dyn TensorMut> used as a source again
        2 => Box::new(src),
        _ => return Err(bad_case()),
    };
    Ok(<K as Dim<D>>::pack(out))
}

macro_rules! index_case {
    ($src:expr, $ps:expr; $( ($Vin:ident, $d:literal, $i:literal, $Vout:ident) ),*) => {
        match ($src, $ps.len()) {
            $( (DynView::$Vin(x), $i) => {
                let arr: [(&'static str, usize); $i] = std::array::from_fn(|k| (dim($ps[k].0), $ps[k].1));
                match guarded(|| TensorIndex::<i64, _, $d, $i>::from(x, arr)) {
                    None => Err(panicked()),
                    Some(v) => Ok(DynView::$Vout(Box::new(v))),
                }
            } )*
            _ => Err(bad_case()),
        }
    };
}

fn apply_index(src: DynView, ps: &[(usize, usize)]) -> Result<DynView, Sx> {
    index_case!(src, ps;
        (D1, 1, 1, D0),
        (D2, 2, 1, D1), (D2, 2, 2, D0),
        (D3, 3, 1, D2), (D3, 3, 2, D1), (D3, 3, 3, D0),
        (D4, 4, 1, D3), (D4, 4, 2, D2), (D4, 4, 3, D1), (D4, 4, 4, D0),
        (D5, 5, 1, D4), (D5, 5, 2, D3), (D5, 5, 3, D2), (D5, 5, 4, D1), (D5, 5, 5, D0),
        (D6, 6, 1, D5), (D6, 6, 2, D4), (D6, 6, 3, D3), (D6, 6, 4, D2), (D6, 6, 5, D1), (D6, 6, 6, D0))
}

macro_rules! expand_case {
    ($src:expr, $es:expr; $( ($Vin:ident, $d:literal, $i:literal, $Vout:ident) ),*) => {
        match ($src, $es.len()) {
            $( (DynView::$Vin(x), $i) => {
                let arr: [(usize, &'static str); $i] = std::array::from_fn(|k| ($es[k].0, dim($es[k].1)));
                match guarded(|| TensorExpansion::<i64, _, $d, $i>::from(x, arr)) {
                    None => Err(panicked()),
                    Some(v) => Ok(DynView::$Vout(Box::new(v))),
                }
            } )*
            _ => Err(bad_case()),
        }
    };
}

fn apply_expand(src: DynView, es: &[(usize, usize)]) -> Result<DynView, Sx> {
    expand_case!(src, es;
        (D0, 0, 1, D1), (D0, 0, 2, D2), (D0, 0, 3, D3), (D0, 0, 4, D4), (D0, 0, 5, D5), (D0, 0, 6, D6),
        (D1, 1, 1, D2), (D1, 1, 2, D3), (D1, 1, 3, D4), (D1, 1, 4, D5), (D1, 1, 5, D6),
        (D2, 2, 1, D3), (D2, 2, 2, D4), (D2, 2, 3, D5), (D2, 2, 4, D6),
        (D3, 3, 1, D4), (D3, 3, 2, D5), (D3, 3, 3, D6),
        (D4, 4, 1, D5), (D4, 4, 2, D6),
        (D5, 5, 1, D6))
}

fn unpack_all<const D: usize>(vs: Vec<DynView>) -> Option<Vec<Dyn<D>>>
where
    K: Dim<D>,
{
    vs.into_iter().map(<K as Dim<D>>::unpack).collect()
}

fn to_array<T, const N: usize>(v: Vec<T>) -> [T; N] {
    match v.try_into() {
        Ok(a) => a,
        Err(_) => panic!("harness: source count"),
    }
}

macro_rules! stack_case {
    ($srcs:expr, $along:expr, $kind:expr; $( ($d:literal, $Vout:ident) ),*) => {
        match $srcs[0].dims() {
            $( $d => {
                let Some(mut v) = unpack_all::<$d>($srcs) else { return Err(bad_case()) };
                let along = $along;
                let built: Option<Dyn<{ $d + 1 }>> = match ($kind, v.len()) {
                    (0, 1) => guarded(|| Box::new(TensorStack::<i64, [Dyn<$d>; 1], $d>::from(to_array(v), along)) as Dyn<{ $d + 1 }>),
                    (0, 2) => guarded(|| Box::new(TensorStack::<i64, [Dyn<$d>; 2], $d>::from(to_array(v), along)) as Dyn<{ $d + 1 }>),
                    (0, 3) => guarded(|| Box::new(TensorStack::<i64, [Dyn<$d>; 3], $d>::from(to_array(v), along)) as Dyn<{ $d + 1 }>),
                    (0, 4) => guarded(|| Box::new(TensorStack::<i64, [Dyn<$d>; 4], $d>::from(to_array(v), along)) as Dyn<{ $d + 1 }>),
                    (0, 5) => guarded(|| Box::new(TensorStack::<i64, [Dyn<$d>; 5], $d>::from(to_array(v), along)) as Dyn<{ $d + 1 }>),
                    (1, 2) => {
                        let b = v.pop().unwrap();
                        let a = v.pop().unwrap();
                        guarded(|| Box::new(TensorStack::<i64, (Dyn<$d>, Dyn<$d>), $d>::from((a, b), along)) as Dyn<{ $d + 1 }>)
                    }
                    (1, 3) => {
                        let c = v.pop().unwrap();
                        let b = v.pop().unwrap();
                        let a = v.pop().unwrap();
                        guarded(|| Box::new(TensorStack::<i64, (Dyn<$d>, Dyn<$d>, Dyn<$d>), $d>::from((a, b, c), along)) as Dyn<{ $d + 1 }>)
                    }
                    (1, 4) => {
                        let e = v.pop().unwrap();
                        let c = v.pop().unwrap();
                        let b = v.pop().unwrap();
                        let a = v.pop().unwrap();
                        guarded(|| Box::new(TensorStack::<i64, (Dyn<$d>, Dyn<$d>, Dyn<$d>, Dyn<$d>), $d>::from((a, b, c, e), along)) as Dyn<{ $d + 1 }>)
                    }
                    _ => return Err(bad_case()),
                };
                match built {
                    None => Err(panicked()),
                    Some(b) => Ok(DynView::$Vout(b)),
                }
            } )*
            _ => Err(bad_case()),
        }
    };
}

fn apply_stack(srcs: Vec<DynView>, pos: usize, name: usize, kind: i64) -> Result<DynView, Sx> {
    if srcs.is_empty() {
        return Err(bad_case());
    }
    stack_case!(srcs, (pos, dim(name)), kind; (0, D1), (1, D2), (2, D3), (3, D4), (4, D5), (5, D6))
}

fn chain_d<const D: usize>(srcs: Vec<DynView>, along: &'static str, kind: i64) -> Result<DynView, Sx>
where
    K: Dim<D>,
{
    let Some(mut v) = unpack_all::<D>(srcs) else { return Err(bad_case()) };
    let built: Option<Dyn<D>> = match (kind, v.len()) {
        (0, 1) => guarded(|| Box::new(TensorChain::<i64, [Dyn<D>; 1], D>::from(to_array(v), along)) as Dyn<D>),
        (0, 2) => guarded(|| Box::new(TensorChain::<i64, [Dyn<D>; 2], D>::from(to_array(v), along)) as Dyn<D>),
        (0, 3) => guarded(|| Box::new(TensorChain::<i64, [Dyn<D>; 3], D>::from(to_array(v), along)) as Dyn<D>),
        (0, 4) => guarded(|| Box::new(TensorChain::<i64, [Dyn<D>; 4], D>::from(to_array(v), along)) as Dyn<D>),
        (0, 5) => guarded(|| Box::new(TensorChain::<i64, [Dyn<D>; 5], D>::from(to_array(v), along)) as Dyn<D>),
        (1, 2) => {
            let b = v.pop().unwrap();
            let a = v.pop().unwrap();
            guarded(|| Box::new(TensorChain::<i64, (Dyn<D>, Dyn<D>), D>::from((a, b), along)) as Dyn<D>)
        }
        (1, 3) => {
            let c = v.pop().unwrap();
            let b = v.pop().unwrap();
            let a = v.pop().unwrap();
            guarded(|| Box::new(TensorChain::<i64, (Dyn<D>, Dyn<D>, Dyn<D>), D>::from((a, b, c), along)) as Dyn<D>)
        }
        (1, 4) => {
            let e = v.pop().unwrap();
            let c = v.pop().unwrap();
            let b = v.pop().unwrap();
            let a = v.pop().unwrap();
            guarded(|| Box::new(TensorChain::<i64, (Dyn<D>, Dyn<D>, Dyn<D>, Dyn<D>), D>::from((a, b, c, e), along)) as Dyn<D>)
        }
        _ => return Err(bad_case()),
    };
    match built {
        None => Err(panicked()),
        Some(b) => Ok(<K as Dim<D>>::pack(b)),
    }
}

fn apply_chain(srcs: Vec<DynView>, name: usize, kind: i64) -> Result<DynView, Sx> {
    if srcs.is_empty() {
        return Err(bad_case());
    }
    let along = dim(name);
    match srcs[0].dims() {
        0 => chain_d::<0>(srcs, along, kind),
        1 => chain_d::<1>(srcs, along, kind),
        2 => chain_d::<2>(srcs, along, kind),
        3 => chain_d::<3>(srcs, along, kind),
        4 => chain_d::<4>(srcs, along, kind),
        5 => chain_d::<5>(srcs, along, kind),
        6 => chain_d::<6>(srcs, along, kind),
        _ => Err(bad_case()),
    }
}

fn matrix_leaf(arena: &mut Arena, id: i64, rows: usize, cols: usize, n0: usize, n1: usize) -> Result<DynView, Sx> {
    let Some(elements) = rows.checked_mul(cols) else { return Err(bad_case()) };
    if elements > 100_000 {
        return Err(bad_case());
    }
    let data: Vec<i64> = (0..elements as i64).map(|k| id * 1000 + k).collect();
    let Some(m) = guarded(|| Matrix::from_flat_row_major((rows, cols), data)) else {
        return Err(panicked());
    };
    let p = Box::into_raw(Box::new(m));
    arena.leaves.push(Leaf::M(p));
    let r: &'static mut Matrix<i64> = unsafe { &mut *p };
    match TensorRefMatrix::with_names(r, [dim(n0), dim(n1)]) {
        Err(e) => Err(err(e_shape(&e))),
        Ok(v) => Ok(DynView::D2(Box::new(v))),
    }
}

/// collects the leaf ids of a term (false: not a term)
pub fn leaf_ids(t: &Sx, out: &mut Vec<i64>) -> bool {
    let Some(v) = t.list() else { return false };
    let Some(tag) = v.first().and_then(|x| x.i64()) else { return false };
    match tag {
        0 | 12 => match v.get(1).and_then(|x| x.i64()) {
            Some(id) if id >= 0 => {
                out.push(id);
                true
            }
            _ => false,
        },
        1..=8 | 11 => v.len() >= 2 && leaf_ids(&v[1], out),
        9 | 10 => match v.get(1).and_then(|x| x.list()) {
            Some(ts) => ts.iter().all(|t| leaf_ids(t, out)),
            None => false,
        },
        _ => false,
    }
}

/// Err(result line) on the first failing constructor (or a line outside the case language)
pub fn build(t: &Sx, arena: &mut Arena) -> Result<DynView, Sx> {
    let v = t.list().ok_or_else(bad_case)?;
    let tag = v.first().and_then(|x| x.i64()).ok_or_else(bad_case)?;
    match (tag, v.len()) {
        (0, 3) => {
            let id = v[1].i64().ok_or_else(bad_case)?;
            let shape = v[2].pairs_usize().ok_or_else(bad_case)?;
            leaf_case!(arena, id, &shape; 0 T0 D0, 1 T1 D1, 2 T2 D2, 3 T3 D3, 4 T4 D4, 5 T5 D5, 6 T6 D6)
        }
        (12, 6) => {
            let id = v[1].i64().ok_or_else(bad_case)?;
            let n: Vec<usize> = v[2..6].iter().map(|x| x.usize()).collect::<Option<_>>().ok_or_else(bad_case)?;
            matrix_leaf(arena, id, n[0], n[1], n[2], n[3])
        }
        (1, 3) => {
            let p = params(&v[2]).ok_or_else(bad_case)?;
            let src = build(&v[1], arena)?;
            each_d!(src, apply_range(&p))
        }
        (2, 3) => {
            let p = params(&v[2]).ok_or_else(bad_case)?;
            let src = build(&v[1], arena)?;
            each_d!(src, apply_mask(&p))
        }
        (3, 3) => {
            let ps = v[2].pairs_usize().ok_or_else(bad_case)?;
            let src = build(&v[1], arena)?;
            apply_index(src, &ps)
        }
        (4, 3) => {
            let es = v[2].pairs_usize().ok_or_else(bad_case)?;
            let src = build(&v[1], arena)?;
            apply_expand(src, &es)
        }
        (5, 3) => {
            let names = v[2].usizes().ok_or_else(bad_case)?;
            let src = build(&v[1], arena)?;
            each_d!(src, apply_rename(&names))
        }
        (6, 3) => {
            let names = v[2].usizes().ok_or_else(bad_case)?;
            let src = build(&v[1], arena)?;
            each_d!(src, apply_reverse(&names))
        }
        (7, 3) => {
            let names = v[2].usizes().ok_or_else(bad_case)?;
            let src = build(&v[1], arena)?;
            each_d!(src, apply_access(&names))
        }
        (8, 3) => {
            let names = v[2].usizes().ok_or_else(bad_case)?;
            let src = build(&v[1], arena)?;
            each_d!(src, apply_transpose(&names))
        }
        (9, 5) => {
            let ts = v[1].list().ok_or_else(bad_case)?;
            let pos = v[2].usize().ok_or_else(bad_case)?;
            let name = v[3].usize().ok_or_else(bad_case)?;
            let kind = v[4].i64().ok_or_else(bad_case)?;
            let mut srcs = vec![];
            for t in ts {
                srcs.push(build(t, arena)?);
            }
            apply_stack(srcs, pos, name, kind)
        }
        (10, 4) => {
            let ts = v[1].list().ok_or_else(bad_case)?;
            let name = v[2].usize().ok_or_else(bad_case)?;
            let kind = v[3].i64().ok_or_else(bad_case)?;
            let mut srcs = vec![];
            for t in ts {
                srcs.push(build(t, arena)?);
            }
            apply_chain(srcs, name, kind)
        }
        (11, 3) => {
            let kind = v[2].i64().ok_or_else(bad_case)?;
            let src = build(&v[1], arena)?;
            each_d!(src, apply_wrap(kind))
        }
        _ => Err(bad_case()),
    }
}
