//! C18: determinism.
//!   (18 1 ty layout prog)                       the multi-tape machine of Model/Determinism.v against real
//!                                               WengertLists / Records; `layout` 0..=3 chooses where the tapes
//!                                               live in memory (which addresses ptr::eq gets to see); the result
//!                                               must not depend on it and must equal the model's.
//!       instr: (0) new tape | (1 t v) variable | (2 v) constant | (3 a b) add | (4 a b) mul
//!              | (5 (regs)) RecordTensor::from_iter | (6 t) clear | (7 a) derivatives
//!   (18 2 w seed (pre...) thread allocseed)     run workload w (see WORKLOADS) on data derived from `seed` after the
//!                                               unrelated library calls `pre` (ids, results discarded), on a
//!                                               spawned thread if thread != 0, after perturbing the heap with
//!                                               random-size allocations if allocseed != 0.  Result: (0 digest n)
//!                                               where digest is an FNV-1a 64 hash over everything the workload
//!                                               observed (f64::to_bits, Debug / Display strings, shapes, iteration
//!                                               orders, tape positions, error values) and n the number of items
//!                                               hashed.  Digests are compared ACROSS executions by tools/props/c18.py.
//!   (18 3 kind ...)                             FORMATTED OUTPUT compared with Model/Format.v, result (0 (char codes)):
//!       (18 3 0 el prec rows cols (v...))         Matrix / MatrixView (owned, borrowed, full range) Display
//!       (18 3 1 el prec ((name len)...) (v...))   Tensor / TensorView (owned, borrowed) Display, D <= 3
//!       (18 3 2 el prec ((name len)...) (v...) swap)  TensorAccess (index_by / index_by on a view) Display, D <= 2
//!       (18 3 3 el prec v)                        Record / Trace Display (i64: Record constant, variable, Trace; Tok: Trace through its public fields)
//!       (18 3 4 prec n (l...) (d...))             LDLTDecomposition<i64>::from_unchecked Display
//!       (18 3 5 prec rows cols (v...))            RecordMatrix<i64> / RecordTensor<i64, 2> Display -> (0 (tm tt))
//!       wave 2 (harness/src/c18/wave2.rs; grammar in Run/RunC18.v): kinds 1, 2 for every D <= 6;
//!       (18 3 6 form err)  error values as Display / {:?} / {:#?};  (18 3 7 form val)  derived Debug of plain data;
//!       (18 3 8 prec kind ..)  QR / LDLT-tensor / QR-tensor decompositions and MatrixQuadrants Display
//!     el: 0 = i64, 1 = Tok(i64) (Display prints "<v>p<k>" under precision k); prec: () = "{}", (k) = "{:.k}";
//!     every text is produced twice and through every listed form; all must agree (else (-8 code)).
use crate::guarded;
use crate::num::{Enc, Fp, Rat};
use crate::sx::*;
use crate::with_ty;
use easy_ml::differentiation::iterators::InvalidRecordIteratorError;
use easy_ml::differentiation::{Primitive, Record, RecordMatrix, RecordTensor, Trace, WengertList};
use easy_ml::distributions::{Gaussian, MultivariateGaussian};
use easy_ml::linear_algebra;
use easy_ml::matrices::views::Reverse;
use easy_ml::matrices::Matrix;
use easy_ml::numeric::extra::{Cos, Exp, Ln, Pow, Real, Sin, Sqrt};
use easy_ml::numeric::{Numeric, NumericRef};
use easy_ml::tensors::operations::Similar;
use easy_ml::tensors::views::{TensorStack, TensorView};
use easy_ml::tensors::Tensor;
use std::fmt::Debug;
use std::hint::black_box;

mod wave2;

pub fn run(args: &[Sx]) -> Sx {
    match args.first().and_then(|x| x.i64()) {
        Some(1) if args.len() == 4 => {
            let (Some(ty), Some(layout), Some(prog)) = (args[1].i64(), args[2].usize(), args[3].list()) else {
                return bad_case();
            };
            with_ty!(ty, machine(layout, prog))
        }
        Some(2) if args.len() == 6 => {
            let (Some(w), Some(seed), Some(pre), Some(thread), Some(allocseed)) =
                (args[1].usize(), args[2].usize(), args[3].usizes(), args[4].bool(), args[5].usize())
            else {
                return bad_case();
            };
            if w >= WORKLOADS.len() || pre.iter().any(|&p| p >= PRIOR_CALLS) {
                return bad_case();
            }
            digest_case(w, seed as u64, pre, thread, allocseed as u64)
        }
        Some(3) if args.len() >= 2 => format_case(&args[1..]).unwrap_or_else(bad_case),
        _ => bad_case(),
    }
}

// ------------------------------------------------------------------ (18 3 ..) formatted output vs Model/Format.v

/// exact element type whose Display shows the precision it was given
#[derive(Clone, Debug, PartialEq)]
struct Tok(i64);
impl Primitive for Tok {}
impl std::fmt::Display for Tok {
    fn fmt(&self, f: &mut std::fmt::Formatter) -> std::fmt::Result {
        match f.precision() {
            Some(p) => write!(f, "{}p{}", self.0, p),
            None => write!(f, "{}", self.0),
        }
    }
}

fn show<X: std::fmt::Display>(x: &X, prec: Option<usize>) -> String {
    let a = match prec {
        Some(p) => format!("{:.*}", p, x),
        None => format!("{}", x),
    };
    // a second rendering through another entry point of std::fmt
    let b = match prec {
        Some(p) => format!("{:.1$}", x, p),
        None => x.to_string(),
    };
    if a == b {
        a
    } else {
        format!("\u{1}DIFFERS\u{1}{}\u{1}{}", a, b)
    }
}

fn text_sx(s: &str) -> Sx {
    l(s.bytes().map(|b| z(b as u64)).collect())
}

/// all forms must give the same text
fn agree(forms: Vec<String>, code: i64) -> Result<String, Sx> {
    if forms.iter().any(|f| f != &forms[0] || f.starts_with('\u{1}')) {
        return Err(inconsistent(code));
    }
    Ok(forms.into_iter().next().unwrap())
}

fn dprec(s: &Sx) -> Option<Option<usize>> {
    match s.option()? {
        None => Some(None),
        Some(k) => Some(Some(k.usize()?)),
    }
}

fn fmt_matrix<T: Clone + std::fmt::Display>(rows: usize, cols: usize, data: Vec<T>, prec: Option<usize>) -> Sx {
    let m = Matrix::from_flat_row_major((rows, cols), data);
    let forms = vec![
        show(&m, prec),
        show(&easy_ml::matrices::views::MatrixView::from(&m), prec),
        show(&m.range(0..rows, 0..cols), prec),
        show(&easy_ml::matrices::views::MatrixView::from(m.clone()), prec),
    ];
    match agree(forms, 1830) {
        Ok(t) => ok(text_sx(&t)),
        Err(e) => e,
    }
}

fn fmt_tensor<const D: usize>(shape: &[(usize, usize)], data: Vec<impl Clone + std::fmt::Display>, prec: Option<usize>) -> Sx {
    let t = Tensor::from(shape_arr::<D>(shape), data);
    let forms = vec![show(&t, prec), show(&TensorView::from(&t), prec), show(&TensorView::from(t.clone()), prec)];
    match agree(forms, 1831) {
        Ok(t) => ok(text_sx(&t)),
        Err(e) => e,
    }
}

fn fmt_access<const D: usize>(shape: &[(usize, usize)], data: Vec<impl Clone + std::fmt::Display>, prec: Option<usize>, swap: bool) -> Sx {
    let t = Tensor::from(shape_arr::<D>(shape), data);
    let mut order: Vec<usize> = shape.iter().map(|p| p.0).collect();
    if swap && D == 2 {
        order.swap(0, 1);
    }
    let names = names_arr::<D>(&order);
    let forms = vec![
        show(&t.index_by(names), prec),
        show(&TensorView::from(&t).index_by(names), prec),
        show(&easy_ml::tensors::indexing::TensorAccess::from(&t, names), prec),
    ];
    match agree(forms, 1832) {
        Ok(t) => ok(text_sx(&t)),
        Err(e) => e,
    }
}

fn valid_shape(shape: &[(usize, usize)], len: usize) -> bool {
    shape.iter().all(|p| p.1 > 0)
        && shape.iter().enumerate().all(|(i, p)| shape[..i].iter().all(|q| q.0 != p.0))
        && shape.iter().map(|p| p.1).product::<usize>() == len
}

fn format_case(a: &[Sx]) -> Option<Sx> {
    let kind = a[0].i64()?;
    Some(match (kind, a.len()) {
        (0, 6) => {
            let (el, prec, rows, cols, data) = (a[1].i64()?, dprec(&a[2])?, a[3].usize()?, a[4].usize()?, a[5].i64s()?);
            if rows == 0 || cols == 0 || data.len() != rows * cols {
                return None;
            }
            match el {
                0 => fmt_matrix(rows, cols, data, prec),
                1 => fmt_matrix(rows, cols, data.into_iter().map(Tok).collect(), prec),
                _ => return None,
            }
        }
        (1, 5) => {
            let (el, prec, shape, data) = (a[1].i64()?, dprec(&a[2])?, a[3].pairs_usize()?, a[4].i64s()?);
            if shape.len() > 6 || !valid_shape(&shape, data.len()) {
                return None;
            }
            match el {
                0 => crate::with_d!(shape.len(), fmt_tensor(&shape, data, prec)),
                1 => {
                    let data: Vec<Tok> = data.into_iter().map(Tok).collect();
                    crate::with_d!(shape.len(), fmt_tensor(&shape, data, prec))
                }
                _ => return None,
            }
        }
        (2, 6) => {
            let (el, prec, shape, data, swap) = (a[1].i64()?, dprec(&a[2])?, a[3].pairs_usize()?, a[4].i64s()?, a[5].bool()?);
            if shape.len() > 6 || !valid_shape(&shape, data.len()) {
                return None;
            }
            match el {
                0 => crate::with_d!(shape.len(), fmt_access(&shape, data, prec, swap)),
                1 => {
                    let data: Vec<Tok> = data.into_iter().map(Tok).collect();
                    crate::with_d!(shape.len(), fmt_access(&shape, data, prec, swap))
                }
                _ => return None,
            }
        }
        (3, 4) => {
            let (el, prec, v) = (a[1].i64()?, dprec(&a[2])?, a[3].i64()?);
            let list = WengertList::new();
            let forms = match el {
                0 => vec![
                    show(&Record::constant(v), prec),
                    show(&Record::variable(v, &list), prec),
                    show(&Trace::constant(v), prec),
                    show(&Trace::variable(v), prec),
                ],
                1 => {
                    // Tok is Primitive but not Numeric: only a Trace can be built (through its public fields)
                    vec![show(&Trace { number: Tok(v), derivative: Tok(1) }, prec), show(&Trace { number: Tok(v), derivative: Tok(v ^ 5) }, prec)]
                }
                _ => return None,
            };
            match agree(forms, 1833) {
                Ok(t) => ok(text_sx(&t)),
                Err(e) => e,
            }
        }
        (4, 5) => {
            let (prec, n, lm, dm) = (dprec(&a[1])?, a[2].usize()?, a[3].i64s()?, a[4].i64s()?);
            if n == 0 || lm.len() != n * n || dm.len() != n * n {
                return None;
            }
            let d = linear_algebra::LDLTDecomposition::from_unchecked(
                Matrix::from_flat_row_major((n, n), lm),
                Matrix::from_flat_row_major((n, n), dm),
            );
            ok(text_sx(&show(&d, prec)))
        }
        (5, 5) => {
            let (prec, rows, cols, data) = (dprec(&a[1])?, a[2].usize()?, a[3].usize()?, a[4].i64s()?);
            if rows == 0 || cols == 0 || data.len() != rows * cols {
                return None;
            }
            let list = WengertList::new();
            let m = Matrix::from_flat_row_major((rows, cols), data.clone());
            let tm = match agree(vec![show(&RecordMatrix::constants(m.clone()), prec), show(&RecordMatrix::variables(&list, m), prec)], 1834) {
                Ok(t) => t,
                Err(e) => return Some(e),
            };
            let t = Tensor::from([(dim(0), rows), (dim(1), cols)], data);
            let tt = match agree(vec![show(&RecordTensor::constants(t.clone()), prec), show(&RecordTensor::variables(&list, t), prec)], 1835) {
                Ok(t) => t,
                Err(e) => return Some(e),
            };
            ok(l(vec![text_sx(&tm), text_sx(&tt)]))
        }
        (6, _) => return wave2::error_case(&a[1..]),
        (7, _) => return wave2::debug_case(&a[1..]),
        (8, _) => return wave2::decomposition_case(&a[1..]),
        _ => return None,
    })
}

// ------------------------------------------------------------------ (18 1 ..) the machine

enum Instr<T> {
    NewTape,
    Var(usize, T),
    Const(T),
    Add(usize, usize),
    Mul(usize, usize),
    Collect(Vec<usize>),
    Clear(usize),
    Deriv(usize),
}

fn decode<T: Enc>(prog: &[Sx]) -> Option<Vec<Instr<T>>> {
    prog.iter()
        .map(|i| {
            let v = i.list()?;
            Some(match (v.first()?.i64()?, v.len()) {
                (0, 1) => Instr::NewTape,
                (1, 3) => Instr::Var(v[1].usize()?, T::dec(&v[2])?),
                (2, 2) => Instr::Const(T::dec(&v[1])?),
                (3, 3) => Instr::Add(v[1].usize()?, v[2].usize()?),
                (4, 3) => Instr::Mul(v[1].usize()?, v[2].usize()?),
                (5, 2) => Instr::Collect(v[1].usizes()?),
                (6, 2) => Instr::Clear(v[1].usize()?),
                (7, 2) => Instr::Deriv(v[1].usize()?),
                _ => return None,
            })
        })
        .collect()
}

fn machine<T>(layout: usize, prog: &[Sx]) -> Sx
where
    T: Enc + Numeric + Primitive + Debug,
    for<'t> &'t T: NumericRef<T>,
{
    let Some(prog) = decode::<T>(prog) else { return bad_case() };
    let n = prog.iter().filter(|i| matches!(i, Instr::NewTape)).count();
    if n > 8 {
        return bad_case();
    }
    // where the tapes live: four different address assignments
    match layout {
        0 => {
            // one Box each, allocated in tape order
            let boxes: Vec<Box<WengertList<T>>> = (0..n).map(|_| Box::new(WengertList::new())).collect();
            let refs: Vec<&WengertList<T>> = boxes.iter().map(|b| &**b).collect();
            exec::<T>(&prog, &refs)
        }
        1 => {
            // one Box each, allocated in REVERSE tape order with unrelated allocations in between
            let mut junk: Vec<Vec<u8>> = vec![];
            let mut boxes: Vec<Box<WengertList<T>>> = vec![];
            for k in 0..n {
                junk.push(vec![k as u8; 24 + 40 * k]);
                boxes.push(Box::new(WengertList::new()));
            }
            black_box(&junk);
            let refs: Vec<&WengertList<T>> = boxes.iter().rev().map(|b| &**b).collect();
            exec::<T>(&prog, &refs)
        }
        2 => {
            // contiguous in one Vec (adjacent addresses)
            let tapes: Vec<WengertList<T>> = (0..n).map(|_| WengertList::new()).collect();
            let refs: Vec<&WengertList<T>> = tapes.iter().collect();
            exec::<T>(&prog, &refs)
        }
        3 => {
            // on the stack, tape t in slot (5 t + 3) mod 8
            let slots: [WengertList<T>; 8] = std::array::from_fn(|_| WengertList::new());
            let refs: Vec<&WengertList<T>> = (0..n).map(|t| &slots[(5 * t + 3) % 8]).collect();
            exec::<T>(&prog, &refs)
        }
        _ => bad_case(),
    }
}

fn tape_id<T>(tapes: &[&WengertList<T>], h: Option<&WengertList<T>>) -> Option<Sx> {
    match h {
        None => Some(nil()),
        // the harness' own use of addresses: naming the tape an API result refers to
        Some(p) => tapes.iter().position(|t| std::ptr::eq(*t, p)).map(|k| l(vec![z(k)])),
    }
}

fn exec<'a, T>(prog: &[Instr<T>], tapes: &[&'a WengertList<T>]) -> Sx
where
    T: Enc + Numeric + Primitive + Debug,
    for<'t> &'t T: NumericRef<T>,
{
    let mut live = 0usize;
    let mut regs: Vec<Record<'a, T>> = vec![];
    let mut events: Vec<Sx> = vec![];
    let rec_event = |r: &Record<'a, T>| -> Option<Sx> {
        Some(l(vec![z(0), tape_id(tapes, r.history())?, z(r.index), r.number.enc()]))
    };
    for i in prog {
        match i {
            Instr::NewTape => {
                live += 1;
                events.push(l(vec![z(0)]));
            }
            Instr::Var(t, v) => {
                if *t >= live {
                    return bad_case();
                }
                // both public constructors must agree
                let r = if regs.len() % 2 == 0 { Record::variable(v.clone(), tapes[*t]) } else { tapes[*t].variable(v.clone()) };
                let Some(e) = rec_event(&r) else { return inconsistent(181) };
                events.push(e);
                regs.push(r);
            }
            Instr::Const(v) => {
                let r = Record::constant(v.clone());
                let Some(e) = rec_event(&r) else { return inconsistent(182) };
                events.push(e);
                regs.push(r);
            }
            Instr::Add(a, b) | Instr::Mul(a, b) => {
                if *a >= regs.len() || *b >= regs.len() {
                    return bad_case();
                }
                let (x, y) = (regs[*a].clone(), regs[*b].clone());
                let add = matches!(i, Instr::Add(..));
                match guarded(|| if add { &x + &y } else { &x * &y }) {
                    None => events.push(panicked()),
                    Some(r) => {
                        let Some(e) = rec_event(&r) else { return inconsistent(183) };
                        events.push(e);
                        regs.push(r);
                    }
                }
            }
            Instr::Collect(rs) => {
                if rs.iter().any(|&k| k >= regs.len()) {
                    return bad_case();
                }
                let items: Vec<Record<'a, T>> = rs.iter().map(|&k| regs[k].clone()).collect();
                let len = items.len();
                match guarded(|| RecordTensor::<T, _, 1>::from_iter([("x", len)], items)) {
                    None => events.push(panicked()),
                    Some(Ok(rt)) => {
                        let Some(h) = tape_id(tapes, rt.history()) else { return inconsistent(184) };
                        let ns: Vec<Sx> = rt.view().iter().map(|(v, k)| l(vec![v.enc(), z(k)])).collect();
                        events.push(l(vec![z(3), h, l(ns)]));
                    }
                    Some(Err(InvalidRecordIteratorError::InconsistentHistory(ih))) => {
                        let (Some(f), Some(la)) = (tape_id(tapes, ih.first), tape_id(tapes, ih.later)) else {
                            return inconsistent(185);
                        };
                        events.push(l(vec![z(4), f, la]));
                    }
                    Some(Err(InvalidRecordIteratorError::Empty)) => events.push(l(vec![z(5)])),
                    Some(Err(_)) => return inconsistent(186),
                }
            }
            Instr::Clear(t) => {
                if *t >= live {
                    return bad_case();
                }
                tapes[*t].clear();
                events.push(l(vec![z(0)]));
            }
            Instr::Deriv(a) => {
                if *a >= regs.len() {
                    return bad_case();
                }
                let x = regs[*a].clone();
                match guarded(|| x.derivatives()) {
                    None => events.push(panicked()),
                    Some(d) => {
                        let v: Vec<T> = d.into();
                        events.push(l(vec![z(6), l(v.iter().map(|x| x.enc()).collect())]));
                    }
                }
            }
        }
    }
    l(vec![z(0), l(events)])
}

// ------------------------------------------------------------------ (18 2 ..) digests

/// FNV-1a, 64 bit, fixed offset basis and prime: no per-process state.
struct H {
    h: u64,
    n: u64,
}
impl H {
    fn new() -> H {
        H { h: 0xcbf29ce484222325, n: 0 }
    }
    fn bytes(&mut self, b: &[u8]) {
        for &x in b {
            self.h ^= x as u64;
            self.h = self.h.wrapping_mul(0x100000001b3);
        }
        self.n += 1;
    }
    fn u(&mut self, x: usize) {
        self.bytes(&(x as u64).to_le_bytes());
    }
    fn f(&mut self, x: f64) {
        self.bytes(&x.to_bits().to_le_bytes());
    }
    fn s(&mut self, s: &str) {
        self.bytes(s.as_bytes());
        self.bytes(&[0xff]);
    }
    fn dbg<X: Debug>(&mut self, x: &X) {
        self.s(&format!("{:?}", x));
    }
    fn disp<X: std::fmt::Display>(&mut self, x: &X) {
        self.s(&format!("{}", x));
    }
    fn shape<const D: usize>(&mut self, s: [(&'static str, usize); D]) {
        for (n, l) in s {
            self.s(n);
            self.u(l);
        }
    }
    fn fs<I: IntoIterator<Item = f64>>(&mut self, it: I) {
        for x in it {
            self.f(x);
        }
    }
}

/// caller-supplied pseudo randomness (the crate has none of its own): splitmix64
#[derive(Clone)]
struct Rng(u64);
impl Rng {
    fn next(&mut self) -> u64 {
        self.0 = self.0.wrapping_add(0x9e3779b97f4a7c15);
        let mut z = self.0;
        z = (z ^ (z >> 30)).wrapping_mul(0xbf58476d1ce4e5b9);
        z = (z ^ (z >> 27)).wrapping_mul(0x94d049bb133111eb);
        z ^ (z >> 31)
    }
    /// uniform in [0, 1)
    fn unit(&mut self) -> f64 {
        (self.next() >> 11) as f64 / (1u64 << 53) as f64
    }
    fn val(&mut self) -> f64 {
        self.unit() * 4.0 - 2.0
    }
    fn small(&mut self) -> i64 {
        (self.next() % 9) as i64 - 4
    }
    fn vals(&mut self, n: usize) -> Vec<f64> {
        (0..n).map(|_| self.val()).collect()
    }
}
impl Iterator for Rng {
    type Item = f64;
    fn next(&mut self) -> Option<f64> {
        Some(self.unit())
    }
}

type Workload = fn(&mut Rng, &mut H);
const WORKLOADS: &[Workload] = &[
    w_tensor_basic,
    w_tensor_views,
    w_tensor_algebra,
    w_matrix_basic,
    w_matrix_resize,
    w_linalg_f64,
    w_linalg_exact,
    w_records_f64,
    w_records_exact,
    w_record_containers,
    w_traces,
    w_distributions,
    w_errors_and_text,
    w_statistics,
    w_format_tensors,
    w_format_matrices,
    w_format_records,
    w_format_errors,
    w_panic_messages,
    w_after_caught_panics,
];
const PRIOR_CALLS: usize = 13;

/// the panic MESSAGE of a failing call (None when it does not panic): error text naming shapes,
/// dimensions and indexes is an "error value / formatted output" of the call
fn panic_msg<X>(f: impl FnOnce() -> X) -> Option<String> {
    match std::panic::catch_unwind(std::panic::AssertUnwindSafe(f)) {
        Ok(_) => None,
        Err(p) => Some(if let Some(s) = p.downcast_ref::<String>() {
            s.clone()
        } else if let Some(s) = p.downcast_ref::<&str>() {
            s.to_string()
        } else {
            "<non-string payload>".to_string()
        }),
    }
}

/// a square matrix of records in which the element at `at` lives on ANOTHER tape: the determinant's
/// element arithmetic panics part way through the permutations; the caller catches the panic
fn cross_tape_determinant(n: usize, at: (usize, usize), salt: u64) -> Option<String> {
    let mut r = Rng(salt ^ 0x5151);
    let (a, b) = (WengertList::new(), WengertList::new());
    let m = Matrix::from_fn((n, n), |(i, j)| if (i, j) == at { Record::variable(r.val(), &b) } else { Record::variable(r.val(), &a) });
    panic_msg(|| linear_algebra::determinant::<Record<f64>>(&m).map(|d| d.number))
}

/// unrelated library calls whose results are thrown away
fn prior_call(id: usize, salt: u64) {
    let mut r = Rng(salt ^ 0xabcdef);
    match id {
        0 => {
            let list = WengertList::new();
            let x = Record::variable(r.val(), &list);
            let y = (x * x + x).sin();
            black_box(y.derivatives()[&x]);
        }
        1 => {
            let t = Tensor::from_fn([("p", 3), ("q", 4)], |[i, j]| (i * 4 + j) as f64);
            black_box(t.transpose(["q", "p"]).iter().sum::<f64>());
        }
        2 => {
            let m = Matrix::from_fn((4, 4), |(i, j)| if i == j { 2.0 } else { 0.1 * (i + j) as f64 });
            black_box(linear_algebra::inverse::<f64>(&m));
        }
        3 => {
            let list = WengertList::new();
            let x = RecordTensor::variables(&list, Tensor::from([("x", 5)], r.vals(5)));
            let y = x.unary(|v| v * v, |v| 2.0 * v);
            black_box(y.derivatives());
            list.clear();
        }
        4 => {
            let g = Gaussian::new(0.5, 2.0);
            let mut src = Rng(salt);
            black_box(g.draw(&mut src, 7));
        }
        5 => {
            let t = Tensor::from([("a", 2), ("b", 3)], r.vals(6));
            black_box(format!("{} {:?}", t, Tensor::<f64, 2>::try_from([("a", 2), ("a", 3)], vec![0.0; 6]).err()));
        }
        6 => {
            let m = Matrix::from_fn((3, 3), |(i, j)| Rat::int((i * 3 + j) as i64 + if i == j { 5 } else { 0 }));
            black_box(linear_algebra::determinant::<Rat>(&m));
        }
        7 => {
            let x = Trace::variable(r.val());
            black_box((x * x).exp().derivative);
            let big: Vec<Vec<f64>> = (0..9).map(|k| vec![k as f64; 17 * k + 1]).collect();
            black_box(big);
        }
        // ---- unrelated calls that FAIL and whose panic the caller catches
        8 => {
            black_box(cross_tape_determinant(2, (0, 1), salt));
        }
        9 => {
            let at = [(0, 1), (1, 0), (2, 1), (1, 2), (0, 2)][(salt % 5) as usize];
            black_box(cross_tape_determinant(3, at, salt));
        }
        10 => {
            let at = ((salt % 4) as usize, ((salt / 4) % 4) as usize);
            black_box(cross_tape_determinant(4, at, salt));
        }
        11 => {
            let t = Tensor::from([("a", 2), ("b", 3)], r.vals(6));
            black_box(panic_msg(|| t.reverse(&["x", "y", "z"]).shape()));
            black_box(panic_msg(|| t.index_by(["q", "a"]).shape()));
            black_box(panic_msg(|| (&t + &t.transpose(["b", "a"])).shape()));
            black_box(panic_msg(|| Matrix::from(vec![vec![1.0, 2.0], vec![3.0]])));
        }
        _ => {
            // a record computation that panics in the middle (cross-tape), then an inverse of exact numbers
            let (a, b) = (WengertList::new(), WengertList::new());
            let (x, y) = (Record::variable(r.val(), &a), Record::variable(r.val(), &b));
            black_box(panic_msg(|| (x * x + y).number));
            let n = 2 + (salt % 3) as usize;
            let m = Matrix::from_fn((n, n), |(i, j)| if (i, j) == (0, n - 1) { y } else { x });
            black_box(panic_msg(|| linear_algebra::inverse::<Record<f64>>(&m).map(|d| d.size())));
        }
    }
}

fn perturb_heap(seed: u64) -> Vec<Vec<u8>> {
    // random-size allocations, a random half of them freed again, the rest kept alive while the workload runs
    let mut r = Rng(seed);
    let mut keep = vec![];
    let mut drop_later = vec![];
    for _ in 0..(20 + r.next() % 60) {
        let size = match r.next() % 4 {
            0 => r.next() % 64,
            1 => r.next() % 1024,
            2 => r.next() % 65536,
            _ => r.next() % 300000,
        } as usize;
        let v = vec![(size % 251) as u8; size];
        if r.next() % 2 == 0 {
            keep.push(v);
        } else {
            drop_later.push(v);
        }
    }
    drop(drop_later);
    keep
}

fn digest_once(w: usize, seed: u64, pre: &[usize]) -> (u64, u64) {
    for (k, &p) in pre.iter().enumerate() {
        prior_call(p, seed.wrapping_add(k as u64));
    }
    let mut h = H::new();
    let mut rng = Rng(seed);
    WORKLOADS[w](&mut rng, &mut h);
    (h.h, h.n)
}

fn digest_case(w: usize, seed: u64, pre: Vec<usize>, thread: bool, allocseed: u64) -> Sx {
    let keep = if allocseed != 0 { perturb_heap(allocseed) } else { vec![] };
    let r = if thread {
        // the harness' own use of std::thread: configuration 3 of the replay
        let pre2 = pre.clone();
        match std::thread::Builder::new().stack_size(16 << 20).spawn(move || guarded(|| digest_once(w, seed, &pre2))).map(|h| h.join()) {
            Ok(Ok(x)) => x,
            _ => None,
        }
    } else {
        guarded(|| digest_once(w, seed, &pre))
    };
    black_box(&keep);
    match r {
        Some((d, n)) => ok(l(vec![z(d), z(n)])),
        None => panicked(),
    }
}

// ---- workloads

fn w_tensor_basic(r: &mut Rng, h: &mut H) {
    let (a, b, c) = (1 + (r.next() % 3) as usize, 1 + (r.next() % 4) as usize, 1 + (r.next() % 3) as usize);
    let data = r.vals(a * b * c);
    let t = Tensor::from([("a", a), ("b", b), ("c", c)], data);
    // a stateful producer: the order in which from_fn calls it is observable
    let produced = Tensor::from_fn([("p", b), ("q", c)], |_| r.val());
    h.fs(produced.iter());
    h.shape(t.shape());
    h.fs(t.iter());
    for (i, x) in t.iter().with_index() {
        h.u(i[0] * 100 + i[1] * 10 + i[2]);
        h.f(x);
    }
    let acc = t.index_by(["c", "a", "b"]);
    h.shape(acc.shape());
    h.fs(acc.iter());
    h.f(acc.get([c - 1, a - 1, b - 1]));
    let tr = t.transpose(["b", "c", "a"]);
    h.shape(tr.shape());
    h.fs(tr.iter());
    let ro = t.reorder(["c", "b", "a"]);
    h.shape(ro.shape());
    h.fs(ro.iter());
    let m = t.map(|x| x * 1.5 - 0.25);
    h.fs((&t + &m).iter());
    h.fs((&t - &m).iter());
    h.fs(t.elementwise(&m, |x, y| x * y + 1.0).iter());
    h.disp(&t);
    h.dbg(&t);
    h.u(t.similar(&t) as usize);
    let mut t2 = t.clone();
    for x in t2.iter_reference_mut() {
        *x = x.sqrt().max(0.0) + 1.0 / 3.0;
    }
    h.fs(t2.iter_reference().cloned());
    h.fs(t2.iter_owned());
}

fn w_tensor_views(r: &mut Rng, h: &mut H) {
    let t = Tensor::from([("r", 4), ("c", 5)], r.vals(20));
    let v = t.range([("r", 1..3), ("c", 0..4)]).unwrap();
    h.shape(v.shape());
    h.fs(v.iter());
    let m = t.mask([("c", 1..3)]).unwrap();
    h.shape(m.shape());
    h.fs(m.iter());
    let rv = t.reverse(&["r"]);
    h.fs(rv.iter());
    let s = t.select([("r", 2)]);
    h.shape(s.shape());
    h.fs(s.iter());
    let e = t.expand([(1, "x")]);
    h.shape(e.shape());
    h.fs(e.iter());
    let rn = t.rename_view(["p", "q"]);
    h.shape(rn.shape());
    let st = TensorView::from(TensorStack::<f64, (_, _), 2>::from((&t, &t), (0, "s")));
    h.shape(st.shape());
    h.fs(st.iter());
    let composed = v.reverse(&["c"]);
    h.fs(composed.iter());
    h.disp(&v);
    h.dbg(&t.range([("z", 0..1)]).err());
    h.dbg(&t.range([("r", 0..1), ("r", 0..1)]).err());
    for (i, x) in v.iter().with_index() {
        h.u(i[0] * 10 + i[1]);
        h.f(x);
    }
}

fn w_tensor_algebra(r: &mut Rng, h: &mut H) {
    let a = Tensor::from([("i", 3), ("k", 4)], r.vals(12));
    let b = Tensor::from([("k", 4), ("j", 2)], r.vals(8));
    let p = &a * &b;
    h.shape(p.shape());
    h.fs(p.iter());
    let v1 = Tensor::from([("k", 4)], r.vals(4));
    let v2 = Tensor::from([("k", 4)], r.vals(4));
    h.f(v1.scalar_product(&v2));
    h.f(v1.euclidean_length());
    let sq = Tensor::from([("x", 3), ("y", 3)], r.vals(9));
    h.dbg(&sq.determinant().map(f64::to_bits));
    if let Some(inv) = sq.inverse() {
        h.fs(inv.iter());
    }
    h.fs(a.covariance("i").iter());
    h.dbg(&guarded(|| &a * &a).map(|t| t.shape()));
    h.dbg(&guarded(|| &a + &b).map(|t| t.shape()));
}

fn w_matrix_basic(r: &mut Rng, h: &mut H) {
    let (rows, cols) = (2 + (r.next() % 3) as usize, 2 + (r.next() % 3) as usize);
    let m = Matrix::from_fn((rows, cols), |_| r.val());
    h.u(m.rows());
    h.u(m.columns());
    h.fs(m.row_major_iter());
    h.fs(m.column_major_iter());
    h.fs(m.row_iter(rows - 1));
    h.fs(m.column_iter(cols - 1));
    h.fs(m.diagonal_iter());
    for ((i, j), x) in m.row_major_iter().with_index() {
        h.u(i * 10 + j);
        h.f(x);
    }
    let t = m.transpose();
    h.fs(t.row_major_iter());
    let p = &m * &t;
    h.fs(p.row_major_iter());
    h.fs((&m + &m).row_major_iter());
    h.fs((m.clone() * 0.3).row_major_iter());
    h.disp(&m);
    h.dbg(&m);
    let rg = m.range(0..1, 1..cols);
    h.fs(rg.row_major_iter());
    let rv = m.reverse(Reverse { rows: true, columns: false });
    h.fs(rv.row_major_iter());
    h.fs(m.map(|x| x.abs().ln_1p()).row_major_iter());
    h.dbg(&guarded(|| &m * &m).map(|x| x.size()));
}

fn w_matrix_resize(r: &mut Rng, h: &mut H) {
    let mut m = Matrix::from_fn((3, 3), |_| r.val());
    m.insert_row(1, 0.5);
    m.insert_column(0, -0.5);
    h.fs(m.row_major_iter());
    m.remove_row(3);
    m.remove_column(2);
    h.fs(m.column_major_iter());
    m.insert_row_with(0, [1.0, 2.0, 3.0].into_iter());
    h.fs(m.row_major_iter());
    m.retain_mut(easy_ml::matrices::slices::Slice2D::new().rows(easy_ml::matrices::slices::Slice::Range(0..2)).columns(easy_ml::matrices::slices::Slice::All()));
    h.u(m.rows());
    h.u(m.columns());
    h.fs(m.row_major_iter());
    m.transpose_mut();
    h.fs(m.row_major_iter());
    {
        let q = m.partition_quadrants(1, 1);
        h.fs(q.top_left.row_major_iter());
        h.fs(q.bottom_right.row_major_iter());
        h.disp(&q);
    }
    for x in m.row_major_reference_mut_iter() {
        *x *= 2.0;
    }
    h.fs(m.row_major_owned_iter());
}

fn spd(r: &mut Rng, n: usize) -> Matrix<f64> {
    let a = Matrix::from_fn((n, n), |_| r.val());
    let mut p = &a * a.transpose();
    for i in 0..n {
        p.set(i, i, p.get(i, i) + n as f64);
    }
    p
}

fn w_linalg_f64(r: &mut Rng, h: &mut H) {
    let n = 2 + (r.next() % 4) as usize;
    let m = spd(r, n);
    h.dbg(&linear_algebra::determinant::<f64>(&m).map(f64::to_bits));
    if let Some(i) = linear_algebra::inverse::<f64>(&m) {
        h.fs(i.row_major_iter());
    }
    if let Some(c) = linear_algebra::cholesky_decomposition::<f64>(&m) {
        h.fs(c.row_major_iter());
    }
    if let Some(d) = linear_algebra::ldlt_decomposition::<f64>(&m) {
        h.fs(d.l.row_major_iter());
        h.fs(d.d.row_major_iter());
        h.disp(&d);
    }
    let rect = Matrix::from_fn((n + 1, n), |_| r.val());
    if let Some(q) = linear_algebra::qr_decomposition::<f64>(&rect) {
        h.fs(q.q.row_major_iter());
        h.fs(q.r.row_major_iter());
    }
    h.fs(linear_algebra::covariance_column_features::<f64>(&rect).row_major_iter());
    h.fs(linear_algebra::covariance_row_features::<f64>(&rect).row_major_iter());
    let t = m.clone().into_tensor("r", "c").unwrap();
    h.dbg(&linear_algebra::determinant_tensor::<f64, _, _>(&t).map(f64::to_bits));
    if let Some(c) = linear_algebra::cholesky_decomposition_tensor::<f64, _, _>(&t) {
        h.fs(c.iter());
    }
    if let Some(q) = linear_algebra::qr_decomposition_tensor::<f64, _, _>(&t) {
        h.fs(q.q.iter());
        h.fs(q.r.iter());
    }
    let singular = Matrix::from(vec![vec![1.0, 2.0], vec![2.0, 4.0]]);
    h.dbg(&linear_algebra::inverse::<f64>(&singular).map(|m| m.size()));
    h.dbg(&linear_algebra::cholesky_decomposition::<f64>(&Matrix::from(vec![vec![-1.0]])).map(|m| m.size()));
}

fn w_linalg_exact(r: &mut Rng, h: &mut H) {
    let n = 2 + (r.next() % 3) as usize;
    let mut entries: Vec<i64> = (0..n * n).map(|_| r.small()).collect();
    for i in 0..n {
        entries[i * n + i] += 9;
    }
    let m = Matrix::from_fn((n, n), |(i, j)| Rat::int(entries[i * n + j]));
    h.dbg(&linear_algebra::determinant::<Rat>(&m));
    h.dbg(&linear_algebra::inverse::<Rat>(&m));
    h.dbg(&linear_algebra::ldlt_decomposition::<Rat>(&m).map(|d| (d.l, d.d)));
    let f = Matrix::from_fn((n, n), |(i, j)| Fp::new(entries[i * n + j] as i128));
    h.dbg(&linear_algebra::determinant::<Fp>(&f));
    h.dbg(&linear_algebra::inverse::<Fp>(&f));
    h.dbg(&linear_algebra::cholesky_decomposition::<Fp>(&f));
    h.dbg(&linear_algebra::qr_decomposition::<Fp>(&f).map(|d| (d.q, d.r)));
    h.dbg(&linear_algebra::mean::<_, Rat>(entries.iter().map(|&x| Rat::int(x))));
    h.dbg(&linear_algebra::variance::<_, Rat>(entries.iter().map(|&x| Rat::int(x))));
    h.dbg(&linear_algebra::softmax::<_, Fp>(entries.iter().take(4).map(|&x| Fp::new(x as i128))));
    let t = Tensor::from_fn([("r", n), ("c", n)], |[i, j]| Rat::int(entries[i * n + j]));
    h.dbg(&t.determinant());
    h.dbg(&(&t * &t));
}

fn w_records_f64(r: &mut Rng, h: &mut H) {
    let list = WengertList::new();
    let xs: Vec<Record<f64>> = (0..4).map(|_| Record::variable(r.val(), &list)).collect();
    for x in &xs {
        h.u(x.index);
    }
    let c = Record::constant(1.25);
    let y = ((xs[0] * xs[1] + xs[2].sin()) / (xs[3].exp() + c) - xs[0].cos() * 2.0).pow(Record::constant(2.0));
    let z2 = (y + xs[1] * 3.0).ln().sqrt() + xs[2].unary(|v| v * v * v, |v| 3.0 * v * v);
    h.f(y.number);
    h.u(y.index);
    h.f(z2.number);
    h.u(z2.index);
    let d = y.derivatives();
    for x in &xs {
        h.f(d[x]);
    }
    let dz: Vec<f64> = z2.derivatives().into();
    h.u(dz.len());
    h.fs(dz);
    h.disp(&y);
    h.dbg(&guarded(|| c.derivatives()).is_some());
    // a second tape, then cross-tape misuse, then clear and reuse
    let other = WengertList::new();
    let o = Record::variable(r.val(), &other);
    h.u(o.index);
    h.dbg(&guarded(|| o + xs[0]).map(|v| v.number.to_bits()));
    list.clear();
    let again = Record::variable(r.val(), &list);
    h.u(again.index);
    let w = again * again;
    h.u(w.index);
    h.f(w.derivatives()[&again]);
}

fn w_records_exact(r: &mut Rng, h: &mut H) {
    fn go<T>(vals: &[i64], h: &mut H)
    where
        T: Enc + Real + Primitive + Debug,
        for<'t> &'t T: easy_ml::numeric::extra::RealRef<T>,
    {
        let list = WengertList::new();
        let xs: Vec<Record<T>> = vals.iter().map(|&v| Record::variable(T::small(v), &list)).collect();
        let y = (&xs[0] * &xs[1] + (&xs[2]).sin()) / ((&xs[1]).exp() + Record::constant(T::small(3)));
        let y = &y - &(&xs[0]).cos() * &xs[2];
        h.dbg(&y.number);
        h.u(y.index);
        let d: Vec<T> = y.derivatives().into();
        h.dbg(&d);
    }
    let vals: Vec<i64> = (0..3).map(|_| r.small()).collect();
    go::<Rat>(&vals, h);
    go::<Fp>(&vals, h);
}

fn w_record_containers(r: &mut Rng, h: &mut H) {
    let list = WengertList::new();
    let x = RecordTensor::variables(&list, Tensor::from([("r", 2), ("c", 3)], r.vals(6)));
    let w = RecordTensor::variables(&list, Tensor::from([("c", 3), ("o", 2)], r.vals(6)));
    let k = RecordTensor::constants(Tensor::from([("r", 2), ("c", 3)], r.vals(6)));
    for (v, i) in x.view().iter() {
        h.f(v);
        h.u(i);
    }
    let s = &x + &k;
    let p = &s * &w;
    let q = p.unary(|v| v.tanh(), |v| 1.0 - v.tanh() * v.tanh());
    for (v, i) in q.view().iter() {
        h.f(v);
        h.u(i);
    }
    let recs: Vec<Record<f64>> = q.iter_as_records().collect();
    let total = recs.iter().fold(Record::constant(0.0), |a, b| a + *b);
    h.f(total.number);
    h.u(total.index);
    let d = total.derivatives();
    h.fs(d.at_tensor(&x).iter());
    h.fs(d.at_tensor(&w).iter());
    if let Some(all) = q.derivatives() {
        for dd in all.iter() {
            h.fs(dd.at_tensor(&x).iter());
        }
    }
    h.disp(&q);
    let m = RecordMatrix::variables(&list, Matrix::from_fn((2, 2), |_| r.val()));
    let mm = &m * &m;
    for (v, i) in mm.view().row_major_iter() {
        h.f(v);
        h.u(i);
    }
    let first = mm.get_as_record(0, 0);
    h.fs(first.derivatives().at_matrix(&m).row_major_iter());
    let other = WengertList::new();
    let o = RecordTensor::variables(&other, Tensor::from([("r", 2), ("c", 3)], r.vals(6)));
    h.dbg(&guarded(|| &x + &o).map(|t| t.shape()));
    let mixed: Vec<Record<f64>> = x.iter_as_records().chain(o.iter_as_records()).collect();
    match RecordTensor::<f64, _, 1>::from_iter([("x", 12)], mixed) {
        Ok(t) => h.shape(t.shape()),
        Err(e) => h.s(&format!("{}", e).replace(|c: char| c.is_ascii_hexdigit() && false, "")),
    }
}

fn w_traces(r: &mut Rng, h: &mut H) {
    let x = Trace::variable(r.val());
    let c = Trace::constant(r.val());
    let y = ((x * x + c).sin() / (x.exp() + 2.0) - x.cos()).pow(Trace::constant(2.0));
    h.f(y.number);
    h.f(y.derivative);
    let z2 = (y * y + 1.0).ln().sqrt() + x.unary(|v| v * v, |v| 2.0 * v);
    h.f(z2.number);
    h.f(z2.derivative);
    h.disp(&z2);
    h.dbg(&z2);
    let t = Tensor::from([("x", 4)], r.vals(4)).map(Trace::variable);
    let sum: Trace<f64> = t.iter().map(|v| v * v).sum();
    h.f(sum.number);
    h.f(sum.derivative);
    let e = Trace::variable(Fp::new(r.small() as i128));
    let ye = (e * e + e.sin()) * e.exp();
    h.dbg(&ye.number);
    h.dbg(&ye.derivative);
}

fn w_distributions(r: &mut Rng, h: &mut H) {
    let g = Gaussian::new(r.val(), 0.5 + r.unit());
    h.f(g.probability(&r.val()));
    let mut src = Rng(r.next());
    h.dbg(&g.draw(&mut src, 9).map(|v| v.into_iter().map(f64::to_bits).collect::<Vec<_>>()));
    let mut short = vec![0.25, 0.75, 0.5].into_iter();
    h.dbg(&g.draw(&mut short, 9).map(|v| v.len()));
    let data = r.vals(11);
    let a = Gaussian::approximating(data.iter().cloned());
    h.f(a.mean);
    h.f(a.variance);
    let cov = spd(r, 3) * 0.1;
    let mean = Matrix::column(r.vals(3));
    let mg = MultivariateGaussian::new(mean, cov);
    let mut src2 = Rng(r.next());
    h.dbg(&mg.draw(&mut src2, 5).map(|m| m.row_major_iter().map(f64::to_bits).collect::<Vec<_>>()));
    let ge = Gaussian::new(Fp::new(5), Fp::new(7));
    h.dbg(&ge.probability(&Fp::new(3)));
    let mut fsrc = (1..40).map(|k| Fp::new(k * 1234567));
    h.dbg(&ge.draw(&mut fsrc, 6));
}

fn w_errors_and_text(r: &mut Rng, h: &mut H) {
    let k = (r.next() % 4) as usize;
    let bad = Tensor::<f64, 2>::try_from([("a", 2), ("a", 3 + k)], vec![0.0; 6 + 2 * k]);
    match &bad {
        Ok(_) => h.u(0),
        Err(e) => {
            h.disp(e);
            h.dbg(e);
        }
    }
    h.dbg(&Tensor::<f64, 2>::try_from([("a", 0), ("b", k)], vec![]).err());
    h.dbg(&Tensor::<f64, 1>::try_from([("a", 3)], vec![1.0; 2 + k]).err());
    let t = Tensor::from([("a", 2), ("b", 3)], r.vals(6));
    h.dbg(&easy_ml::tensors::indexing::TensorAccess::try_from(&t, ["b", "b"]).err());
    h.dbg(&easy_ml::tensors::indexing::TensorAccess::try_from(&t, ["b", "z"]).map(|a| a.shape()));
    h.dbg(&t.range([("a", 5..9)]).map(|v| v.shape()));
    h.dbg(&t.mask([("b", 0..3)]).map(|v| v.shape()));
    let m = Matrix::from_fn((2, 2), |_| r.val());
    h.dbg(&m.try_into_scalar().err().map(|e| format!("{} {:?}", e, e)));
    let e1 = guarded(|| Matrix::from(vec![vec![1.0, 2.0], vec![3.0]]));
    h.u(e1.is_some() as usize);
    h.dbg(&guarded(|| t.index_by(["a", "q"]).shape()));
    h.disp(&t.index_by(["b", "a"]));
    h.disp(&t.transpose_view(["b", "a"]));
    h.dbg(&MultivariateGaussian::new(Matrix::column(vec![1.0, 2.0]), Matrix::from_fn((2, 2), |(i, j)| (i == j) as u8 as f64)).mean().size());
    let list = WengertList::<f64>::new();
    h.disp(&InvalidRecordIteratorError::<f64, 1>::Empty);
    h.dbg(&RecordTensor::<f64, _, 1>::from_iter([("x", 0)], Vec::<Record<f64>>::new()).err().map(|e| format!("{}", e)));
    h.dbg(&RecordTensor::<f64, _, 1>::from_iter([("x", 3)], vec![Record::variable(1.0, &list)]).err().map(|e| format!("{}", e)));
}

fn w_statistics(r: &mut Rng, h: &mut H) {
    let n = 3 + (r.next() % 20) as usize;
    let data = r.vals(n);
    h.f(linear_algebra::mean::<_, f64>(data.iter().cloned()));
    h.f(linear_algebra::variance::<_, f64>(data.iter().cloned()));
    h.fs(linear_algebra::softmax::<_, f64>(data.iter().cloned()));
    h.f(linear_algebra::f1_score::<f64>(r.unit(), r.unit()));
    h.dbg(&guarded(|| linear_algebra::mean::<_, f64>(Vec::<f64>::new().into_iter())).map(f64::to_bits));
    let big: f64 = data.iter().map(|x| x * 1e15).sum::<f64>() + data.iter().cloned().sum::<f64>();
    h.f(big);
    let m = Matrix::from_fn((n, 2), |(i, j)| data[i] * (j + 1) as f64 + (i % 3) as f64);
    h.fs(linear_algebra::covariance_column_features::<f64>(&m).row_major_iter());
    let t = Tensor::from_fn([("s", n), ("f", 2)], |[i, j]| data[i] - j as f64);
    h.fs(t.covariance("f").iter());
    h.fs(linear_algebra::covariance::<f64, _, _>(&t, "s").iter().take(9));
}

// ---- formatted output: every Display / Debug of the crate, every format form

fn all_forms<X: std::fmt::Display + Debug>(h: &mut H, x: &X) {
    h.s(&format!("{}", x));
    h.s(&format!("{:.3}", x));
    h.s(&format!("{:.0}", x));
    h.s(&format!("{:?}", x));
    h.s(&format!("{:#?}", x));
    h.s(&x.to_string());
}

fn disp_forms<X: std::fmt::Display>(h: &mut H, x: &X) {
    h.s(&format!("{}", x));
    h.s(&format!("{:.3}", x));
    h.s(&format!("{:12.1}", x));
}

fn w_format_tensors(r: &mut Rng, h: &mut H) {
    let len = |r: &mut Rng| 1 + (r.next() % 3) as usize;
    let t0 = Tensor::from_scalar(r.val());
    all_forms(h, &t0);
    let t1 = Tensor::from([("x", 4)], r.vals(4));
    all_forms(h, &t1);
    let (a, b) = (len(r), len(r));
    let t2 = Tensor::from([("r", a), ("c", b)], r.vals(a * b));
    all_forms(h, &t2);
    let c = len(r);
    let t3 = Tensor::from([("b", c), ("r", a), ("c", b)], r.vals(a * b * c));
    all_forms(h, &t3);
    let t4 = Tensor::from([("a", 2), ("b", c), ("r", a), ("c", b)], r.vals(2 * a * b * c));
    all_forms(h, &t4);
    let t5 = Tensor::from([("z", 2), ("a", 1), ("b", c), ("r", a), ("c", 2)], r.vals(4 * a * c));
    all_forms(h, &t5);
    let t6 = Tensor::from([("u", 2), ("z", 2), ("a", 1), ("b", 2), ("r", 1), ("c", 2)], r.vals(16));
    all_forms(h, &t6);
    // views: TensorView Display / Debug over every adaptor
    disp_forms(h, &TensorView::from(&t3));
    h.dbg(&TensorView::from(&t3));
    disp_forms(h, &t3.range([("r", 0..1)]).unwrap());
    disp_forms(h, &t3.mask([("c", 0..1)]).map(|v| v.shape()).is_ok());
    disp_forms(h, &t3.reverse(&["b", "c"]));
    disp_forms(h, &t3.select([("b", 0)]));
    disp_forms(h, &t2.expand([(1, "e")]));
    disp_forms(h, &t2.rename_view(["p", "q"]));
    disp_forms(h, &t2.map(|x| x * 2.0));
    // accesses and transposes: the "Data Layout" line
    all_forms(h, &t3.index_by(["c", "b", "r"]));
    all_forms(h, &t4.index_by(["c", "a", "r", "b"]));
    disp_forms(h, &t3.transpose_view(["r", "c", "b"]));
    disp_forms(h, &t3.transpose_view(["r", "c", "b"]).source());
    disp_forms(h, &t3.reverse(&["b"]).index_by(["r", "b", "c"]));
    disp_forms(h, &t1.index_by(["x"]));
    disp_forms(h, &t0.index_by([]));
    // exact and textual element types
    let ti = Tensor::from([("r", 2), ("c", 3)], (0..6).map(|k| r.small() * 1000 + k).collect());
    all_forms(h, &ti);
    let ts = Tensor::from([("r", 2), ("c", 2)], vec!["alpha", "be ta", "ga,mma", "de\nlta"]);
    all_forms(h, &ts);
    h.dbg(&Tensor::from([("k", 3)], (0..3).map(|_| Fp::new(r.small() as i128)).collect()));
    h.s(&format!("{:#?}", Tensor::from([("k", 2)], vec![Rat::int(r.small()), Rat::int(7)])));
}

fn w_format_matrices(r: &mut Rng, h: &mut H) {
    let (rows, cols) = (1 + (r.next() % 4) as usize, 1 + (r.next() % 4) as usize);
    let m = Matrix::from_fn((rows, cols), |_| r.val());
    all_forms(h, &m);
    all_forms(h, &easy_ml::matrices::views::MatrixView::from(&m));
    disp_forms(h, &m.range(0..1, 0..cols));
    disp_forms(h, &m.reverse(Reverse { rows: true, columns: true }));
    disp_forms(h, &m.transpose());
    disp_forms(h, &Matrix::from_scalar(r.val()));
    disp_forms(h, &Matrix::column(r.vals(3)));
    disp_forms(h, &Matrix::row(r.vals(3)));
    let mi = Matrix::from_fn((2, 3), |(i, j)| r.small() * 100 + (i * 3 + j) as i64);
    all_forms(h, &mi);
    let mut big = Matrix::from_fn((4, 4), |_| r.val());
    {
        let q = big.partition_quadrants(1 + (r.next() % 3) as usize, 1 + (r.next() % 3) as usize);
        disp_forms(h, &q);
        h.dbg(&q);
    }
    let n = 2 + (r.next() % 3) as usize;
    let p = spd(r, n);
    if let Some(d) = linear_algebra::ldlt_decomposition::<f64>(&p) {
        all_forms(h, &d);
    }
    let rect = Matrix::from_fn((n + 1, n), |_| r.val());
    if let Some(q) = linear_algebra::qr_decomposition::<f64>(&rect) {
        all_forms(h, &q);
    }
    let pt = p.clone().into_tensor("r", "c").unwrap();
    if let Some(d) = linear_algebra::ldlt_decomposition_tensor::<f64, _, _>(&pt) {
        all_forms(h, &d);
    }
    if let Some(q) = linear_algebra::qr_decomposition_tensor::<f64, _, _>(&pt) {
        all_forms(h, &q);
    }
    h.dbg(&linear_algebra::cholesky_decomposition::<f64>(&p));
    h.dbg(&Gaussian::new(r.val(), 1.0 + r.unit()));
    h.s(&format!("{:#?}", MultivariateGaussian::new(Matrix::column(r.vals(2)), spd(r, 2))));
}

fn w_format_records(r: &mut Rng, h: &mut H) {
    let list = WengertList::new();
    let x = Record::variable(r.val(), &list);
    let y = Record::variable(r.val(), &list);
    let z2 = (x * y + x.sin()) / (y.exp() + 1.5);
    all_forms(h, &x);
    all_forms(h, &z2);
    all_forms(h, &Record::constant(r.val()));
    all_forms(h, &Trace::variable(r.val()));
    all_forms(h, &(Trace::variable(r.val()) * Trace::constant(r.val())).exp());
    // the tape itself (Debug shows its operations) and derivative sets
    h.dbg(&list);
    h.s(&format!("{:#?}", list));
    let d = z2.derivatives();
    h.dbg(&d);
    h.s(&format!("{:#?}", d));
    let rt = RecordTensor::variables(&list, Tensor::from([("r", 2), ("c", 2)], r.vals(4)));
    all_forms(h, &rt);
    let rt2 = rt.unary(|v| v * v, |v| 2.0 * v);
    all_forms(h, &rt2);
    all_forms(h, &RecordTensor::constants(Tensor::from([("k", 3)], r.vals(3))));
    let rm = RecordMatrix::variables(&list, Matrix::from_fn((2, 2), |_| r.val()));
    all_forms(h, &rm);
    all_forms(h, &(&rm * &rm));
    all_forms(h, &RecordMatrix::constants(Matrix::from_fn((1, 3), |_| r.val())));
    for rec in rt2.iter_as_records() {
        all_forms(h, &rec);
    }
    let ri = Record::variable(r.small(), &WengertList::new()).number;
    h.dbg(&ri);
    list.clear();
    h.dbg(&list);
}

fn w_format_errors(r: &mut Rng, h: &mut H) {
    use easy_ml::tensors::indexing::TensorAccess;
    use easy_ml::tensors::views::TensorRange;
    let k = 1 + (r.next() % 4) as usize;
    let t = Tensor::from([("a", 2), ("b", 3)], r.vals(6));
    // tensors::InvalidShapeError
    if let Err(e) = Tensor::<f64, 2>::try_from([("a", k), ("a", 3)], vec![0.0; 3 * k]) {
        all_forms(h, &e);
    }
    if let Err(e) = Tensor::<f64, 3>::try_from([("a", k), ("b", 0), ("c", 2)], vec![]) {
        all_forms(h, &e);
    }
    if let Err(e) = Tensor::<f64, 1>::try_from([("a", k)], vec![1.0; k + 1]) {
        all_forms(h, &e);
    }
    // indexing::InvalidDimensionsError
    if let Err(e) = TensorAccess::try_from(&t, ["b", "b"]) {
        all_forms(h, &e);
    }
    if let Err(e) = TensorAccess::try_from(&t, ["b", "zz"]) {
        all_forms(h, &e);
    }
    // IndexRangeValidationError (both variants) and the strict one (all three)
    if let Err(e) = t.range([("a", 5..9)]) {
        all_forms(h, &e);
    }
    if let Err(e) = t.range([("a", 0..1), ("a", 0..1)]) {
        all_forms(h, &e);
    }
    if let Err(e) = t.range([("q", 0..1)]) {
        all_forms(h, &e);
    }
    if let Err(e) = t.mask([("a", 0..2)]) {
        all_forms(h, &e);
    }
    if let Err(e) = TensorRange::from_strict(&t, [("b", 1..(3 + k))]) {
        all_forms(h, &e);
    }
    if let Err(e) = TensorRange::from_strict(&t, [("b", 1..1)]) {
        all_forms(h, &e);
    }
    if let Err(e) = TensorRange::from_strict(&t, [("b", 0..1), ("b", 0..1)]) {
        all_forms(h, &e);
    }
    if let Err(e) = TensorRange::from_all_strict(&t, [Some(0..k), Some(1..9)]) {
        all_forms(h, &e);
    }
    // ScalarConversionError
    if let Err(e) = Matrix::from_fn((2, 2), |_| r.val()).try_into_scalar() {
        all_forms(h, &e);
    }
    // matrix -> tensor with equal names
    if let Err(e) = Matrix::from_fn((2, k), |_| r.val()).into_tensor("s", "s") {
        all_forms(h, &e);
    }
    // record iterators
    let (l1, l2) = (WengertList::new(), WengertList::new());
    all_forms(h, &InvalidRecordIteratorError::<f64, 1>::Empty);
    if let Err(e) = RecordTensor::<f64, _, 1>::from_iter([("x", 3)], vec![Record::variable(r.val(), &l1)]) {
        all_forms(h, &e);
    }
    if let Err(e) = RecordTensor::<f64, _, 1>::from_iter([("x", 2)], vec![Record::variable(r.val(), &l1), Record::variable(r.val(), &l2)]) {
        all_forms(h, &e);
        if let InvalidRecordIteratorError::InconsistentHistory(ih) = &e {
            all_forms(h, ih);
        }
    }
    if let Err(e) = RecordTensor::<f64, _, 1>::from_iter([("x", 2)], vec![Record::constant(r.val()), Record::variable(r.val(), &l2)]) {
        all_forms(h, &e);
    }
    if let Err(e) = RecordMatrix::<f64, _>::from_iter((2, 2), vec![Record::variable(r.val(), &l1); 3]) {
        all_forms(h, &e);
    }
    // MultivariateGaussianError (both variants)
    use easy_ml::distributions::MultivariateGaussianTensor;
    if let Err(e) = MultivariateGaussianTensor::new(Tensor::from([("m", 2)], r.vals(2)), Tensor::from([("r", 2), ("c", 3)], r.vals(6))) {
        all_forms(h, &*e);
    }
    if let Err(e) = MultivariateGaussianTensor::new(Tensor::from([("m", 3)], r.vals(3)), Tensor::from([("r", 2), ("c", 2)], r.vals(4))) {
        all_forms(h, &*e);
    }
}

fn w_panic_messages(r: &mut Rng, h: &mut H) {
    let k = 2 + (r.next() % 3) as usize;
    let t = Tensor::from([("a", 2), ("b", k)], r.vals(2 * k));
    let u = Tensor::from([("b", k), ("c", 2)], r.vals(2 * k));
    let m = Matrix::from_fn((2, k), |_| r.val());
    let mut msgs: Vec<Option<String>> = vec![];
    // constructors
    msgs.push(panic_msg(|| Tensor::from([("a", 2), ("a", k)], vec![0.0; 2 * k])));
    msgs.push(panic_msg(|| Tensor::from([("a", 2), ("b", k)], vec![0.0; k])));
    msgs.push(panic_msg(|| Tensor::from([("a", 0), ("b", k)], Vec::<f64>::new())));
    msgs.push(panic_msg(|| Matrix::from(vec![vec![1.0; k], vec![2.0; k + 1]])));
    msgs.push(panic_msg(|| Matrix::from_flat_row_major((2, k), vec![0.0; k])));
    // names: one, two and three invalid names, duplicates
    msgs.push(panic_msg(|| t.index_by(["b", "q"]).shape()));
    msgs.push(panic_msg(|| t.index_by(["p", "q"]).shape()));
    msgs.push(panic_msg(|| t.index_by(["b", "b"]).shape()));
    msgs.push(panic_msg(|| t.transpose(["q", "a"]).shape()));
    msgs.push(panic_msg(|| t.reverse(&["q"]).shape()));
    msgs.push(panic_msg(|| t.reverse(&["x", "y"]).shape()));
    msgs.push(panic_msg(|| t.reverse(&["z", "y", "x", "w", "v"]).shape()));
    msgs.push(panic_msg(|| t.reverse(&["a", "zz", "b", "yy", "xx"]).shape()));
    msgs.push(panic_msg(|| t.reverse(&["a", "a"]).shape()));
    msgs.push(panic_msg(|| TensorView::from(&t).reverse(&["m", "n", "o"]).shape()));
    msgs.push(panic_msg(|| t.select([("q", 0)]).shape()));
    msgs.push(panic_msg(|| t.select([("a", 7)]).shape()));
    msgs.push(panic_msg(|| t.expand([(5, "e")]).shape()));
    msgs.push(panic_msg(|| t.expand([(0, "a")]).shape()));
    msgs.push(panic_msg(|| t.rename_view(["a", "a"]).shape()));
    msgs.push(panic_msg(|| t.index_by(["a", "b"]).get([2, k])));
    msgs.push(panic_msg(|| t.covariance("q").shape()));
    // arithmetic with mismatched operands
    msgs.push(panic_msg(|| (&t + &u).shape()));
    msgs.push(panic_msg(|| (&t * &t).shape()));
    msgs.push(panic_msg(|| t.elementwise(&u, |x, y| x + y).shape()));
    msgs.push(panic_msg(|| (&m * &m).size()));
    msgs.push(panic_msg(|| (&m + m.transpose()).size()));
    msgs.push(panic_msg(|| Tensor::from([("b", k)], vec![1.0; k]).scalar_product(&Tensor::from([("c", 2)], vec![1.0; 2]))));
    msgs.push(panic_msg(|| m.get(2, k)));
    msgs.push(panic_msg(|| m.range(0..1, 0..1).get(1, 1)));
    msgs.push(panic_msg(|| {
        let mut m2 = m.clone();
        m2.insert_row(9, 0.0);
        m2.size()
    }));
    msgs.push(panic_msg(|| {
        let mut m2 = m.clone();
        m2.remove_column(k + 3);
        m2.size()
    }));
    msgs.push(panic_msg(|| m.clone().into_tensor("s", "s").map(|t| t.shape()).unwrap()));
    // stacks / chains with incompatible sources
    msgs.push(panic_msg(|| TensorStack::<f64, (_, _), 2>::from((&t, &u), (0, "s")).sources_ref().0.shape()));
    msgs.push(panic_msg(|| TensorStack::<f64, (_, _), 2>::from((&t, &t), (7, "s")).sources_ref().0.shape()));
    // differentiation
    let (l1, l2) = (WengertList::new(), WengertList::new());
    let (x, y) = (Record::variable(r.val(), &l1), Record::variable(r.val(), &l2));
    msgs.push(panic_msg(|| (x + y).number));
    msgs.push(panic_msg(|| (x * y).number));
    msgs.push(panic_msg(|| Record::constant(1.0).derivatives().at(&x)));
    let rt = RecordTensor::variables(&l1, Tensor::from([("r", 2)], r.vals(2)));
    let ro = RecordTensor::variables(&l2, Tensor::from([("r", 2)], r.vals(2)));
    msgs.push(panic_msg(|| (&rt + &ro).shape()));
    msgs.push(panic_msg(|| (&rt + &RecordTensor::constants(Tensor::from([("r", 3)], r.vals(3)))).shape()));
    // statistics
    msgs.push(panic_msg(|| linear_algebra::mean::<_, f64>(Vec::<f64>::new().into_iter())));
    msgs.push(panic_msg(|| MultivariateGaussian::new(Matrix::column(r.vals(3)), Matrix::from_fn((2, 2), |_| 1.0)).mean().size()));
    for msg in &msgs {
        h.dbg(msg);
    }
    h.u(msgs.iter().filter(|x| x.is_some()).count());
}

/// results computed AFTER failing calls whose panic was caught on this thread: same size, other sizes,
/// every entry point that permutes / decomposes
fn w_after_caught_panics(r: &mut Rng, h: &mut H) {
    for n in 2..=4usize {
        let at = ((r.next() % n as u64) as usize, (r.next() % n as u64) as usize);
        h.dbg(&cross_tape_determinant(n, at, r.next()));
        let m = spd(r, n);
        h.dbg(&linear_algebra::determinant::<f64>(&m).map(f64::to_bits));
        if let Some(i) = linear_algebra::inverse::<f64>(&m) {
            h.fs(i.row_major_iter());
        }
        let e = Matrix::from_fn((n, n), |(i, j)| Rat::int(r.small() + if i == j { 7 } else { 0 }));
        h.dbg(&linear_algebra::determinant::<Rat>(&e));
        h.dbg(&linear_algebra::inverse::<Rat>(&e));
        let t = m.clone().into_tensor("r", "c").unwrap();
        h.dbg(&t.determinant().map(f64::to_bits));
        h.dbg(&linear_algebra::cholesky_decomposition::<f64>(&m).map(|c| c.row_major_iter().map(f64::to_bits).collect::<Vec<_>>()));
    }
    // a failing tensor call, then the same call with valid input
    let t = Tensor::from([("a", 2), ("b", 3)], r.vals(6));
    h.dbg(&panic_msg(|| t.reverse(&["x", "y"]).shape()));
    h.fs(t.reverse(&["a", "b"]).iter());
    h.dbg(&panic_msg(|| (&t * &t).shape()));
    h.fs((&t * &t.transpose(["b", "a"]).rename_owned(["b", "c"])).iter());
}
