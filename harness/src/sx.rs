//! S-expressions over integers: the case / result language shared with the Coq model runner.
use num_bigint::BigInt;
use num_traits::ToPrimitive;
use std::fmt;

#[derive(Clone, Debug, PartialEq, Eq)]
pub enum Sx {
    Z(BigInt),
    L(Vec<Sx>),
}

pub fn z<T: Into<BigInt>>(v: T) -> Sx {
    Sx::Z(v.into())
}
pub fn l(v: Vec<Sx>) -> Sx {
    Sx::L(v)
}
pub fn nil() -> Sx {
    Sx::L(vec![])
}
pub fn ok(v: Sx) -> Sx {
    l(vec![z(0), v])
}
pub fn err(v: Sx) -> Sx {
    l(vec![z(1), v])
}
pub fn panicked() -> Sx {
    l(vec![z(2)])
}
pub fn opt(v: Option<Sx>) -> Sx {
    match v {
        Some(x) => l(vec![x]),
        None => nil(),
    }
}
pub fn boolean(b: bool) -> Sx {
    z(if b { 1 } else { 0 })
}
/// An internal inconsistency between API forms that must agree (never equal to a model result).
pub fn inconsistent(code: i64) -> Sx {
    l(vec![z(-8), z(code)])
}
pub fn bad_case() -> Sx {
    l(vec![z(-1)])
}

impl fmt::Display for Sx {
    fn fmt(&self, f: &mut fmt::Formatter<'_>) -> fmt::Result {
        match self {
            Sx::Z(v) => write!(f, "{}", v),
            Sx::L(items) => {
                write!(f, "(")?;
                for (i, x) in items.iter().enumerate() {
                    if i > 0 {
                        write!(f, " ")?;
                    }
                    write!(f, "{}", x)?;
                }
                write!(f, ")")
            }
        }
    }
}

pub fn parse(s: &str) -> Result<Sx, String> {
    let b = s.as_bytes();
    let mut i = 0usize;
    let r = item(b, &mut i)?;
    skip(b, &mut i);
    if i != b.len() {
        return Err("trailing input".into());
    }
    Ok(r)
}
fn skip(b: &[u8], i: &mut usize) {
    while *i < b.len() && (b[*i] == b' ' || b[*i] == b'\t' || b[*i] == b'\r') {
        *i += 1;
    }
}
fn item(b: &[u8], i: &mut usize) -> Result<Sx, String> {
    skip(b, i);
    if *i >= b.len() {
        return Err("unexpected end".into());
    }
    if b[*i] == b'(' {
        *i += 1;
        let mut items = vec![];
        loop {
            skip(b, i);
            if *i >= b.len() {
                return Err("unclosed list".into());
            }
            if b[*i] == b')' {
                *i += 1;
                return Ok(Sx::L(items));
            }
            items.push(item(b, i)?);
        }
    } else {
        let st = *i;
        while *i < b.len() && !matches!(b[*i], b' ' | b'(' | b')' | b'\t' | b'\r') {
            *i += 1;
        }
        let t = std::str::from_utf8(&b[st..*i]).map_err(|e| e.to_string())?;
        t.parse::<BigInt>().map(Sx::Z).map_err(|e| format!("bad integer {t}: {e}"))
    }
}

// ---- decoders; None = the line is not in the case language ----
impl Sx {
    pub fn list(&self) -> Option<&[Sx]> {
        match self {
            Sx::L(v) => Some(v),
            _ => None,
        }
    }
    pub fn int(&self) -> Option<&BigInt> {
        match self {
            Sx::Z(v) => Some(v),
            _ => None,
        }
    }
    pub fn usize(&self) -> Option<usize> {
        self.int()?.to_u64().map(|x| x as usize)
    }
    pub fn i64(&self) -> Option<i64> {
        self.int()?.to_i64()
    }
    pub fn bool(&self) -> Option<bool> {
        Some(self.i64()? != 0)
    }
    pub fn usizes(&self) -> Option<Vec<usize>> {
        self.list()?.iter().map(|x| x.usize()).collect()
    }
    pub fn i64s(&self) -> Option<Vec<i64>> {
        self.list()?.iter().map(|x| x.i64()).collect()
    }
    pub fn pairs_usize(&self) -> Option<Vec<(usize, usize)>> {
        self.list()?
            .iter()
            .map(|x| {
                let p = x.list()?;
                if p.len() != 2 {
                    return None;
                }
                Some((p[0].usize()?, p[1].usize()?))
            })
            .collect()
    }
    /// `()` or `(x)`
    pub fn option(&self) -> Option<Option<&Sx>> {
        let v = self.list()?;
        match v.len() {
            0 => Some(None),
            1 => Some(Some(&v[0])),
            _ => None,
        }
    }
}

// ---- dimension names: the model's name n is the string "d<n>" ----
use std::sync::OnceLock;
static NAMES: OnceLock<Vec<&'static str>> = OnceLock::new();
// ---- naming B: the same dimension ids rendered as names the CRATE ITSELF uses internally or in
// non-test code (linear_algebra.rs builds ("i", ..), ("j", ..) and ("r", ..) tensors; the record
// collectors report ("rows", ..), ("columns", ..)).  ("row" / "column", the default names of the
// matrix-to-tensor wrapper, are left out: the C12 harness gives them ids of their own.)  Every case is executed under
// naming A ("d<n>") and under naming B and the two results must be identical (names travel back
// as ids through `undim`): a routine that builds an intermediate tensor with a hard-coded
// dimension name must not collide with a caller's dimension of that name.
use std::cell::Cell;
thread_local! { static NAMING: Cell<u8> = const { Cell::new(0) }; }
pub const NAMES_B: [&str; 5] = ["i", "j", "r", "rows", "columns"];
pub fn set_naming(b: u8) {
    NAMING.with(|n| n.set(b));
}
pub fn naming() -> u8 {
    NAMING.with(|n| n.get())
}

pub fn dim(n: usize) -> &'static str {
    if naming() == 1 && n < NAMES_B.len() {
        return NAMES_B[n];
    }
    // Names are slices of leaked strings.  Deliberately, the names of n, 10n and 100n (e.g. "d1",
    // "d10", "d100") are PREFIXES OF ONE ALLOCATION, so they start at the same address while
    // being different names: a library that compared names by pointer instead of by content
    // would confuse them.
    let names = NAMES.get_or_init(|| {
        let own: Vec<&'static str> = (0..256).map(|i| &*Box::leak(format!("d{i}").into_boxed_str())).collect();
        (0..256usize)
            .map(|i| {
                let mut base = i;
                while base != 0 && base * 10 < 256 {
                    base *= 10;
                }
                let len = format!("d{i}").len();
                &own[base][..len]
            })
            .collect()
    });
    names[n % 256]
}
pub fn undim(s: &str) -> usize {
    if naming() == 1 {
        if let Some(k) = NAMES_B.iter().position(|b| *b == s) {
            return k;
        }
    }
    s[1..].parse().expect("harness dimension name")
}
pub fn shape_sx(shape: &[(&'static str, usize)]) -> Sx {
    l(shape.iter().map(|(n, len)| l(vec![z(undim(n)), z(*len)])).collect())
}
pub fn names_sx(names: &[&'static str]) -> Sx {
    l(names.iter().map(|n| z(undim(n))).collect())
}
pub fn shape_arr<const D: usize>(v: &[(usize, usize)]) -> [(&'static str, usize); D] {
    std::array::from_fn(|d| (dim(v[d].0), v[d].1))
}
pub fn names_arr<const D: usize>(v: &[usize]) -> [&'static str; D] {
    std::array::from_fn(|d| dim(v[d]))
}
pub fn idx_arr<const D: usize>(v: &[usize]) -> [usize; D] {
    std::array::from_fn(|d| v[d])
}

/// Dispatch a const-generic function on a run-time dimensionality 0..=6.
#[macro_export]
macro_rules! with_d {
    ($d:expr, $f:ident ( $($arg:expr),* )) => {
        match $d {
            0 => $f::<0>($($arg),*),
            1 => $f::<1>($($arg),*),
            2 => $f::<2>($($arg),*),
            3 => $f::<3>($($arg),*),
            4 => $f::<4>($($arg),*),
            5 => $f::<5>($($arg),*),
            6 => $f::<6>($($arg),*),
            _ => $crate::sx::bad_case(),
        }
    };
}
