//! C07: determinant and inverse through every entry point.
//!   (7 op ty (n0 n1) rows cols (x ...) (pr pc))      op 1 = determinant, 2 = inverse
//! Result: (matrix-route tensor-route); see coq/theories/Run/RunC07.v.
//! Matrix forms: Matrix::{determinant, inverse}, linear_algebra::{determinant, inverse}.
//! Tensor forms (all must agree, checked here): Tensor method, linear_algebra::*_tensor on
//! &Tensor / &mut Tensor / owned Tensor, TensorView over &Tensor and over an owned Tensor,
//! a TensorTranspose view of the transposed data, a TensorAccess (index_by) view of the
//! transposed-and-renamed data, a TensorMask view hiding an extra row pr and column pc, and a
//! TensorRange view into a padded tensor.  Exact oracles: A * A^-1 = I = A^-1 * A; the inverse is
//! present exactly when the determinant is present and non-zero.
use crate::num::Enc;
use crate::sx::*;
use crate::with_ty;
use easy_ml::linear_algebra;
use easy_ml::matrices::Matrix;
use easy_ml::numeric::{Numeric, NumericRef};
use easy_ml::tensors::views::{IndexRange, TensorView};
use easy_ml::tensors::Tensor;

pub fn run(args: &[Sx]) -> Sx {
    if args.len() != 7 {
        return bad_case();
    }
    let (Some(op), Some(ty), Some(names), Some(rows), Some(cols), Some(pad)) = (
        args[0].i64(),
        args[1].i64(),
        args[2].usizes(),
        args[3].usize(),
        args[4].usize(),
        args[5].list().and(args[6].usizes()),
    ) else {
        return bad_case();
    };
    if names.len() != 2 || pad.len() != 2 || rows == 0 || cols == 0 || names[0] == names[1] {
        return bad_case();
    }
    if rows > 64 || cols > 64 {
        return bad_case();
    }
    with_ty!(ty, go(op, (names[0], names[1]), rows, cols, &args[5], (pad[0], pad[1])))
}

fn tdata<T: Clone>(t: &Tensor<T, 2>) -> Vec<T> {
    t.iter().collect()
}

fn enc_tensor<T: Enc + Clone>(t: &Tensor<T, 2>) -> Sx {
    l(vec![shape_sx(&t.shape()), l(t.iter().map(|x| x.enc()).collect())])
}

fn go<T>(op: i64, names: (usize, usize), rows: usize, cols: usize, data: &Sx, pad: (usize, usize)) -> Sx
where
    T: Numeric + Enc + PartialEq + std::fmt::Debug,
    for<'a> &'a T: NumericRef<T>,
{
    let Some(data) = crate::num::dec_list::<T>(data) else { return bad_case() };
    if data.len() != rows * cols {
        return bad_case();
    }
    let (n0, n1) = (dim(names.0), dim(names.1));
    let at = |i: usize, j: usize| data[i * cols + j].clone();
    let junk = |k: usize| T::small(3 + (k as i64 % 5));

    let matrix = Matrix::from_flat_row_major((rows, cols), data.clone());
    let tensor = Tensor::from([(n0, rows), (n1, cols)], data.clone());
    // transposed data, names in the same order: viewed through TensorTranspose
    let mut tdat = Vec::with_capacity(rows * cols);
    for j in 0..cols {
        for i in 0..rows {
            tdat.push(at(i, j));
        }
    }
    let transposed = Tensor::from([(n0, cols), (n1, rows)], tdat.clone());
    // transposed data, names swapped: viewed through TensorAccess
    let swapped = Tensor::from([(n1, cols), (n0, rows)], tdat);
    // one extra row pr and column pc to be hidden by a mask
    let (pr, pc) = (pad.0 % (rows + 1), pad.1 % (cols + 1));
    let mut bdat = Vec::new();
    for i in 0..rows + 1 {
        for j in 0..cols + 1 {
            if i == pr || j == pc {
                bdat.push(junk(i + 2 * j));
            } else {
                bdat.push(at(i - (i > pr) as usize, j - (j > pc) as usize));
            }
        }
    }
    let bigger = Tensor::from([(n0, rows + 1), (n1, cols + 1)], bdat);
    // one ring of padding to be cut off by a range
    let mut pdat = Vec::new();
    for i in 0..rows + 2 {
        for j in 0..cols + 2 {
            if i == 0 || j == 0 || i == rows + 1 || j == cols + 1 {
                pdat.push(junk(i + 3 * j));
            } else {
                pdat.push(at(i - 1, j - 1));
            }
        }
    }
    let padded = Tensor::from([(n0, rows + 2), (n1, cols + 2)], pdat);

    match op {
        1 => {
            let dm = matrix.determinant();
            if linear_algebra::determinant::<T>(&matrix) != dm {
                return inconsistent(701);
            }
            let dt = tensor.determinant();
            let mut forms: Vec<(i64, Option<T>)> = vec![];
            forms.push((702, linear_algebra::determinant_tensor::<T, _, _>(&tensor)));
            forms.push((703, linear_algebra::determinant_tensor::<T, _, _>(tensor.clone())));
            {
                let mut copy = tensor.clone();
                forms.push((704, linear_algebra::determinant_tensor::<T, _, _>(&mut copy)));
            }
            {
                let view = TensorView::from(&tensor);
                forms.push((705, view.determinant()));
                forms.push((706, linear_algebra::determinant_tensor::<T, _, _>(&view)));
                let owned_view = TensorView::from(tensor.clone());
                forms.push((707, owned_view.determinant()));
                forms.push((708, linear_algebra::determinant_tensor::<T, _, _>(owned_view)));
            }
            forms.push((709, transposed.transpose_view([n1, n0]).determinant()));
            forms.push((710, TensorView::from(swapped.index_by([n0, n1])).determinant()));
            match bigger.mask([(n0, IndexRange::new(pr, 1)), (n1, IndexRange::new(pc, 1))]) {
                Ok(v) => forms.push((711, v.determinant())),
                Err(_) => return inconsistent(712),
            }
            match padded.range([(n0, IndexRange::new(1, rows)), (n1, IndexRange::new(1, cols))]) {
                Ok(v) => forms.push((713, v.determinant())),
                Err(_) => return inconsistent(714),
            }
            for (code, f) in forms {
                if f != dt {
                    return inconsistent(code);
                }
            }
            l(vec![opt(dm.map(|x| x.enc())), opt(dt.map(|x| x.enc()))])
        }
        2 => {
            let im = matrix.inverse();
            if linear_algebra::inverse::<T>(&matrix) != im {
                return inconsistent(721);
            }
            let it = tensor.inverse();
            let key = |x: &Option<Tensor<T, 2>>| x.as_ref().map(|t| (t.shape(), tdata(t)));
            let want = key(&it);
            let mut forms: Vec<(i64, Option<Tensor<T, 2>>)> = vec![];
            forms.push((722, linear_algebra::inverse_tensor::<T, _, _>(&tensor)));
            forms.push((723, linear_algebra::inverse_tensor::<T, _, _>(tensor.clone())));
            {
                let mut copy = tensor.clone();
                forms.push((724, linear_algebra::inverse_tensor::<T, _, _>(&mut copy)));
            }
            {
                let view = TensorView::from(&tensor);
                forms.push((725, view.inverse()));
                forms.push((726, linear_algebra::inverse_tensor::<T, _, _>(&view)));
                let owned_view = TensorView::from(tensor.clone());
                forms.push((727, owned_view.inverse()));
                forms.push((728, linear_algebra::inverse_tensor::<T, _, _>(owned_view)));
            }
            forms.push((729, transposed.transpose_view([n1, n0]).inverse()));
            forms.push((730, TensorView::from(swapped.index_by([n0, n1])).inverse()));
            match bigger.mask([(n0, IndexRange::new(pr, 1)), (n1, IndexRange::new(pc, 1))]) {
                Ok(v) => forms.push((731, v.inverse())),
                Err(_) => return inconsistent(732),
            }
            match padded.range([(n0, IndexRange::new(1, rows)), (n1, IndexRange::new(1, cols))]) {
                Ok(v) => forms.push((733, v.inverse())),
                Err(_) => return inconsistent(734),
            }
            for (code, f) in forms {
                if key(&f) != want {
                    return inconsistent(code);
                }
            }
            // present exactly when the determinant is present and non-zero
            let dm = matrix.determinant();
            let dt = tensor.determinant();
            if im.is_some() != dm.as_ref().is_some_and(|d| *d != T::zero()) {
                return inconsistent(740);
            }
            if it.is_some() != dt.as_ref().is_some_and(|d| *d != T::zero()) {
                return inconsistent(741);
            }
            // exact oracle: both products are the identity
            if let Some(x) = &im {
                let identity = Matrix::diagonal(T::one(), (rows, rows));
                if x.size() != (rows, cols) || &matrix * x != identity || x * &matrix != identity {
                    return inconsistent(742);
                }
            }
            if let Some(x) = &it {
                let identity = Tensor::diagonal([(n0, rows), (n1, rows)], T::one());
                let left = &tensor * x;
                let right = x * &tensor;
                if x.shape() != tensor.shape()
                    || left.shape() != identity.shape()
                    || right.shape() != identity.shape()
                    || tdata(&left) != tdata(&identity)
                    || tdata(&right) != tdata(&identity)
                {
                    return inconsistent(743);
                }
            }
            l(vec![
                opt(im.map(|x| {
                    l(vec![z(x.rows()), z(x.columns()), l(x.row_major_iter().map(|e| e.enc()).collect())])
                })),
                opt(it.map(|x| enc_tensor(&x))),
            ])
        }
        _ => bad_case(),
    }
}
