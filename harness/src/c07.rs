//! C07: determinant and inverse through every entry point.
//!   (7 op ty (n0 n1) rows cols (x ...) (pr pc))      op 1 = determinant, 2 = inverse,
//!   3 = determinant + inverse presence at f64 on small-integer entries (result: exact integer),
//!   4 = the same on the entries scaled by 2^-k (k = the `ty` field, 0..=60): every product and
//!   partial sum is still exact, so the f64 determinant must be det(ints) * 2^(-k n) exactly and
//!   the inverse present exactly when det(ints) != 0, however tiny the determinant is
//!   5 = FLOAT tier (ty 0 = f64, 1 = f32, +2 = marked well-conditioned): entries (m k) = m / 10^k;
//!   compared with the model: determinant presence; checked here: see `float_tier`
//!   ty 0 = Rat, 1 = Fp, 2 = Wrapping<i64> (ring, not a field), 3 = Trace<Rat> (dual numbers;
//!   `==` of Trace compares numbers only, so every comparison here is made on ENCODINGS),
//!   4 = StrictRat (c08/strict.rs: Rat whose `/` PANICS on a zero divisor; the model runs the
//!   division-instrumented inverse and predicts value / absence / panic `(2)`)
//! Result: (matrix-route tensor-route); see coq/theories/Run/RunC07.v.
//! Matrix forms: Matrix::{determinant, inverse}, linear_algebra::{determinant, inverse}.
//! Tensor forms (all must agree, checked here): Tensor method, linear_algebra::*_tensor on
//! &Tensor / &mut Tensor / owned Tensor, TensorView over &Tensor and over an owned Tensor,
//! a TensorTranspose view of the transposed data, a TensorAccess (index_by) view of the
//! transposed-and-renamed data, a TensorMask view hiding an extra row pr and column pc, and a
//! TensorRange view into a padded tensor.  Exact oracles: A * A^-1 = I = A^-1 * A; the inverse is
//! present exactly when the determinant is present and non-zero.
use crate::num::{Enc, Fp, Rat};
use crate::sx::*;
use easy_ml::differentiation::Trace;
use num_bigint::BigInt;
use num_integer::Integer;
use num_traits::ToPrimitive;
use std::num::Wrapping;
use easy_ml::linear_algebra;
use easy_ml::matrices::Matrix;
use easy_ml::numeric::{Numeric, NumericRef};
use easy_ml::tensors::views::{IndexRange, TensorView};
use easy_ml::tensors::Tensor;

#[path = "c08/strict.rs"]
mod strict;
use strict::StrictRat;

/// Element types of C07 and their encodings (own trait: Enc for Wrapping<i64> belongs to c03.rs).
trait El: Sized + Clone {
    /// exact field: A * A^-1 = I is checked
    const FIELD: bool;
    fn e(&self) -> Sx;
    fn d(s: &Sx) -> Option<Self>;
    fn sm(v: i64) -> Self;
}
impl El for Rat {
    const FIELD: bool = true;
    fn e(&self) -> Sx { self.enc() }
    fn d(s: &Sx) -> Option<Self> { <Rat as Enc>::dec(s) }
    fn sm(v: i64) -> Self { <Rat as Enc>::small(v) }
}
/// tag 4: exact rationals whose `/` panics on a zero divisor (harness/src/c08/strict.rs)
impl El for StrictRat {
    const FIELD: bool = true;
    fn e(&self) -> Sx { self.enc() }
    fn d(s: &Sx) -> Option<Self> { <StrictRat as Enc>::dec(s) }
    fn sm(v: i64) -> Self { <StrictRat as Enc>::small(v) }
}
impl El for Fp {
    const FIELD: bool = true;
    fn e(&self) -> Sx { self.enc() }
    fn d(s: &Sx) -> Option<Self> { <Fp as Enc>::dec(s) }
    fn sm(v: i64) -> Self { <Fp as Enc>::small(v) }
}
impl El for Wrapping<i64> {
    const FIELD: bool = false;
    fn e(&self) -> Sx { z(self.0) }
    fn d(s: &Sx) -> Option<Self> {
        let m = s.int()?.mod_floor(&(BigInt::from(1) << 64));
        Some(Wrapping(m.to_u64()? as i64))
    }
    fn sm(v: i64) -> Self { Wrapping(v) }
}
impl El for Trace<Rat> {
    const FIELD: bool = true;
    fn e(&self) -> Sx { l(vec![self.number.enc(), self.derivative.enc()]) }
    fn d(s: &Sx) -> Option<Self> {
        let v = s.list()?;
        if v.len() != 2 {
            return None;
        }
        Some(Trace { number: <Rat as Enc>::dec(&v[0])?, derivative: <Rat as Enc>::dec(&v[1])? })
    }
    fn sm(v: i64) -> Self { Trace::constant(Rat::int(v)) }
}
/// f64 on small-integer inputs (op 3): an integral result is its integer, anything else its bits
impl El for f64 {
    const FIELD: bool = false;
    fn e(&self) -> Sx {
        if self.fract() == 0.0 && self.abs() < 9.0e15 {
            z(*self as i64)
        } else {
            l(vec![z(-77), z(self.to_bits())])
        }
    }
    fn d(s: &Sx) -> Option<Self> {
        // an integer, (-77 bits) = the bit pattern, or (m k) = m * 2^-k
        if let Some(p) = s.list() {
            if p.len() != 2 {
                return None;
            }
            if p[0].i64() == Some(-77) {
                return Some(f64::from_bits(p[1].int()?.to_u64()?));
            }
            return Some(p[0].i64()? as f64 * 2f64.powi(-(p[1].i64()? as i32)));
        }
        Some(s.i64()? as f64)
    }
    fn sm(v: i64) -> Self { v as f64 }
}

/// f32 (op 5 only): an integral value is its integer, anything else `(-78 bits)`
impl El for f32 {
    const FIELD: bool = false;
    fn e(&self) -> Sx {
        if self.fract() == 0.0 && self.abs() < 1.0e7 {
            z(*self as i64)
        } else {
            l(vec![z(-78), z(self.to_bits())])
        }
    }
    fn d(s: &Sx) -> Option<Self> {
        if let Some(p) = s.list() {
            if p.len() != 2 || p[0].i64() != Some(-78) {
                return None;
            }
            return Some(f32::from_bits(p[1].int()?.to_u32()?));
        }
        Some(s.i64()? as f32)
    }
    fn sm(v: i64) -> Self { v as f32 }
}

fn dec_float(s: &Sx) -> Option<f64> {
    if let Some(v) = s.i64() {
        return Some(v as f64);
    }
    let p = s.list()?;
    if p.len() != 2 {
        return None;
    }
    match p[0].i64()? {
        -77 => Some(f64::from_bits(p[1].int()?.to_u64()?)),
        -78 => Some(f32::from_bits(p[1].int()?.to_u32()?) as f64),
        _ => None,
    }
}

/// op 5: the FLOAT tier.  Entries (m k) = m / 10^k evaluated in the float type T.  Compared with
/// the model: presence of the determinant (= square).  Checked here (rounding-independent):
/// every determinant entry point returns the same bits; every inverse entry point of a route
/// returns the same bits; the inverse of EACH route is present exactly when the crate's own
/// determinant of the same input is present and `!= 0` (codes 740 / 741 inside `go`); Matrix and
/// tensor routes agree on presence (751); for inputs the generator marks well-conditioned the
/// inverse must be present and A X = I = X A within `tol` (760 / 761).
fn float_tier<T>(wc: bool, tol: f64, nm: (usize, usize), rows: usize, cols: usize, vals: Vec<T>, pd: (usize, usize)) -> Sx
where
    T: Numeric + El + PartialEq + Copy + Into<f64>,
    for<'a> &'a T: NumericRef<T>,
{
    let data = l(vals.iter().map(|v| v.e()).collect());
    let det = go::<T>(1, nm, rows, cols, &data, pd);
    let inv = go::<T>(2, nm, rows, cols, &data, pd);
    let (Some(d), Some(i)) = (det.list(), inv.list()) else { return det };
    if d.len() != 2 || d[0].int() == Some(&BigInt::from(-8)) {
        return det;
    }
    if i.len() != 2 || i[0].int() == Some(&BigInt::from(-8)) {
        return inv;
    }
    if d[0] != d[1] {
        return inconsistent(750);
    }
    let present = |x: &Sx| x.list().is_some_and(|v| !v.is_empty());
    if present(&i[0]) != present(&i[1]) {
        return inconsistent(751);
    }
    if wc && rows == cols {
        // ((shape data)) of the tensor route
        let x: Option<Vec<f64>> = i[1]
            .list()
            .and_then(|v| v.first())
            .and_then(|t| t.list())
            .and_then(|t| t.get(1))
            .and_then(|dd| dd.list())
            .and_then(|dd| dd.iter().map(dec_float).collect());
        let Some(x) = x else { return inconsistent(760) };
        if x.len() != rows * rows {
            return inconsistent(760);
        }
        let a: Vec<f64> = vals.iter().map(|v| (*v).into()).collect();
        let n = rows;
        for r in 0..n {
            for c in 0..n {
                let ax: f64 = (0..n).map(|k| a[r * n + k] * x[k * n + c]).sum();
                let xa: f64 = (0..n).map(|k| x[r * n + k] * a[k * n + c]).sum();
                let want = if r == c { 1.0 } else { 0.0 };
                if !((ax - want).abs() <= tol) || !((xa - want).abs() <= tol) {
                    return inconsistent(761);
                }
            }
        }
    }
    l(vec![boolean(present(&d[1]))])
}

pub fn run(args: &[Sx]) -> Sx {
    if args.len() != 7 {
        return bad_case();
    }
    let (Some(op), Some(ty), Some(names), Some(rows), Some(cols), Some(pad)) = (
        args[0].i64(),
        args[1].i64(),
        args[2].usizes(),
        args[3].usize(),
        args[4].usize(),
        args[5].list().and(args[6].usizes()),
    ) else {
        return bad_case();
    };
    if names.len() != 2 || pad.len() != 2 || rows == 0 || cols == 0 || names[0] == names[1] {
        return bad_case();
    }
    if rows > 64 || cols > 64 {
        return bad_case();
    }
    let (nm, pd) = ((names[0], names[1]), (pad[0], pad[1]));
    if op == 5 {
        // float tier: ty 0 = f64, 1 = f32, +2 = marked well-conditioned by the generator
        if !(0..=3).contains(&ty) || rows > 6 || cols > 6 {
            return bad_case();
        }
        let f32_ = ty % 2 == 1;
        let kmax = if f32_ { 30 } else { 200 };
        let Some(items) = args[5].list() else { return bad_case() };
        let mut mk = Vec::with_capacity(items.len());
        for it in items {
            let Some(p) = it.list() else { return bad_case() };
            if p.len() != 2 {
                return bad_case();
            }
            let (Some(m), Some(k)) = (p[0].i64(), p[1].i64()) else { return bad_case() };
            if m.abs() > 1_000_000 || !(0..=kmax).contains(&k) {
                return bad_case();
            }
            mk.push((m, k as i32));
        }
        if mk.len() != rows * cols {
            return bad_case();
        }
        return if f32_ {
            let vals: Vec<f32> = mk.iter().map(|(m, k)| *m as f32 / 10f32.powi(*k)).collect();
            float_tier::<f32>(ty >= 2, 1e-3, nm, rows, cols, vals, pd)
        } else {
            let vals: Vec<f64> = mk.iter().map(|(m, k)| *m as f64 / 10f64.powi(*k)).collect();
            float_tier::<f64>(ty >= 2, 1e-9, nm, rows, cols, vals, pd)
        };
    }
    if op == 3 || op == 4 {
        // f64 on small integers (op 4: scaled by 2^-k, k = the `ty` field): determinant (all
        // forms, bit for bit) and inverse presence
        let k = if op == 4 { ty } else { 0 };
        if (op == 3 && ty != 0) || !(0..=60).contains(&k) || rows > 6 || cols > 6 {
            return bad_case();
        }
        let ints = match args[5].i64s() {
            Some(v) if v.iter().all(|x| x.abs() <= 3) => v,
            _ => return bad_case(),
        };
        // entries as (m k) = m * 2^-k (exact)
        let scaled = l(ints.iter().map(|m| l(vec![z(*m), z(k)])).collect());
        let det = go::<f64>(1, nm, rows, cols, &scaled, pd);
        let inv = go::<f64>(2, nm, rows, cols, &scaled, pd);
        let (Some(d), Some(i)) = (det.list(), inv.list()) else { return det };
        if d.len() != 2 || d[0].int() == Some(&BigInt::from(-8)) {
            return det;
        }
        if i.len() != 2 || i[0].int() == Some(&BigInt::from(-8)) {
            return inv;
        }
        if d[0] != d[1] {
            return inconsistent(750);
        }
        let present = |x: &Sx| x.list().is_some_and(|v| !v.is_empty());
        if present(&i[0]) != present(&i[1]) {
            return inconsistent(751);
        }
        // the determinant of the scaled matrix is det(ints) * 2^(-k n) exactly: report det(ints)
        let unscaled = match d[1].list() {
            Some([]) => nil(),
            Some([x]) => {
                let v = match (x.i64(), x.list()) {
                    (Some(v), _) => v as f64,
                    (None, Some([tag, bits])) if tag.i64() == Some(-77) => {
                        match bits.int().and_then(|b| b.to_u64()) {
                            Some(b) => f64::from_bits(b),
                            None => return inconsistent(752),
                        }
                    }
                    _ => return inconsistent(752),
                };
                let w = v * 2f64.powi((k as i32) * (rows as i32));
                l(vec![w.e()])
            }
            _ => return inconsistent(752),
        };
        return l(vec![unscaled, boolean(present(&i[1]))]);
    }
    match ty {
        0 => go::<Rat>(op, nm, rows, cols, &args[5], pd),
        1 => go::<Fp>(op, nm, rows, cols, &args[5], pd),
        2 => go::<Wrapping<i64>>(op, nm, rows, cols, &args[5], pd),
        3 => go::<Trace<Rat>>(op, nm, rows, cols, &args[5], pd),
        // a panic of any entry point (a division by zero of StrictRat, or anything else): `(2)`
        4 => match crate::guarded(|| go::<StrictRat>(op, nm, rows, cols, &args[5], pd)) {
            Some(r) => r,
            None => panicked(),
        },
        _ => bad_case(),
    }
}

fn tdata<T: El>(t: &Tensor<T, 2>) -> Vec<Sx> {
    t.iter().map(|x| x.e()).collect()
}

fn enc_tensor<T: El>(t: &Tensor<T, 2>) -> Sx {
    l(vec![shape_sx(&t.shape()), l(t.iter().map(|x| x.e()).collect())])
}

fn go<T>(op: i64, names: (usize, usize), rows: usize, cols: usize, data: &Sx, pad: (usize, usize)) -> Sx
where
    T: Numeric + El + PartialEq,
    for<'a> &'a T: NumericRef<T>,
{
    let Some(data) = data.list().and_then(|v| v.iter().map(T::d).collect::<Option<Vec<T>>>()) else {
        return bad_case();
    };
    if data.len() != rows * cols {
        return bad_case();
    }
    let (n0, n1) = (dim(names.0), dim(names.1));
    let at = |i: usize, j: usize| data[i * cols + j].clone();
    let junk = |k: usize| T::sm(3 + (k as i64 % 5));

    let matrix = Matrix::from_flat_row_major((rows, cols), data.clone());
    let tensor = Tensor::from([(n0, rows), (n1, cols)], data.clone());
    // transposed data, names in the same order: viewed through TensorTranspose
    let mut tdat = Vec::with_capacity(rows * cols);
    for j in 0..cols {
        for i in 0..rows {
            tdat.push(at(i, j));
        }
    }
    let transposed = Tensor::from([(n0, cols), (n1, rows)], tdat.clone());
    // transposed data, names swapped: viewed through TensorAccess
    let swapped = Tensor::from([(n1, cols), (n0, rows)], tdat);
    // one extra row pr and column pc to be hidden by a mask
    let (pr, pc) = (pad.0 % (rows + 1), pad.1 % (cols + 1));
    let mut bdat = Vec::new();
    for i in 0..rows + 1 {
        for j in 0..cols + 1 {
            if i == pr || j == pc {
                bdat.push(junk(i + 2 * j));
            } else {
                bdat.push(at(i - (i > pr) as usize, j - (j > pc) as usize));
            }
        }
    }
    let bigger = Tensor::from([(n0, rows + 1), (n1, cols + 1)], bdat);
    // one ring of padding to be cut off by a range
    let mut pdat = Vec::new();
    for i in 0..rows + 2 {
        for j in 0..cols + 2 {
            if i == 0 || j == 0 || i == rows + 1 || j == cols + 1 {
                pdat.push(junk(i + 3 * j));
            } else {
                pdat.push(at(i - 1, j - 1));
            }
        }
    }
    let padded = Tensor::from([(n0, rows + 2), (n1, cols + 2)], pdat);

    match op {
        1 => {
            let enc = |x: Option<T>| x.map(|v| v.e());
            let dm = enc(matrix.determinant());
            if enc(linear_algebra::determinant::<T>(&matrix)) != dm {
                return inconsistent(701);
            }
            let dt = enc(tensor.determinant());
            let mut forms: Vec<(i64, Option<T>)> = vec![];
            forms.push((702, linear_algebra::determinant_tensor::<T, _, _>(&tensor)));
            forms.push((703, linear_algebra::determinant_tensor::<T, _, _>(tensor.clone())));
            {
                let mut copy = tensor.clone();
                forms.push((704, linear_algebra::determinant_tensor::<T, _, _>(&mut copy)));
            }
            {
                let view = TensorView::from(&tensor);
                forms.push((705, view.determinant()));
                forms.push((706, linear_algebra::determinant_tensor::<T, _, _>(&view)));
                let owned_view = TensorView::from(tensor.clone());
                forms.push((707, owned_view.determinant()));
                forms.push((708, linear_algebra::determinant_tensor::<T, _, _>(owned_view)));
            }
            forms.push((709, transposed.transpose_view([n1, n0]).determinant()));
            forms.push((710, TensorView::from(swapped.index_by([n0, n1])).determinant()));
            match bigger.mask([(n0, IndexRange::new(pr, 1)), (n1, IndexRange::new(pc, 1))]) {
                Ok(v) => forms.push((711, v.determinant())),
                Err(_) => return inconsistent(712),
            }
            match padded.range([(n0, IndexRange::new(1, rows)), (n1, IndexRange::new(1, cols))]) {
                Ok(v) => forms.push((713, v.determinant())),
                Err(_) => return inconsistent(714),
            }
            for (code, f) in forms {
                if enc(f) != dt {
                    return inconsistent(code);
                }
            }
            l(vec![opt(dm), opt(dt)])
        }
        2 => {
            let im = matrix.inverse();
            let mkey = |x: &Option<Matrix<T>>| {
                x.as_ref().map(|m| (m.size(), m.row_major_iter().map(|e| e.e()).collect::<Vec<Sx>>()))
            };
            if mkey(&linear_algebra::inverse::<T>(&matrix)) != mkey(&im) {
                return inconsistent(721);
            }
            let it = tensor.inverse();
            let key = |x: &Option<Tensor<T, 2>>| x.as_ref().map(|t| (t.shape(), tdata(t)));
            let want = key(&it);
            let mut forms: Vec<(i64, Option<Tensor<T, 2>>)> = vec![];
            forms.push((722, linear_algebra::inverse_tensor::<T, _, _>(&tensor)));
            forms.push((723, linear_algebra::inverse_tensor::<T, _, _>(tensor.clone())));
            {
                let mut copy = tensor.clone();
                forms.push((724, linear_algebra::inverse_tensor::<T, _, _>(&mut copy)));
            }
            {
                let view = TensorView::from(&tensor);
                forms.push((725, view.inverse()));
                forms.push((726, linear_algebra::inverse_tensor::<T, _, _>(&view)));
                let owned_view = TensorView::from(tensor.clone());
                forms.push((727, owned_view.inverse()));
                forms.push((728, linear_algebra::inverse_tensor::<T, _, _>(owned_view)));
            }
            forms.push((729, transposed.transpose_view([n1, n0]).inverse()));
            forms.push((730, TensorView::from(swapped.index_by([n0, n1])).inverse()));
            match bigger.mask([(n0, IndexRange::new(pr, 1)), (n1, IndexRange::new(pc, 1))]) {
                Ok(v) => forms.push((731, v.inverse())),
                Err(_) => return inconsistent(732),
            }
            match padded.range([(n0, IndexRange::new(1, rows)), (n1, IndexRange::new(1, cols))]) {
                Ok(v) => forms.push((733, v.inverse())),
                Err(_) => return inconsistent(734),
            }
            for (code, f) in forms {
                if key(&f) != want {
                    return inconsistent(code);
                }
            }
            // present exactly when the determinant is present and non-zero
            let dm = matrix.determinant();
            let dt = tensor.determinant();
            if im.is_some() != dm.as_ref().is_some_and(|d| *d != T::zero()) {
                return inconsistent(740);
            }
            if it.is_some() != dt.as_ref().is_some_and(|d| *d != T::zero()) {
                return inconsistent(741);
            }
            // exact oracle: both products are the identity
            if let (Some(x), true) = (&im, T::FIELD) {
                let identity = mkey(&Some(Matrix::diagonal(T::one(), (rows, rows))));
                if x.size() != (rows, cols)
                    || mkey(&Some(&matrix * x)) != identity
                    || mkey(&Some(x * &matrix)) != identity
                {
                    return inconsistent(742);
                }
            }
            if let (Some(x), true) = (&it, T::FIELD) {
                let identity = Tensor::diagonal([(n0, rows), (n1, rows)], T::one());
                let left = &tensor * x;
                let right = x * &tensor;
                if x.shape() != tensor.shape()
                    || left.shape() != identity.shape()
                    || right.shape() != identity.shape()
                    || tdata(&left) != tdata(&identity)
                    || tdata(&right) != tdata(&identity)
                {
                    return inconsistent(743);
                }
            }
            l(vec![
                opt(im.map(|x| {
                    l(vec![z(x.rows()), z(x.columns()), l(x.row_major_iter().map(|e| e.e()).collect())])
                })),
                opt(it.map(|x| enc_tensor(&x))),
            ])
        }
        _ => bad_case(),
    }
}
