//! C07: determinant and inverse through every entry point.
//!   (7 op ty (n0 n1) rows cols (x ...) (pr pc))      op 1 = determinant, 2 = inverse,
//!   3 = determinant + inverse presence at f64 on small-integer entries (result: exact integer)
//!   ty 0 = Rat, 1 = Fp, 2 = Wrapping<i64> (ring, not a field), 3 = Trace<Rat> (dual numbers;
//!   `==` of Trace compares numbers only, so every comparison here is made on ENCODINGS)
//! Result: (matrix-route tensor-route); see coq/theories/Run/RunC07.v.
//! Matrix forms: Matrix::{determinant, inverse}, linear_algebra::{determinant, inverse}.
//! Tensor forms (all must agree, checked here): Tensor method, linear_algebra::*_tensor on
//! &Tensor / &mut Tensor / owned Tensor, TensorView over &Tensor and over an owned Tensor,
//! a TensorTranspose view of the transposed data, a TensorAccess (index_by) view of the
//! transposed-and-renamed data, a TensorMask view hiding an extra row pr and column pc, and a
//! TensorRange view into a padded tensor.  Exact oracles: A * A^-1 = I = A^-1 * A; the inverse is
//! present exactly when the determinant is present and non-zero.
use crate::num::{Enc, Fp, Rat};
use crate::sx::*;
use easy_ml::differentiation::Trace;
use num_bigint::BigInt;
use num_integer::Integer;
use num_traits::ToPrimitive;
use std::num::Wrapping;
use easy_ml::linear_algebra;
use easy_ml::matrices::Matrix;
use easy_ml::numeric::{Numeric, NumericRef};
use easy_ml::tensors::views::{IndexRange, TensorView};
use easy_ml::tensors::Tensor;

/// Element types of C07 and their encodings (own trait: Enc for Wrapping<i64> belongs to c03.rs).
trait El: Sized + Clone {
    /// exact field: A * A^-1 = I is checked
    const FIELD: bool;
    fn e(&self) -> Sx;
    fn d(s: &Sx) -> Option<Self>;
    fn sm(v: i64) -> Self;
}
impl El for Rat {
    const FIELD: bool = true;
    fn e(&self) -> Sx { self.enc() }
    fn d(s: &Sx) -> Option<Self> { <Rat as Enc>::dec(s) }
    fn sm(v: i64) -> Self { <Rat as Enc>::small(v) }
}
impl El for Fp {
    const FIELD: bool = true;
    fn e(&self) -> Sx { self.enc() }
    fn d(s: &Sx) -> Option<Self> { <Fp as Enc>::dec(s) }
    fn sm(v: i64) -> Self { <Fp as Enc>::small(v) }
}
impl El for Wrapping<i64> {
    const FIELD: bool = false;
    fn e(&self) -> Sx { z(self.0) }
    fn d(s: &Sx) -> Option<Self> {
        let m = s.int()?.mod_floor(&(BigInt::from(1) << 64));
        Some(Wrapping(m.to_u64()? as i64))
    }
    fn sm(v: i64) -> Self { Wrapping(v) }
}
impl El for Trace<Rat> {
    const FIELD: bool = true;
    fn e(&self) -> Sx { l(vec![self.number.enc(), self.derivative.enc()]) }
    fn d(s: &Sx) -> Option<Self> {
        let v = s.list()?;
        if v.len() != 2 {
            return None;
        }
        Some(Trace { number: <Rat as Enc>::dec(&v[0])?, derivative: <Rat as Enc>::dec(&v[1])? })
    }
    fn sm(v: i64) -> Self { Trace::constant(Rat::int(v)) }
}
/// f64 on small-integer inputs (op 3): an integral result is its integer, anything else its bits
impl El for f64 {
    const FIELD: bool = false;
    fn e(&self) -> Sx {
        if self.fract() == 0.0 && self.abs() < 9.0e15 {
            z(*self as i64)
        } else {
            l(vec![z(-77), z(self.to_bits())])
        }
    }
    fn d(s: &Sx) -> Option<Self> { Some(s.i64()? as f64) }
    fn sm(v: i64) -> Self { v as f64 }
}

pub fn run(args: &[Sx]) -> Sx {
    if args.len() != 7 {
        return bad_case();
    }
    let (Some(op), Some(ty), Some(names), Some(rows), Some(cols), Some(pad)) = (
        args[0].i64(),
        args[1].i64(),
        args[2].usizes(),
        args[3].usize(),
        args[4].usize(),
        args[5].list().and(args[6].usizes()),
    ) else {
        return bad_case();
    };
    if names.len() != 2 || pad.len() != 2 || rows == 0 || cols == 0 || names[0] == names[1] {
        return bad_case();
    }
    if rows > 64 || cols > 64 {
        return bad_case();
    }
    let (nm, pd) = ((names[0], names[1]), (pad[0], pad[1]));
    if op == 3 {
        // f64 on small integers: determinant (all forms, bit for bit) and inverse presence
        if ty != 0 || rows > 6 || cols > 6 {
            return bad_case();
        }
        match args[5].i64s() {
            Some(v) if v.iter().all(|x| x.abs() <= 3) => {}
            _ => return bad_case(),
        }
        let det = go::<f64>(1, nm, rows, cols, &args[5], pd);
        let inv = go::<f64>(2, nm, rows, cols, &args[5], pd);
        let (Some(d), Some(i)) = (det.list(), inv.list()) else { return det };
        if d.len() != 2 || d[0].int() == Some(&BigInt::from(-8)) {
            return det;
        }
        if i.len() != 2 || i[0].int() == Some(&BigInt::from(-8)) {
            return inv;
        }
        if d[0] != d[1] {
            return inconsistent(750);
        }
        let present = |x: &Sx| x.list().is_some_and(|v| !v.is_empty());
        if present(&i[0]) != present(&i[1]) {
            return inconsistent(751);
        }
        return l(vec![d[1].clone(), boolean(present(&i[1]))]);
    }
    match ty {
        0 => go::<Rat>(op, nm, rows, cols, &args[5], pd),
        1 => go::<Fp>(op, nm, rows, cols, &args[5], pd),
        2 => go::<Wrapping<i64>>(op, nm, rows, cols, &args[5], pd),
        3 => go::<Trace<Rat>>(op, nm, rows, cols, &args[5], pd),
        _ => bad_case(),
    }
}

fn tdata<T: El>(t: &Tensor<T, 2>) -> Vec<Sx> {
    t.iter().map(|x| x.e()).collect()
}

fn enc_tensor<T: El>(t: &Tensor<T, 2>) -> Sx {
    l(vec![shape_sx(&t.shape()), l(t.iter().map(|x| x.e()).collect())])
}

fn go<T>(op: i64, names: (usize, usize), rows: usize, cols: usize, data: &Sx, pad: (usize, usize)) -> Sx
where
    T: Numeric + El + PartialEq,
    for<'a> &'a T: NumericRef<T>,
{
    let Some(data) = data.list().and_then(|v| v.iter().map(T::d).collect::<Option<Vec<T>>>()) else {
        return bad_case();
    };
    if data.len() != rows * cols {
        return bad_case();
    }
    let (n0, n1) = (dim(names.0), dim(names.1));
    let at = |i: usize, j: usize| data[i * cols + j].clone();
    let junk = |k: usize| T::sm(3 + (k as i64 % 5));

    let matrix = Matrix::from_flat_row_major((rows, cols), data.clone());
    let tensor = Tensor::from([(n0, rows), (n1, cols)], data.clone());
    // transposed data, names in the same order: viewed through TensorTranspose
    let mut tdat = Vec::with_capacity(rows * cols);
    for j in 0..cols {
        for i in 0..rows {
            tdat.push(at(i, j));
        }
    }
    let transposed = Tensor::from([(n0, cols), (n1, rows)], tdat.clone());
    // transposed data, names swapped: viewed through TensorAccess
    let swapped = Tensor::from([(n1, cols), (n0, rows)], tdat);
    // one extra row pr and column pc to be hidden by a mask
    let (pr, pc) = (pad.0 % (rows + 1), pad.1 % (cols + 1));
    let mut bdat = Vec::new();
    for i in 0..rows + 1 {
        for j in 0..cols + 1 {
            if i == pr || j == pc {
                bdat.push(junk(i + 2 * j));
            } else {
                bdat.push(at(i - (i > pr) as usize, j - (j > pc) as usize));
            }
        }
    }
    let bigger = Tensor::from([(n0, rows + 1), (n1, cols + 1)], bdat);
    // one ring of padding to be cut off by a range
    let mut pdat = Vec::new();
    for i in 0..rows + 2 {
        for j in 0..cols + 2 {
            if i == 0 || j == 0 || i == rows + 1 || j == cols + 1 {
                pdat.push(junk(i + 3 * j));
            } else {
                pdat.push(at(i - 1, j - 1));
            }
        }
    }
    let padded = Tensor::from([(n0, rows + 2), (n1, cols + 2)], pdat);

    match op {
        1 => {
            let enc = |x: Option<T>| x.map(|v| v.e());
            let dm = enc(matrix.determinant());
            if enc(linear_algebra::determinant::<T>(&matrix)) != dm {
                return inconsistent(701);
            }
            let dt = enc(tensor.determinant());
            let mut forms: Vec<(i64, Option<T>)> = vec![];
            forms.push((702, linear_algebra::determinant_tensor::<T, _, _>(&tensor)));
            forms.push((703, linear_algebra::determinant_tensor::<T, _, _>(tensor.clone())));
            {
                let mut copy = tensor.clone();
                forms.push((704, linear_algebra::determinant_tensor::<T, _, _>(&mut copy)));
            }
            {
                let view = TensorView::from(&tensor);
                forms.push((705, view.determinant()));
                forms.push((706, linear_algebra::determinant_tensor::<T, _, _>(&view)));
                let owned_view = TensorView::from(tensor.clone());
                forms.push((707, owned_view.determinant()));
                forms.push((708, linear_algebra::determinant_tensor::<T, _, _>(owned_view)));
            }
            forms.push((709, transposed.transpose_view([n1, n0]).determinant()));
            forms.push((710, TensorView::from(swapped.index_by([n0, n1])).determinant()));
            match bigger.mask([(n0, IndexRange::new(pr, 1)), (n1, IndexRange::new(pc, 1))]) {
                Ok(v) => forms.push((711, v.determinant())),
                Err(_) => return inconsistent(712),
            }
            match padded.range([(n0, IndexRange::new(1, rows)), (n1, IndexRange::new(1, cols))]) {
                Ok(v) => forms.push((713, v.determinant())),
                Err(_) => return inconsistent(714),
            }
            for (code, f) in forms {
                if enc(f) != dt {
                    return inconsistent(code);
                }
            }
            l(vec![opt(dm), opt(dt)])
        }
        2 => {
            let im = matrix.inverse();
            let mkey = |x: &Option<Matrix<T>>| {
                x.as_ref().map(|m| (m.size(), m.row_major_iter().map(|e| e.e()).collect::<Vec<Sx>>()))
            };
            if mkey(&linear_algebra::inverse::<T>(&matrix)) != mkey(&im) {
                return inconsistent(721);
            }
            let it = tensor.inverse();
            let key = |x: &Option<Tensor<T, 2>>| x.as_ref().map(|t| (t.shape(), tdata(t)));
            let want = key(&it);
            let mut forms: Vec<(i64, Option<Tensor<T, 2>>)> = vec![];
            forms.push((722, linear_algebra::inverse_tensor::<T, _, _>(&tensor)));
            forms.push((723, linear_algebra::inverse_tensor::<T, _, _>(tensor.clone())));
            {
                let mut copy = tensor.clone();
                forms.push((724, linear_algebra::inverse_tensor::<T, _, _>(&mut copy)));
            }
            {
                let view = TensorView::from(&tensor);
                forms.push((725, view.inverse()));
                forms.push((726, linear_algebra::inverse_tensor::<T, _, _>(&view)));
                let owned_view = TensorView::from(tensor.clone());
                forms.push((727, owned_view.inverse()));
                forms.push((728, linear_algebra::inverse_tensor::<T, _, _>(owned_view)));
            }
            forms.push((729, transposed.transpose_view([n1, n0]).inverse()));
            forms.push((730, TensorView::from(swapped.index_by([n0, n1])).inverse()));
            match bigger.mask([(n0, IndexRange::new(pr, 1)), (n1, IndexRange::new(pc, 1))]) {
                Ok(v) => forms.push((731, v.inverse())),
                Err(_) => return inconsistent(732),
            }
            match padded.range([(n0, IndexRange::new(1, rows)), (n1, IndexRange::new(1, cols))]) {
                Ok(v) => forms.push((733, v.inverse())),
                Err(_) => return inconsistent(734),
            }
            for (code, f) in forms {
                if key(&f) != want {
                    return inconsistent(code);
                }
            }
            // present exactly when the determinant is present and non-zero
            let dm = matrix.determinant();
            let dt = tensor.determinant();
            if im.is_some() != dm.as_ref().is_some_and(|d| *d != T::zero()) {
                return inconsistent(740);
            }
            if it.is_some() != dt.as_ref().is_some_and(|d| *d != T::zero()) {
                return inconsistent(741);
            }
            // exact oracle: both products are the identity
            if let (Some(x), true) = (&im, T::FIELD) {
                let identity = mkey(&Some(Matrix::diagonal(T::one(), (rows, rows))));
                if x.size() != (rows, cols)
                    || mkey(&Some(&matrix * x)) != identity
                    || mkey(&Some(x * &matrix)) != identity
                {
                    return inconsistent(742);
                }
            }
            if let (Some(x), true) = (&it, T::FIELD) {
                let identity = Tensor::diagonal([(n0, rows), (n1, rows)], T::one());
                let left = &tensor * x;
                let right = x * &tensor;
                if x.shape() != tensor.shape()
                    || left.shape() != identity.shape()
                    || right.shape() != identity.shape()
                    || tdata(&left) != tdata(&identity)
                    || tdata(&right) != tdata(&identity)
                {
                    return inconsistent(743);
                }
            }
            l(vec![
                opt(im.map(|x| {
                    l(vec![z(x.rows()), z(x.columns()), l(x.row_major_iter().map(|e| e.e()).collect())])
                })),
                opt(it.map(|x| enc_tensor(&x))),
            ])
        }
        _ => bad_case(),
    }
}
