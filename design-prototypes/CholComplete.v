(* Design-time prototype: the mathematical core of Cholesky COMPLETENESS (C08).
   If the leading block has been factored as L L^T with L invertible, the next row's off-diagonal
   part l solves L l = c (c = the new column of A), and the bordered matrix
        A' = [ L L^T   c ]
             [ c^T     a ]
   is positive definite, then the next pivot  a - l^T l  is positive, so the row-by-row algorithm
   never takes its `<= 0 -> None` exit on a symmetric positive definite input. *)
From mathcomp Require Import all_ssreflect all_algebra.
Set Implicit Arguments. Unset Strict Implicit. Unset Printing Implicit Defensive.
Import GRing.Theory Num.Theory.
Local Open Scope ring_scope.

Section Pivot.
Variable F : realFieldType.
Variable n : nat.
Variable L : 'M[F]_n.
Variable l : 'cV[F]_n.
Variable a : F.
Hypothesis Lunit : L \in unitmx.

Definition A' : 'M[F]_(n + 1) :=
  block_mx (L *m L^T) (L *m l) ((L *m l)^T) (a%:M).

Definition posdef m (B : 'M[F]_m) := forall x : 'cV[F]_m, x != 0 -> 0 < (x^T *m B *m x) 0 0.

Theorem next_pivot_positive : posdef A' -> 0 < a - (l^T *m l) 0 0.
Proof.
  move=> pd.
  have [y Ly] : exists y : 'cV[F]_n, L^T *m y = l.
  { exists (invmx (L^T) *m l). by rewrite mulKVmx // unitmx_tr. }
  have yL : y^T *m L = l^T by rewrite -Ly trmx_mul trmxK.
  pose x : 'cV[F]_(n + 1) := col_mx (- y) (1%:M : 'M_1).
  have xn0 : x != 0.
  { apply/eqP => x0. have : dsubmx x = 0 by rewrite x0 linear0.
    rewrite /x col_mxKd => /matrixP /(_ ord0 ord0). rewrite !mxE eqxx /=.
    by move/eqP; rewrite oner_eq0. }
  have := pd x xn0.
  have -> : (x^T *m A' *m x) 0 0 = a - (l^T *m l) 0 0; last by [].
  rewrite /x /A' tr_col_mx mul_row_block mul_row_col.
  have E1 : (- y)^T *m (L *m L^T) + (1%:M)^T *m (L *m l)^T = 0.
  { by rewrite linearN /= mulNmx mulmxA yL trmx1 mul1mx trmx_mul addNr. }
  have E2 : (- y)^T *m (L *m l) + (1%:M)^T *m a%:M = a%:M - l^T *m l.
  { by rewrite linearN /= mulNmx mulmxA yL trmx1 mul1mx addrC. }
  by rewrite E1 E2 mul0mx add0r mulmx1 !mxE eqxx mulr1n.
Qed.
End Pivot.
