(* Design-time prototype: soundness of the row-by-row Cholesky of linear_algebra.rs.
   If the algorithm returns L then L is lower triangular with positive diagonal and
   (L L^T)[i][j] = A[i][j] on the lower triangle (hence everywhere for symmetric A).
   Stated over Coq's reals here; the real development abstracts R to an ordered field with a
   sqrt oracle satisfying the two facts used (sqrt_sqrt, sqrt_lt_R0). *)
From Coq Require Import List Arith Lia Reals Lra.
Import ListNotations.
Open Scope R_scope.

Definition entry (L : list (list R)) (i k : nat) : R := nth k (nth i L []) 0.

(* sum_{k<j} u[k] * v[k] *)
Fixpoint dot (u v : list R) (j : nat) : R :=
  match j with O => 0 | S j' => dot u v j' + nth j' u 0 * nth j' v 0 end.

(* entries j, j+1, ..., i of row i, given the previous rows L (rows 0..i-1) and the entries
   cur = row i's entries 0..j-1; fuel = i + 1 - j *)
Fixpoint row_from (a : nat -> nat -> R) (L : list (list R)) (i : nat) (cur : list R) (fuel : nat)
  : option (list R) :=
  match fuel with
  | O => Some cur
  | S f =>
      let j := length cur in
      if Nat.eqb j i then
        let e := a i i - dot cur cur j in
        if Rle_dec e 0 then None else row_from a L i (cur ++ [sqrt e]) f
      else
        let x := (a i j - dot cur (nth j L []) j) * (1 / entry L j j) in
        row_from a L i (cur ++ [x]) f
  end.

Fixpoint rows_from (a : nat -> nat -> R) (L : list (list R)) (fuel : nat) : option (list (list R)) :=
  match fuel with
  | O => Some L
  | S f => match row_from a L (length L) [] (S (length L)) with
           | Some row => rows_from a (L ++ [row]) f
           | None => None
           end
  end.

Definition chol (a : nat -> nat -> R) (n : nat) := rows_from a [] n.

(* what is true of a finished row i relative to the rows before it *)
Definition row_ok (a : nat -> nat -> R) (L : list (list R)) (i : nat) (row : list R) : Prop :=
  length row = S i /\ 0 < nth i row 0 /\
  (forall j, (j < i)%nat -> dot row (nth j L []) (S j) = a i j) /\
  dot row row (S i) = a i i.

Definition rows_ok (a : nat -> nat -> R) (L : list (list R)) : Prop :=
  forall i, (i < length L)%nat -> row_ok a (firstn i L) i (nth i L []).

Lemma dot_app_l u u' v j : (j <= length u)%nat -> dot (u ++ u') v j = dot u v j.
Proof.
  induction j; intros H; simpl; auto. rewrite IHj by lia. rewrite app_nth1 by lia. reflexivity.
Qed.
Lemma dot_app_r u v v' j : (j <= length v)%nat -> dot u (v ++ v') j = dot u v j.
Proof.
  induction j; intros H; simpl; auto. rewrite IHj by lia. rewrite app_nth1 by lia. reflexivity.
Qed.

(* invariant of the partial row *)
Definition partial_ok a L i (cur : list R) : Prop :=
  (length cur <= S i)%nat /\
  (forall j, (j < length cur)%nat -> (j < i)%nat -> dot cur (nth j L []) (S j) = a i j) /\
  ((length cur = S i)%nat -> 0 < nth i cur 0 /\ dot cur cur (S i) = a i i).

Lemma row_from_sound a L i : length L = i ->
  (forall j, (j < i)%nat -> length (nth j L []) = S j /\ 0 < entry L j j) ->
  forall fuel cur row, (length cur + fuel = S i)%nat -> partial_ok a L i cur ->
  row_from a L i cur fuel = Some row -> row_ok a L i row.
Proof.
  intros HL Hprev. induction fuel as [|f IH]; intros cur row Hlen [Hc1 [Hc2 Hc3]] Hrun.
  - simpl in Hrun. injection Hrun as <-. assert (length cur = S i) by lia.
    destruct (Hc3 H) as [Hp Hd]. split; [auto|]. split; [auto|]. split; [|auto].
    intros j Hj. apply Hc2; lia.
  - cbn [row_from] in Hrun.
    destruct (Nat.eqb_spec (length cur) i) as [Hji|Hji].
    + rewrite Hji in Hrun.
      destruct (Rle_dec (a i i - dot cur cur i) 0) as [|Hpos]; [discriminate|].
      assert (He : 0 < a i i - dot cur cur i) by lra.
      refine (IH _ _ _ _ Hrun); [rewrite app_length; simpl; lia|].
      split; [rewrite app_length; simpl; lia|]. split.
      * intros j' Hj' Hj'i. rewrite app_length in Hj'. simpl in Hj'.
        rewrite dot_app_l by lia. apply Hc2; lia.
      * intros _. rewrite app_nth2 by lia. rewrite Hji, Nat.sub_diag. cbn [nth].
        split; [apply sqrt_lt_R0; exact He|].
        cbn [dot]. rewrite dot_app_l by lia.
        rewrite (dot_app_r cur cur) by lia.
        rewrite app_nth2 by lia. rewrite Hji, Nat.sub_diag. cbn [nth].
        rewrite sqrt_sqrt by lra. lra.
    + assert (Hjlt : (length cur < i)%nat) by lia.
      destruct (Hprev _ Hjlt) as [Hlenj Hposj].
      refine (IH _ _ _ _ Hrun); [rewrite app_length; simpl; lia|].
      split; [rewrite app_length; simpl; lia|]. split.
      * intros j' Hj' Hj'i. rewrite app_length in Hj'. simpl in Hj'.
        destruct (Nat.eq_dec j' (length cur)) as [->|Hne].
        -- cbn [dot]. rewrite dot_app_l by lia.
           rewrite app_nth2 by lia. rewrite Nat.sub_diag. cbn [nth].
           unfold entry in *. field_simplify_eq; [ring|lra].
        -- rewrite dot_app_l by lia. apply Hc2; lia.
      * intros Hfull. rewrite app_length in Hfull. simpl in Hfull. lia.
Qed.

Lemma rows_from_sound a : forall fuel L Lfinal, rows_ok a L ->
  rows_from a L fuel = Some Lfinal -> rows_ok a Lfinal /\ length Lfinal = (length L + fuel)%nat.
Proof.
  induction fuel as [|f IH]; intros L Lf Hok Hrun.
  - simpl in Hrun. injection Hrun as <-. split; [auto|lia].
  - cbn [rows_from] in Hrun.
    destruct (row_from a L (length L) [] (S (length L))) as [row|] eqn:Hrow; [|discriminate].
    assert (Hrowok : row_ok a L (length L) row).
    { assert (Hprev : forall j, (j < length L)%nat ->
                length (nth j L []) = S j /\ 0 < entry L j j).
      { intros j Hj. destruct (Hok j Hj) as [H1 [H2 _]]. split; [auto|]. unfold entry. exact H2. }
      assert (Hinit : partial_ok a L (length L) []).
      { split; [simpl; lia|]. split; simpl; intros; lia. }
      exact (row_from_sound a L (length L) eq_refl Hprev (S (length L)) [] row
               ltac:(simpl; lia) Hinit Hrow). }
    apply IH in Hrun.
    + destruct Hrun as [H1 H2]. split; [auto|]. rewrite app_length in H2. simpl in H2. lia.
    + intros i Hi. rewrite app_length in Hi. simpl in Hi.
      destruct (Nat.eq_dec i (length L)) as [->|Hne].
      * rewrite firstn_app, firstn_all, Nat.sub_diag. simpl. rewrite app_nil_r.
        rewrite app_nth2, Nat.sub_diag by lia. exact Hrowok.
      * rewrite firstn_app. replace (i - length L)%nat with 0%nat by lia. simpl. rewrite app_nil_r.
        rewrite app_nth1 by lia. apply Hok. lia.
Qed.

(* Soundness: a returned factor satisfies the defining identities *)
Theorem chol_sound a n L : chol a n = Some L ->
  length L = n /\
  forall i, (i < n)%nat ->
    length (nth i L []) = S i /\            (* lower triangular: row i has i+1 stored entries *)
    0 < entry L i i /\                      (* positive diagonal *)
    (forall j, (j <= i)%nat ->              (* (L L^T)[i][j] = A[i][j] on the lower triangle *)
       dot (nth i L []) (nth j L []) (S j) = a i j).
Proof.
  intros H. apply rows_from_sound in H; [|intros i Hi; simpl in Hi; lia].
  destruct H as [Hok Hlen]. simpl in Hlen. split; [auto|].
  intros i Hi. destruct (Hok i ltac:(lia)) as [H1 [H2 [H3 H4]]].
  split; [auto|]. split; [exact H2|].
  intros j Hj. destruct (Nat.eq_dec j i) as [->|Hne]; [exact H4|].
  specialize (H3 j ltac:(lia)).
  assert (nth j (firstn i L) [] = nth j L []) as <-; [|exact H3].
  rewrite <- (firstn_skipn i L) at 2. rewrite app_nth1; [reflexivity|].
  rewrite firstn_length. lia.
Qed.
Print Assumptions chol_sound.
