(* Design-time prototype: DimensionMappings::new accepts exactly the permutations of the source
   names and its two tables are the position tables of one name list in the other. *)
From Coq Require Import List Arith Lia Bool Permutation.
Import ListNotations.

Fixpoint index_of (n : nat) (l : list nat) : option nat :=
  match l with
  | [] => None
  | x :: r => if Nat.eqb x n then Some 0 else option_map S (index_of n r)
  end.

Fixpoint sequence {A} (l : list (option A)) : option (list A) :=
  match l with
  | [] => Some []
  | None :: _ => None
  | Some x :: r => option_map (cons x) (sequence r)
  end.

(* one iteration of the loop of DimensionMappings::new for position d *)
Definition dm_step (src req : list nat) (d : nat) : option (nat * nat) :=
  let dimension := nth d src 0 in
  if Nat.eqb (nth d req 0) dimension then Some (d, d)
  else match index_of dimension req, index_of (nth d req 0) src with
       | Some a, Some b => Some (a, b)
       | _, _ => None
       end.

Definition dm_new (src req : list nat) : option (list (nat * nat)) :=
  sequence (map (dm_step src req) (seq 0 (length src))).

Lemma index_of_Some n l i : index_of n l = Some i -> i < length l /\ nth i l 0 = n.
Proof.
  revert i; induction l as [|x l IH]; intros i; simpl; [discriminate|].
  destruct (Nat.eqb_spec x n).
  - intros [= <-]. split; [lia|auto].
  - destruct (index_of n l) as [j|]; simpl; [|discriminate].
    intros [= <-]. destruct (IH j eq_refl). split; [lia|auto].
Qed.

Lemma index_of_None n l : index_of n l = None <-> ~ In n l.
Proof.
  induction l as [|x l IH]; simpl; [tauto|].
  destruct (Nat.eqb_spec x n).
  - split; [discriminate|]. intros H; exfalso; apply H; auto.
  - destruct (index_of n l) as [j|]; simpl.
    + split; [discriminate|]. intros H. exfalso.
      assert (Hin : ~ In n l) by tauto. apply IH in Hin. discriminate.
    + split; auto. intros _ [H|H]; [contradiction|]. apply IH in H; auto.
Qed.

Lemma index_of_In n l : In n l -> exists i, index_of n l = Some i.
Proof.
  intros H. destruct (index_of n l) eqn:E; [eauto|]. apply index_of_None in E. contradiction.
Qed.

(* with NoDup, the first occurrence of l[d] is d *)
Lemma index_of_nth_NoDup l d : NoDup l -> d < length l -> index_of (nth d l 0) l = Some d.
Proof.
  revert d; induction l as [|x l IH]; intros d Hnd Hd; simpl in *; [lia|].
  inversion Hnd as [|? ? Hx Hnd']; subst.
  destruct d.
  - rewrite Nat.eqb_refl. reflexivity.
  - destruct (Nat.eqb_spec x (nth d l 0)) as [->|_].
    + exfalso. apply Hx. apply nth_In. lia.
    + rewrite IH by (auto; lia). reflexivity.
Qed.

Lemma sequence_Some {A} (l : list (option A)) r :
  sequence l = Some r <-> l = map Some r.
Proof.
  revert r; induction l as [|[x|] l IH]; intros r; simpl.
  - split; [intros [= <-]; reflexivity|]. destruct r; [reflexivity|discriminate].
  - destruct (sequence l) as [r'|] eqn:E; simpl.
    + split.
      * intros [= <-]. simpl. f_equal. apply IH. reflexivity.
      * destruct r as [|y r]; [discriminate|]. simpl. intros [= -> H]. f_equal. f_equal.
        apply IH in H. congruence.
    + split; [discriminate|]. destruct r as [|y r]; [discriminate|]. simpl. intros [= -> H].
      apply IH in H. discriminate.
  - split; [discriminate|]. destruct r; discriminate.
Qed.

Lemma sequence_None_iff {A} (l : list (option A)) : sequence l = None <-> In None l.
Proof.
  induction l as [|[x|] l IH]; simpl.
  - split; [discriminate|tauto].
  - destruct (sequence l); simpl.
    + split; [discriminate|]. intros [H|H]; [discriminate|]. apply IH in H. discriminate.
    + split; auto. intros _. right. apply IH. reflexivity.
  - split; auto.
Qed.

(* acceptance: exactly the permutations *)
Theorem dm_new_iff_perm src req : NoDup src -> length req = length src ->
  (dm_new src req <> None <-> Permutation src req).
Proof.
  intros Hnd Hlen. unfold dm_new. split.
  - intros Hsome.
    apply NoDup_Permutation_bis; auto; [lia|].
    intros n Hn. destruct (In_nth _ _ 0 Hn) as [d [Hd Hdn]].
    destruct (in_dec Nat.eq_dec n req) as [|Hnot]; auto.
    exfalso. apply Hsome. apply sequence_None_iff. apply in_map_iff.
    exists d. split; [|apply in_seq; lia].
    unfold dm_step. cbv zeta. rewrite Hdn.
    destruct (Nat.eqb_spec (nth d req 0) n) as [E|_].
    + exfalso. apply Hnot. rewrite <- E. apply nth_In. lia.
    + apply index_of_None in Hnot. rewrite Hnot. reflexivity.
  - intros Hperm Hnone. apply sequence_None_iff in Hnone. apply in_map_iff in Hnone.
    destruct Hnone as [d [Hstep Hd]]. apply in_seq in Hd. unfold dm_step in Hstep. cbv zeta in Hstep.
    destruct (Nat.eqb (nth d req 0) (nth d src 0)); [discriminate|].
    assert (In (nth d src 0) req) as H1 by (eapply Permutation_in; eauto; apply nth_In; lia).
    assert (In (nth d req 0) src) as H2
      by (eapply Permutation_in; [apply Permutation_sym; eauto|]; apply nth_In; lia).
    destruct (index_of_In _ _ H1) as [a Ha]. destruct (index_of_In _ _ H2) as [b Hb].
    rewrite Ha, Hb in Hstep. discriminate.
Qed.

(* the tables: source_to_requested[d] is the position of src[d] in req,
               requested_to_source[d] is the position of req[d] in src *)
Theorem dm_new_tables src req tbl : NoDup src -> length req = length src ->
  dm_new src req = Some tbl ->
  forall d, d < length src ->
    index_of (nth d src 0) req = Some (fst (nth d tbl (0,0))) /\
    index_of (nth d req 0) src = Some (snd (nth d tbl (0,0))).
Proof.
  intros Hnd Hlen Hnew d Hd.
  assert (Hperm : Permutation src req)
    by (apply dm_new_iff_perm; auto; rewrite Hnew; discriminate).
  assert (Hnd' : NoDup req) by (eapply Permutation_NoDup; eauto).
  unfold dm_new in Hnew. apply sequence_Some in Hnew.
  assert (Hd' : nth d (map (dm_step src req) (seq 0 (length src))) None = Some (nth d tbl (0,0))).
  { rewrite Hnew. rewrite nth_indep with (d' := Some (0,0)).
    - apply (map_nth Some).
    - rewrite map_length. apply (f_equal (@length _)) in Hnew.
      rewrite !map_length, seq_length in Hnew. lia. }
  rewrite nth_indep with (d' := dm_step src req 0) in Hd'
    by (rewrite map_length, seq_length; lia).
  rewrite map_nth, seq_nth in Hd' by lia. simpl in Hd'.
  unfold dm_step in Hd'. cbv zeta in Hd'.
  destruct (Nat.eqb_spec (nth d req 0) (nth d src 0)) as [E|NE].
  - injection Hd' as <-. simpl. split.
    + rewrite <- E. apply index_of_nth_NoDup; auto; lia.
    + rewrite E. apply index_of_nth_NoDup; auto.
  - destruct (index_of (nth d src 0) req) as [a|]; [|discriminate].
    destruct (index_of (nth d req 0) src) as [b|]; [|discriminate].
    injection Hd' as <-. simpl. auto.
Qed.
Print Assumptions dm_new_tables.
