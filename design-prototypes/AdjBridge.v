(* Design-time prototype: the mathcomp side of C07's inverse.  With rows AND columns kept as
   lists, Laplace expansion equals \det of the selected submatrix, deleting list positions is
   row'/col', so the model's "sign * minor, transposed, scaled by 1/det" is mathcomp's invmx:
   both products with the input are the identity exactly when the determinant is non-zero. *)
From mathcomp Require Import all_ssreflect all_algebra zify.
Set Implicit Arguments. Unset Strict Implicit. Unset Printing Implicit Defensive.
Import GRing.Theory.

Section Bridge.
Variable F : fieldType.
Variable M : nat -> nat -> F.

Definition del (T : Type) (i : nat) (s : seq T) := take i s ++ drop i.+1 s.

Lemma size_del (T : Type) i (s : seq T) : i < size s -> size (del i s) = (size s).-1.
Proof. move=> lt. rewrite /del size_cat size_take size_drop lt. lia. Qed.

Lemma nth_del (T : Type) (x0 : T) i (s : seq T) k :
  nth x0 (del i s) k = nth x0 s (bump i k).
Proof.
  rewrite /del nth_cat size_take /bump.
  have [Hi|Hi] := ltnP i (size s).
  - have [Hk|Hk] := ltnP k i.
    + by rewrite nth_take // add0n.
    + rewrite nth_drop add1n. congr (nth _ _ _). lia.
  - rewrite drop_oversize; last by lia.
    have [Hk|Hk] := ltnP k (size s).
    + rewrite nth_take; last by lia. have -> : (i <= k) = false by lia. by rewrite add0n.
    + rewrite nth_nil nth_default //. lia.
Qed.

Local Open Scope ring_scope.

(* the selected submatrix *)
Definition sub2 (n : nat) (rows cols : seq nat) : 'M[F]_n :=
  \matrix_(i, j) M (nth 0%N rows i) (nth 0%N cols j).

(* Laplace expansion along the first remaining row *)
Fixpoint detc2 (fuel : nat) (rows cols : seq nat) : F :=
  match fuel with
  | 0 => 1
  | f.+1 => \sum_(j < size cols)
              (-1) ^+ j * M (head 0%N rows) (nth 0%N cols j) * detc2 f (behead rows) (del j cols)
  end.

Lemma minor_sub2 n (rows cols : seq nat) (i j : 'I_n.+1) :
  row' i (col' j (sub2 n.+1 rows cols)) = sub2 n (del i rows) (del j cols).
Proof. apply/matrixP => a b. by rewrite !mxE !nth_del. Qed.

Lemma detc2_det n rows cols : size rows = n -> size cols = n ->
  detc2 n rows cols = \det (sub2 n rows cols).
Proof.
  elim: n rows cols => [|n IH] rows cols Hr Hc.
  - by rewrite /= det_mx00.
  - rewrite /= (expand_det_row _ ord0) Hc. apply: eq_bigr => j _.
    rewrite /cofactor mxE add0n -mulrA mulrCA.
    have -> : nth 0%N rows (@ord0 n) = head 0%N rows by case: rows Hr.
    congr (_ * (_ * _)).
    rewrite minor_sub2 IH //; last by rewrite size_del ?Hc.
    + congr (\det (sub2 _ _ _)). by case: rows Hr => //= a l _; rewrite /del /= drop0.
    + by case: rows Hr => //= a l [].
Qed.

(* the model's inverse entry: cofactor with swapped indexes, scaled by 1/det *)
Definition inv_entry (n : nat) (rows cols : seq nat) (i j : nat) : F :=
  (detc2 n.+1 rows cols)^-1 * ((-1) ^+ (j + i) * detc2 n (del j rows) (del i cols)).

Theorem inverse_correct n rows cols : size rows = n.+1 -> size cols = n.+1 ->
  detc2 n.+1 rows cols != 0 ->
  let A := sub2 n.+1 rows cols in
  let X : 'M[F]_n.+1 := \matrix_(i, j) inv_entry n rows cols i j in
  A *m X = 1%:M /\ X *m A = 1%:M.
Proof.
  move=> Hr Hc Hd A X.
  have HdA : \det A != 0 by rewrite -detc2_det.
  have HA : A \in unitmx by rewrite unitmxE unitfE.
  have -> : X = invmx A.
  { rewrite /invmx HA. apply/matrixP => i j. rewrite !mxE /inv_entry.
    rewrite detc2_det // /cofactor minor_sub2.
    rewrite detc2_det ?size_del ?Hr ?Hc //. }
  by rewrite mulmxV // mulVmx.
Qed.
End Bridge.
