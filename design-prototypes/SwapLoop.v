(* Design-time prototype: the in-place branch of Tensor::reorder_mut / transpose_mut for square
   2-D tensors.  The loop visits every index (i, j) of the n x n shape in row-major order and,
   when j >= i, exchanges the elements at (i, j) and (j, i).  Result: the transposed data, for
   every n.  Proved through a general lemma about folding pairwise-disjoint position swaps. *)
From Coq Require Import List Arith Lia Bool ZArith.
Import ListNotations.

Section Swap.
Variable A : Type.
Variable d : A.

(* exchange the elements at positions p and q (what the three assignments through `temp` do) *)
Definition swap (l : list A) (p q : nat) : list A :=
  map (fun k => if Nat.eqb k p then nth q l d else if Nat.eqb k q then nth p l d else nth k l d)
      (seq 0 (length l)).

Lemma swap_length l p q : length (swap l p q) = length l.
Proof. unfold swap. rewrite map_length, seq_length. reflexivity. Qed.

Lemma nth_map_seq (f : nat -> A) n k : k < n -> nth k (map f (seq 0 n)) d = f k.
Proof.
  intros H. rewrite nth_indep with (d' := f 0) by (rewrite map_length, seq_length; lia).
  rewrite map_nth, seq_nth by lia. reflexivity.
Qed.

Lemma nth_swap l p q k : k < length l ->
  nth k (swap l p q) d =
  if Nat.eqb k p then nth q l d else if Nat.eqb k q then nth p l d else nth k l d.
Proof. intros H. unfold swap. rewrite nth_map_seq by lia. reflexivity. Qed.

Definition run (l : list A) (sw : list (nat * nat)) : list A :=
  fold_left (fun l '(p, q) => swap l p q) sw l.

Lemma run_length sw : forall l, length (run l sw) = length l.
Proof.
  induction sw as [|[p q] sw IH]; intros l; [reflexivity|]. cbn [run fold_left].
  change (length (run (swap l p q) sw) = length l). rewrite IH, swap_length. reflexivity.
Qed.

(* positions touched by a list of swaps *)
Definition touched (sw : list (nat * nat)) (k : nat) : Prop :=
  exists p q, In (p, q) sw /\ (k = p \/ k = q).

(* pairwise disjoint: no position occurs in two different swaps of the list *)
Fixpoint disjoint (sw : list (nat * nat)) : Prop :=
  match sw with
  | [] => True
  | (p, q) :: rest => (~ touched rest p) /\ (~ touched rest q) /\ disjoint rest
  end.

Lemma run_untouched sw : forall l k, k < length l -> ~ touched sw k -> nth k (run l sw) d = nth k l d.
Proof.
  induction sw as [|[p q] sw IH]; intros l k Hk Hnt; [reflexivity|].
  cbn [run fold_left]. change (nth k (run (swap l p q) sw) d = nth k l d).
  rewrite IH.
  - rewrite nth_swap by lia.
    destruct (Nat.eqb_spec k p) as [->|]; [exfalso; apply Hnt; exists p, q; split; [left|]; auto|].
    destruct (Nat.eqb_spec k q) as [->|]; [exfalso; apply Hnt; exists p, q; split; [left|]; auto|].
    reflexivity.
  - rewrite swap_length. lia.
  - intros [p' [q' [Hin Hor]]]. apply Hnt. exists p', q'. split; [right|]; auto.
Qed.

(* after folding pairwise-disjoint in-range swaps every pair has been exchanged exactly once *)
Lemma run_swapped sw : forall l, disjoint sw ->
  (forall p q, In (p, q) sw -> p < length l /\ q < length l) ->
  forall p q, In (p, q) sw ->
    nth p (run l sw) d = nth q l d /\ nth q (run l sw) d = nth p l d.
Proof.
  induction sw as [|[p0 q0] sw IH]; intros l Hd Hb p q Hin; [destruct Hin|].
  destruct Hd as [Hp0 [Hq0 Hd]].
  assert (Hb0 : p0 < length l /\ q0 < length l) by (apply Hb; left; auto).
  cbn [run fold_left]. change (fold_left _ sw (swap l p0 q0)) with (run (swap l p0 q0) sw).
  destruct Hin as [Heq|Hin].
  - injection Heq as <- <-.
    rewrite !run_untouched by (rewrite ?swap_length; tauto).
    rewrite !nth_swap by tauto. rewrite !Nat.eqb_refl.
    destruct (Nat.eqb_spec q0 p0) as [->|]; auto.
  - assert (Htp : touched sw p) by (exists p, q; auto).
    assert (Htq : touched sw q) by (exists p, q; auto).
    assert (Hpq : p <> p0 /\ p <> q0 /\ q <> p0 /\ q <> q0)
      by (repeat split; intros E; subst; contradiction).
    destruct (IH (swap l p0 q0) Hd) with (p := p) (q := q) as [H1 H2]; auto.
    { intros p' q' Hin'. rewrite swap_length. apply Hb. right; auto. }
    assert (Hbpq : p < length l /\ q < length l) by (apply Hb; right; auto).
    rewrite H1, H2. rewrite !nth_swap by tauto.
    destruct Hpq as [A1 [A2 [A3 A4]]].
    destruct (Nat.eqb_spec q p0), (Nat.eqb_spec q q0), (Nat.eqb_spec p p0), (Nat.eqb_spec p q0);
      try contradiction; auto.
Qed.

(* a convenient sufficient condition for pairwise disjointness *)
Lemma disjoint_by_key (key : nat -> nat) sw :
  (forall p q, In (p, q) sw -> key p = p /\ key q = p) -> NoDup (map fst sw) -> disjoint sw.
Proof.
  induction sw as [|[p q] sw IH]; intros Hk Hnd; [exact I|].
  cbn [map fst] in Hnd. inversion Hnd as [|? ? Hnotin Hnd']; subst.
  destruct (Hk p q (or_introl eq_refl)) as [Kp Kq].
  assert (Hrest : forall k, touched sw k -> key k <> p).
  { intros k [p' [q' [Hin Hor]]] E. apply Hnotin.
    destruct (Hk p' q' (or_intror Hin)) as [Kp' Kq'].
    apply in_map_iff. exists (p', q'). split; [|exact Hin]. cbn.
    destruct Hor as [->| ->]; congruence. }
  split; [intros H; apply (Hrest p H); exact Kp|].
  split; [intros H; apply (Hrest q H); exact Kq|].
  apply IH; [intros; apply Hk; right; auto|exact Hnd'].
Qed.
End Swap.

(* ---- the transposition loop ---- *)
Ltac Zify.zify_post_hook ::= Z.div_mod_to_equations.

Definition tr (n k : nat) : nat := (k mod n) * n + k / n.
Definition upper (n k : nat) : bool := Nat.leb (k / n) (k mod n).
(* the swaps performed, in loop order: for each row-major position k = i*n + j with j >= i *)
Definition swaps (n : nat) : list (nat * nat) :=
  map (fun k => (k, tr n k)) (filter (upper n) (seq 0 (n * n))).

Lemma tr_facts n k : k < n * n -> tr n k < n * n /\ tr n k / n = k mod n /\ tr n k mod n = k / n.
Proof.
  intros Hk. assert (Hn : 0 < n) by nia. unfold tr.
  assert (Hm : k mod n < n) by (apply Nat.mod_upper_bound; lia).
  assert (Hd : k / n < n) by (apply Nat.div_lt_upper_bound; lia).
  split; [nia|]. split.
  - rewrite Nat.div_add_l by lia. rewrite Nat.div_small by lia. lia.
  - rewrite Nat.add_comm, Nat.mod_add by lia. apply Nat.mod_small. lia.
Qed.

Lemma tr_invol n k : k < n * n -> tr n (tr n k) = k.
Proof.
  intros Hk. destruct (tr_facts n k Hk) as [_ [Hd Hm]]. unfold tr at 1. rewrite Hd, Hm.
  assert (Hn : n <> 0) by nia. rewrite Nat.mul_comm. symmetry. rewrite Nat.add_comm. 
  rewrite (Nat.div_mod k n Hn) at 1. lia.
Qed.

Theorem transpose_loop A (d : A) n (data : list A) : length data = n * n ->
  forall k, k < n * n -> nth k (run A d data (swaps n)) d = nth (tr n k) data d.
Proof.
  intros Hlen k Hk.
  set (key := fun k => if upper n k then k else tr n k).
  assert (Hin : forall p q, In (p, q) (swaps n) -> p < n * n /\ upper n p = true /\ q = tr n p).
  { intros p q H. unfold swaps in H. apply in_map_iff in H as [k' [E H]]. injection E as <- <-.
    apply filter_In in H as [H1 H2]. apply in_seq in H1. repeat split; auto; lia. }
  assert (Hdis : disjoint (swaps n)).
  { apply (disjoint_by_key key).
    - intros p q H. destruct (Hin p q H) as [Hp [Hu ->]]. unfold key. rewrite Hu. split; [reflexivity|].
      destruct (tr_facts n p Hp) as [_ [Hd Hm]].
      unfold upper in *. rewrite Hd, Hm.
      destruct (Nat.leb_spec (p mod n) (p / n)).
      + (* diagonal *) apply Nat.leb_le in Hu. unfold tr.
        assert (p / n = p mod n) by lia.
        assert (Hn : n <> 0) by nia. rewrite (Nat.div_mod p n Hn) at 3. lia.
      + apply tr_invol; auto.
    - unfold swaps. rewrite map_map. cbn [fst]. rewrite map_id.
      apply NoDup_filter, seq_NoDup. }
  assert (Hb : forall p q, In (p, q) (swaps n) -> p < length data /\ q < length data).
  { intros p q H. destruct (Hin p q H) as [Hp [_ ->]]. rewrite Hlen.
    split; [exact Hp|apply tr_facts; exact Hp]. }
  destruct (upper n k) eqn:Hu.
  - assert (H : In (k, tr n k) (swaps n)).
    { unfold swaps. apply in_map_iff. exists k. split; [reflexivity|].
      apply filter_In. split; [apply in_seq; lia|exact Hu]. }
    apply (run_swapped A d (swaps n) data Hdis Hb k (tr n k) H).
  - destruct (tr_facts n k Hk) as [Ht [Hd Hm]].
    assert (Hu' : upper n (tr n k) = true).
    { unfold upper in *. rewrite Hd, Hm. apply Nat.leb_gt in Hu. apply Nat.leb_le. lia. }
    assert (H : In (tr n k, k) (swaps n)).
    { unfold swaps. apply in_map_iff. exists (tr n k). split; [rewrite tr_invol by auto; reflexivity|].
      apply filter_In. split; [apply in_seq; lia|exact Hu']. }
    apply (run_swapped A d (swaps n) data Hdis Hb (tr n k) k H).
Qed.
Print Assumptions transpose_loop.
