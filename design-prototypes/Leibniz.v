(* Design-time prototype: list-level half of C07.  The Leibniz sum over the first-image
   enumeration of the permutations of a strictly increasing column list, with the sign given by
   the parity of the inversion count, equals the Laplace expansion along the first remaining row
   (`detc`, the function DetBridge.v identifies with mathcomp's \det).  Any commutative ring. *)
From Coq Require Import List Arith Lia Ring Bool Sorted Permutation.
Import ListNotations.

Section Leibniz.
Variable R : Type.
Variables (rO rI : R) (radd rmul rsub : R -> R -> R) (ropp : R -> R).
Variable Rth : ring_theory rO rI radd rmul rsub ropp (@eq R).
Add Ring Rring3 : Rth.
Notation "x [+] y" := (radd x y) (at level 50, left associativity).
Notation "x [*] y" := (rmul x y) (at level 40, left associativity).

Variable M : nat -> nat -> R.

Definition del {A} (i : nat) (s : list A) : list A := firstn i s ++ skipn (S i) s.
Definition sgn (k : nat) : R := if Nat.even k then rI else ropp rI.
Definition sum (l : list R) : R := fold_right radd rO l.

(* Laplace expansion along row r over the remaining columns (fuel = number of columns) *)
Fixpoint detc (fuel r : nat) (cols : list nat) : R :=
  match fuel with
  | O => rI
  | S f => sum (map (fun j => sgn j [*] M r (nth j cols 0) [*] detc f (S r) (del j cols))
                    (seq 0 (length cols)))
  end.

(* first-image enumeration of the permutations of cols *)
Fixpoint perms (fuel : nat) (cols : list nat) : list (list nat) :=
  match fuel with
  | O => [[]]
  | S f => flat_map (fun j => map (cons (nth j cols 0)) (perms f (del j cols))) (seq 0 (length cols))
  end.

Fixpoint inversions (l : list nat) : nat :=
  match l with [] => 0 | x :: r => length (filter (fun y => Nat.ltb y x) r) + inversions r end.

(* product of M (r+i) p[i] *)
Fixpoint term (r : nat) (p : list nat) : R :=
  match p with [] => rI | c :: p' => M r c [*] term (S r) p' end.

Definition leibniz (r : nat) (ps : list (list nat)) : R :=
  sum (map (fun p => sgn (inversions p) [*] term r p) ps).

Lemma sum_app l1 l2 : sum (l1 ++ l2) = sum l1 [+] sum l2.
Proof. induction l1; simpl; [ring|rewrite IHl1; ring]. Qed.

Lemma sum_flat_map {A} (f : A -> list R) l : sum (flat_map f l) = sum (map (fun a => sum (f a)) l).
Proof. induction l; simpl; auto. rewrite sum_app, IHl. reflexivity. Qed.

Lemma map_flat_map_comm {A B C} (g : B -> C) (f : A -> list B) l :
  map g (flat_map f l) = flat_map (fun a => map g (f a)) l.
Proof. induction l; simpl; auto. rewrite map_app, IHl. reflexivity. Qed.

Lemma sum_scale c l : sum (map (fun x => c [*] x) l) = c [*] sum l.
Proof. induction l; simpl; [ring|rewrite IHl; ring]. Qed.

Lemma sum_ext {A} (f g : A -> R) l : (forall a, In a l -> f a = g a) -> sum (map f l) = sum (map g l).
Proof.
  induction l; simpl; intros H; auto. rewrite H by auto. rewrite IHl by (intros; apply H; auto).
  reflexivity.
Qed.

Lemma sgn_add a b : sgn (a + b) = sgn a [*] sgn b.
Proof.
  unfold sgn. rewrite Nat.even_add. destruct (Nat.even a), (Nat.even b); simpl; ring.
Qed.

Lemma incl_firstn {A} n (l : list A) : incl (firstn n l) l.
Proof.
  revert n; induction l as [|a l IH]; intros [|n] x H; simpl in H; try tauto.
  destruct H as [<-|H]; [left; reflexivity|right; eapply IH; eauto].
Qed.
Lemma incl_skipn {A} n (l : list A) : incl (skipn n l) l.
Proof.
  revert n; induction l as [|a l IH]; intros n x H.
  - destruct n; simpl in H; tauto.
  - destruct n; [exact H|]. simpl in H. right. eapply IH; eauto.
Qed.
Lemma incl_del {A} j (l : list A) : incl (del j l) l.
Proof.
  intros x H. unfold del in H. apply in_app_or in H as [H|H];
    [eapply incl_firstn|eapply incl_skipn]; eauto.
Qed.
Lemma length_del {A} j (l : list A) : j < length l -> length (del j l) = length l - 1.
Proof. intros. unfold del. rewrite app_length, firstn_length, skipn_length. lia. Qed.

(* every permutation produced from cols uses only elements of cols *)
Lemma perms_incl f : forall cols p, length cols = f -> In p (perms f cols) -> incl p cols.
Proof.
  induction f as [|f IH]; intros cols p Hlen Hp; cbn [perms] in Hp.
  - destruct Hp as [<-|[]]. intros x [].
  - apply in_flat_map in Hp as [j [Hj Hp]]. apply in_seq in Hj.
    apply in_map_iff in Hp as [q [<- Hq]].
    assert (Hdl : length (del j cols) = f) by (rewrite length_del; lia).
    specialize (IH _ _ Hdl Hq).
    intros x [<-|Hx]; [apply nth_In; lia|]. apply IH in Hx. eapply incl_del; eauto.
Qed.

(* in a strictly increasing list, exactly j of the other elements are smaller than the j-th *)
Lemma filter_none (g : nat -> bool) l : (forall x, In x l -> g x = false) -> filter g l = [].
Proof.
  induction l as [|b l IH]; intros H; [reflexivity|]. simpl. rewrite H by (left; auto).
  apply IH. intros; apply H; right; auto.
Qed.

Lemma del_cons_S {A} (a : A) l j : del (S j) (a :: l) = a :: del j l.
Proof. reflexivity. Qed.

Lemma smaller_filter cols : StronglySorted lt cols -> forall j, j < length cols ->
  filter (fun y => Nat.ltb y (nth j cols 0)) (del j cols) = firstn j cols.
Proof.
  induction 1 as [|a l Hs IH Hall]; intros j Hj; [simpl in Hj; lia|].
  rewrite Forall_forall in Hall. destruct j.
  - unfold del. cbn [firstn skipn app nth]. apply filter_none.
    intros x Hx. apply Nat.ltb_ge. specialize (Hall x Hx). lia.
  - rewrite del_cons_S. cbn [nth filter firstn]. simpl in Hj.
    assert (Ha : a < nth j l 0) by (apply Hall, nth_In; lia).
    destruct (Nat.ltb_spec a (nth j l 0)); [|lia]. f_equal. apply IH. lia.
Qed.

Lemma filter_length_perm (g : nat -> bool) l l' :
  Permutation l l' -> length (filter g l) = length (filter g l').
Proof.
  induction 1; simpl; auto.
  - destruct (g x); simpl; auto.
  - destruct (g x), (g y); simpl; auto.
  - congruence.
Qed.

Lemma smaller_count cols j q : StronglySorted lt cols -> j < length cols ->
  Permutation q (del j cols) ->
  length (filter (fun y => Nat.ltb y (nth j cols 0)) q) = j.
Proof.
  intros Hs Hj Hq. rewrite (filter_length_perm _ _ _ Hq), smaller_filter by auto.
  rewrite firstn_length. lia.
Qed.

Lemma sorted_del cols j : StronglySorted lt cols -> StronglySorted lt (del j cols).
Proof.
  intros Hs. revert j. induction Hs as [|a l Hs IH Hall]; intros j.
  - unfold del. destruct j; simpl; constructor.
  - destruct j.
    + unfold del. cbn [firstn skipn app]. exact Hs.
    + rewrite del_cons_S. constructor; [apply IH|].
      rewrite Forall_forall in *. intros x Hx. apply Hall. eapply incl_del; eauto.
Qed.

(* every enumerated permutation is a rearrangement of cols *)
Lemma perms_perm f : forall cols p, length cols = f -> In p (perms f cols) -> Permutation p cols.
Proof.
  induction f as [|f IH]; intros cols p Hlen Hp; cbn [perms] in Hp.
  - destruct Hp as [<-|[]]. destruct cols; [constructor|discriminate].
  - apply in_flat_map in Hp as [j [Hj Hp]]. apply in_seq in Hj.
    apply in_map_iff in Hp as [q [<- Hq]].
    assert (Hdl : length (del j cols) = f) by (rewrite length_del; lia).
    specialize (IH _ _ Hdl Hq).
    rewrite <- (firstn_skipn j cols) at 2.
    assert (Hsk : skipn j cols = nth j cols 0 :: skipn (S j) cols).
    { clear -Hj. revert j Hj. induction cols as [|a l IHl]; intros j Hj; [simpl in Hj; lia|].
      destruct j; [reflexivity|]. simpl. apply IHl. simpl in Hj. lia. }
    rewrite Hsk. apply Permutation_cons_app. exact IH.
Qed.

(* MAIN: Laplace expansion over the column list = Leibniz sum over its enumerated permutations *)
Theorem detc_leibniz f : forall r cols, length cols = f -> StronglySorted lt cols ->
  detc f r cols = leibniz r (perms f cols).
Proof.
  induction f as [|f IH]; intros r cols Hlen Hs.
  - cbn [detc perms leibniz map inversions term sum fold_right]. unfold sgn. simpl. ring.
  - cbn [detc perms]. unfold leibniz. rewrite map_flat_map_comm.
    rewrite sum_flat_map. apply sum_ext. intros j Hj. apply in_seq in Hj.
    assert (Hdl : length (del j cols) = f) by (rewrite length_del; lia).
    rewrite (IH (S r) (del j cols) Hdl (sorted_del cols j Hs)). unfold leibniz.
    rewrite <- sum_scale. rewrite !map_map. apply sum_ext. intros q Hq.
    cbn [inversions term].
    rewrite (smaller_count cols j q Hs ltac:(lia) (perms_perm f _ _ Hdl Hq)).
    rewrite sgn_add. ring.
Qed.

(* the Leibniz sum does not depend on the order of enumeration (this is how the Heap's-algorithm
   order of linear_algebra.rs is connected to the first-image order used above) *)
Lemma sum_perm l l' : Permutation l l' -> sum l = sum l'.
Proof. induction 1; simpl; try ring; [rewrite IHPermutation; ring|congruence]. Qed.

Lemma leibniz_perm r ps ps' : Permutation ps ps' -> leibniz r ps = leibniz r ps'.
Proof. intros H. unfold leibniz. apply sum_perm. apply Permutation_map. exact H. Qed.
End Leibniz.
Print Assumptions detc_leibniz.

