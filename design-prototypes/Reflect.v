(* Design-time prototype: the Householder reflection maps the column to a multiple of e.
   With u = x + a e, where e^T e = 1, a^2 = x^T x, and a^2 + a x0 <> 0 (x0 = e^T x),
   H = I - (2/s) u u^T with s = u^T u satisfies  H x = - a e  (for e = e_1 every entry of the
   column below the first is annihilated: the step that makes R upper triangular in C08's QR). *)
From mathcomp Require Import all_ssreflect all_algebra.
Set Implicit Arguments. Unset Strict Implicit. Unset Printing Implicit Defensive.
Import GRing.Theory.
Local Open Scope ring_scope.

Section Reflect.
Variable F : fieldType.
Variable n : nat.
Variables (x e : 'cV[F]_n) (a x0 : F).
Hypothesis ee : e^T *m e = 1%:M.
Hypothesis ex : e^T *m x = x0%:M.
Hypothesis xe : x^T *m e = x0%:M.
Hypothesis xx : x^T *m x = (a * a)%:M.

Definition u : 'cV[F]_n := x + a *: e.
Definition t : F := a * a + a * x0.
Hypothesis t0 : t != 0.
Hypothesis two0 : (2%:R : F) != 0.

Lemma ux : u^T *m x = t%:M.
Proof.
  rewrite /u /t linearD /= linearZ /= mulmxDl -scalemxAl xx ex scale_scalar_mx.
  by rewrite -raddfD.
Qed.

Lemma uu : u^T *m u = (2%:R * t)%:M.
Proof.
  rewrite {2}/u mulmxDr -scalemxAr ux.
  rewrite /u linearD /= linearZ /= mulmxDl -scalemxAl xe ee.
  rewrite !scale_scalar_mx mulr1 scalerDr !scale_scalar_mx -!raddfD /=.
  congr (_%:M). rewrite /t mulr2n mulrDl mul1r. rewrite [a * x0 + _]addrC. by [].
Qed.

Definition H : 'M[F]_n := 1%:M - (2%:R / (2%:R * t)) *: (u *m u^T).

Theorem reflect : H *m x = - (a *: e).
Proof.
  rewrite /H mulmxBl mul1mx -scalemxAl -mulmxA ux mul_mx_scalar scalerA.
  have -> : 2%:R / (2%:R * t) * t = 1.
  { rewrite invfM mulrA mulfV // mul1r mulVf //. }
  by rewrite scale1r /u opprD addrA subrr sub0r.
Qed.
End Reflect.
