(* Design-time prototype: the shared index-algebra core.  compute_strides / get_index_direct as
   written (suffix products; per-dimension bounds check then sum of index*stride) compute the
   row-major position; that position is < the element count and injective on in-range indexes
   (so two index tuples never alias), and out-of-range tuples are reported absent. *)
From Coq Require Import List NArith Lia Bool.
Import ListNotations.
Open Scope N_scope.

Definition prod (l : list N) : N := fold_right N.mul 1 l.

(* compute_strides: strides[d] = product of the lengths after d *)
Definition strides (sh : list N) : list N :=
  map (fun d => prod (skipn (S d) sh)) (seq 0 (length sh)).

(* get_index_direct: for d in 0..D { if idx[d] >= shape[d] return None; index += idx[d]*strides[d] } *)
Fixpoint gid (idx st sh : list N) (acc : N) : option N :=
  match idx, st, sh with
  | [], [], [] => Some acc
  | i :: idx', s :: st', l :: sh' => if l <=? i then None else gid idx' st' sh' (acc + i * s)
  | _, _, _ => None
  end.
Definition get_index_direct idx sh := gid idx (strides sh) sh 0.

(* specification: row-major position, most significant dimension first *)
Fixpoint flat (idx sh : list N) : N :=
  match idx, sh with
  | i :: idx', l :: sh' => i * prod sh' + flat idx' sh'
  | _, _ => 0
  end.

Fixpoint in_range (idx sh : list N) : Prop :=
  match idx, sh with
  | [], [] => True
  | i :: idx', l :: sh' => i < l /\ in_range idx' sh'
  | _, _ => False
  end.

Lemma prod_cons l sh : prod (l :: sh) = l * prod sh. Proof. reflexivity. Qed.

Lemma strides_cons l sh : strides (l :: sh) = prod sh :: strides sh.
Proof.
  unfold strides. cbn [length seq map skipn]. f_equal.
  rewrite <- seq_shift, map_map. apply map_ext. intros d. reflexivity.
Qed.

Lemma gid_spec idx : forall sh acc, length idx = length sh ->
  gid idx (strides sh) sh acc =
  if (fix ok (idx sh : list N) := match idx, sh with
                                  | i :: idx', l :: sh' => (i <? l) && ok idx' sh'
                                  | _, _ => true end) idx sh
  then Some (acc + flat idx sh) else None.
Proof.
  induction idx as [|i idx IH]; intros [|l sh] acc Hlen; cbn [length] in Hlen; try lia.
  - cbn. f_equal. lia.
  - rewrite strides_cons. cbn [gid flat].
    destruct (N.leb_spec l i) as [Hle|Hlt].
    + destruct (N.ltb_spec i l); [lia|]. reflexivity.
    + destruct (N.ltb_spec i l); [|lia]. cbn [andb].
      rewrite IH by lia. destruct (_ idx sh); [f_equal; lia|reflexivity].
Qed.

Lemma flat_lt idx sh : in_range idx sh -> flat idx sh < prod sh.
Proof.
  revert sh; induction idx as [|i idx IH]; intros [|l sh]; cbn [in_range]; try tauto.
  - intros _. cbv. reflexivity.
  - intros [Hi Hr]. specialize (IH sh Hr). cbn [flat]. rewrite prod_cons. nia.
Qed.

Lemma flat_inj idx1 idx2 sh : in_range idx1 sh -> in_range idx2 sh ->
  flat idx1 sh = flat idx2 sh -> idx1 = idx2.
Proof.
  revert idx2 sh; induction idx1 as [|i1 idx1 IH]; intros [|i2 idx2] [|l sh]; cbn [in_range]; try tauto.
  intros [H1 R1] [H2 R2] Heq. cbn [flat] in Heq.
  pose proof (flat_lt idx1 sh R1) as B1. pose proof (flat_lt idx2 sh R2) as B2.
  set (p := prod sh) in *. set (f1 := flat idx1 sh) in *. set (f2 := flat idx2 sh) in *.
  assert (Hi : i1 = i2).
  { destruct (N.lt_trichotomy i1 i2) as [H|[H|H]]; auto; exfalso.
    - assert (i1 * p + p <= i2 * p)
        by (replace (i1 * p + p) with ((i1 + 1) * p) by ring; apply N.mul_le_mono_r; lia). lia.
    - assert (i2 * p + p <= i1 * p)
        by (replace (i2 * p + p) with ((i2 + 1) * p) by ring; apply N.mul_le_mono_r; lia). lia. }
  subst i2.
  assert (Hf : f1 = f2) by lia.
  f_equal. eapply IH; eauto.
Qed.

(* every position below the element count is hit: flat is onto [0, prod sh) when all lengths > 0 *)
Lemma flat_onto sh : Forall (fun l => 0 < l) sh -> forall k, k < prod sh ->
  exists idx, in_range idx sh /\ flat idx sh = k.
Proof.
  induction sh as [|l sh IH]; intros Hpos k Hk.
  - exists []. split; [exact I|]. change (prod []) with 1 in Hk. cbn [flat]. lia.
  - inversion Hpos as [|? ? Hl Hrest]; subst. rewrite prod_cons in Hk.
    assert (Hp : 0 < prod sh) by (destruct (prod sh); [rewrite N.mul_0_r in Hk; lia|lia]).
    destruct (IH Hrest (k mod prod sh)) as [idx [Hr Hf]]; [apply N.mod_lt; lia|].
    exists (k / prod sh :: idx). split.
    + split; [|exact Hr]. apply N.div_lt_upper_bound; lia.
    + cbn [flat]. rewrite Hf. rewrite N.mul_comm. symmetry. apply N.div_mod. lia.
Qed.
