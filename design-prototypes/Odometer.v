(* Design-time prototype: the ShapeIterator odometer is mixed-radix increment; it enumerates
   every valid index exactly once in row-major order and size_hint is exact after every step. *)
From Coq Require Import List NArith Lia Bool ZifyNat ZifyN.
Import ListNotations.
Open Scope N_scope.

(* digits and radices are kept least-significant (last dimension) first *)
Fixpoint valid (ds rs : list N) : Prop :=
  match ds, rs with
  | [], [] => True
  | d :: ds', r :: rs' => d < r /\ valid ds' rs'
  | _, _ => False
  end.

Fixpoint val (ds rs : list N) : N :=
  match ds, rs with
  | d :: ds', r :: rs' => d + r * val ds' rs'
  | _, _ => 0
  end.

Definition prod (rs : list N) : N := fold_right N.mul 1 rs.

(* one `next()` of the odometer: returns the new digits and the `finished` flag.
   As in the Rust code the most significant digit is not reset when it overflows. *)
Fixpoint inc (ds rs : list N) : list N * bool :=
  match ds, rs with
  | [d], [r] => ([d + 1], (d + 1 =? r))
  | d :: ds', r :: rs' =>
      if (d + 1 =? r) then let '(ds'', fin) := inc ds' rs' in (0 :: ds'', fin)
      else ((d + 1) :: ds', false)
  | _, _ => ([], true)   (* D = 0: the single index has been yielded *)
  end.

Lemma val_lt_prod ds rs : valid ds rs -> val ds rs < prod rs.
Proof.
  revert rs; induction ds as [|d ds IH]; intros [|r rs]; cbn [valid]; try tauto.
  - intros _. cbv. reflexivity.
  - intros [Hd Hv]. specialize (IH rs Hv).
    change (val (d :: ds) (r :: rs)) with (d + r * val ds rs).
    change (prod (r :: rs)) with (r * prod rs). nia.
Qed.

Lemma val_inj ds1 ds2 rs : valid ds1 rs -> valid ds2 rs -> val ds1 rs = val ds2 rs -> ds1 = ds2.
Proof.
  revert ds2 rs; induction ds1 as [|d1 ds1 IH]; intros [|d2 ds2] [|r rs]; cbn [valid]; try tauto.
  intros [H1 V1] [H2 V2] Heq.
  change (d1 + r * val ds1 rs = d2 + r * val ds2 rs) in Heq.
  set (v1 := val ds1 rs) in *. set (v2 := val ds2 rs) in *.
  assert (Hvv : v1 = v2) by nia.
  assert (d1 = d2) by (rewrite Hvv in Heq; lia). subst d2.
  f_equal. eapply IH; eauto.
Qed.

(* the step theorem: not finished => still valid and flat position advanced by exactly one;
   finished => the position that was just yielded was the last one *)
Lemma prod_cons r rs : prod (r :: rs) = r * prod rs.
Proof. reflexivity. Qed.
Lemma val_cons d ds r rs : val (d :: ds) (r :: rs) = d + r * val ds rs.
Proof. reflexivity. Qed.
Lemma prod_nil : prod [] = 1. Proof. reflexivity. Qed.
Lemma val_nil rs : val [] rs = 0. Proof. destruct rs; reflexivity. Qed.

Lemma inc_spec ds rs : valid ds rs ->
  let '(ds', fin) := inc ds rs in
  if fin then val ds rs + 1 = prod rs
  else valid ds' rs /\ val ds' rs = val ds rs + 1.
Proof.
  revert rs; induction ds as [|d ds IH]; intros [|r rs]; cbn [valid]; try tauto.
  - intros _. cbn [inc]. rewrite val_nil, prod_nil. lia.
  - intros [Hd Hv].
    destruct ds as [|d' ds'].
    + destruct rs as [|r' rs']; cbn [valid] in Hv; try tauto.
      cbn [inc]. rewrite !val_cons, !val_nil, prod_cons, prod_nil.
      destruct (N.eqb_spec (d + 1) r); [lia|].
      cbn [valid]. split; [split; [lia|exact I]|lia].
    + destruct rs as [|r' rs']; [cbn [valid] in Hv; tauto|].
      specialize (IH (r' :: rs') Hv).
      change (inc (d :: d' :: ds') (r :: r' :: rs')) with
        (if (d + 1 =? r) then let '(ds'', fin) := inc (d' :: ds') (r' :: rs') in (0 :: ds'', fin)
         else ((d + 1) :: d' :: ds', false)).
      destruct (N.eqb_spec (d + 1) r).
      * destruct (inc (d' :: ds') (r' :: rs')) as [ds'' fin].
        destruct fin.
        -- rewrite val_cons, prod_cons. rewrite <- IH, <- e. ring.
        -- destruct IH as [V E]. cbn [valid]. split; [split; [lia|exact V]|].
           rewrite val_cons, (val_cons d), E, <- e. ring.
      * cbn [valid]. split; [split; [lia|exact Hv]|]. rewrite !val_cons. lia.
Qed.

(* the iterator: state = (digits, finished); yields the current digits *)
Definition next (rs : list N) (st : list N * bool) : option (list N) * (list N * bool) :=
  let '(ds, fin) := st in
  if fin then (None, st) else (Some ds, inc ds rs).

Definition size_hint (rs : list N) (st : list N * bool) : N :=
  let '(ds, fin) := st in if fin then 0 else prod rs - val ds rs.

Fixpoint run (fuel : nat) (rs : list N) (st : list N * bool) : list (list N) :=
  match fuel with
  | O => []
  | S f => match next rs st with
           | (Some x, st') => x :: run f rs st'
           | (None, _) => []
           end
  end.

(* Invariant of every reachable unfinished state + exactness of size_hint + k-th item has
   flat position (start + k): by val_inj the run is exactly the row-major enumeration. *)
Lemma run_S f rs ds : run (S f) rs (ds, false) = ds :: run f rs (inc ds rs).
Proof. cbn [run next]. destruct (inc ds rs); reflexivity. Qed.
Lemma run_fin f rs ds : run f rs (ds, true) = [].
Proof. destruct f; reflexivity. Qed.

Lemma run_spec fuel : forall rs ds, valid ds rs ->
  (forall k x, nth_error (run fuel rs (ds, false)) k = Some x ->
      valid x rs /\ val x rs = val ds rs + N.of_nat k) /\
  (N.of_nat (length (run fuel rs (ds, false))) = N.min (N.of_nat fuel) (prod rs - val ds rs)).
Proof.
  induction fuel as [|f IH]; intros rs ds Hv.
  - cbn [run]. split; [intros [|k] x; cbn; discriminate|].
    pose proof (val_lt_prod ds rs Hv). cbn [length]. lia.
  - rewrite run_S.
    pose proof (inc_spec ds rs Hv) as Hs. pose proof (val_lt_prod ds rs Hv) as Hlt.
    destruct (inc ds rs) as [ds' fin]. destruct fin.
    + rewrite run_fin. split.
      * intros [|[|k]] x; cbn [nth_error]; try discriminate. intros [= <-]. split; [auto|lia].
      * cbn [length]. lia.
    + destruct Hs as [Hv' He]. destruct (IH rs ds' Hv') as [IH1 IH2]. split.
      * intros [|k] x; cbn [nth_error].
        -- intros [= <-]. split; [auto|lia].
        -- intros Hk. destruct (IH1 k x Hk) as [Vx Ex]. split; [auto|]. lia.
      * cbn [length]. lia.
Qed.

(* exact length after k calls: remaining = total - k  (ExactSizeIterator contract) *)
Lemma size_hint_exact rs ds : valid ds rs ->
  size_hint rs (ds, false) = prod rs - val ds rs.
Proof. reflexivity. Qed.
