(* Design-time prototype: the algebraic core of the QR property.  A Householder matrix
   H = I - 2 v v^T with v^T v = 1 is symmetric and an involution; therefore in
   qr_decomposition (R := H R, Q := Q H at every step) Q stays orthogonal and Q R = A. *)
From mathcomp Require Import all_ssreflect all_algebra.
Set Implicit Arguments. Unset Strict Implicit. Unset Printing Implicit Defensive.
Import GRing.Theory.
Local Open Scope ring_scope.

Section Householder.
Variable F : fieldType.
Variable n : nat.
Variable v : 'cV[F]_n.
Hypothesis vv : v^T *m v = 1%:M.

Definition hh : 'M[F]_n := 1%:M - 2%:R *: (v *m v^T).

Lemma hh_sym : hh^T = hh.
Proof.
  rewrite /hh linearB /= trmx1 linearZ /= trmx_mul trmxK. by [].
Qed.

Lemma hh_invol : hh *m hh = 1%:M.
Proof.
  rewrite /hh. set X := v *m v^T.
  have XX : X *m X = X by rewrite /X mulmxA -[v *m v^T *m v]mulmxA vv mulmx1.
  rewrite mulmxBl mul1mx mulmxBr mulmx1 -scalemxAl -scalemxAr XX scalerA.
  have -> : 2%:R * 2%:R = 2%:R + 2%:R :> F by rewrite -natrM -natrD.
  rewrite scalerDl. set Y := 2%:R *: X.
  by rewrite opprB addrK subrK.
Qed.

Lemma hh_orth : hh^T *m hh = 1%:M.
Proof. by rewrite hh_sym hh_invol. Qed.
End Householder.

Section Telescoping.
Variable F : fieldType.
Variable m : nat.
(* one QR step with an arbitrary symmetric involution h (the padded Householder matrix) *)
Lemma qr_step (q r a h : 'M[F]_m) :
  q *m r = a -> h *m h = 1%:M -> (q *m h) *m (h *m r) = a.
Proof. move=> qr hh. by rewrite mulmxA -[q *m h *m h]mulmxA hh mulmx1. Qed.

Lemma orth_step (q h : 'M[F]_m) :
  q^T *m q = 1%:M -> h^T *m h = 1%:M -> (q *m h)^T *m (q *m h) = 1%:M.
Proof. move=> qq hh. by rewrite trmx_mul mulmxA -[h^T *m q^T *m q]mulmxA qq mulmx1. Qed.
End Telescoping.
