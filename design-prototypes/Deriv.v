From Coq Require Import Reals Lra.
Open Scope R_scope.

Inductive expr :=
| X | C (c : R)
| Add (a b : expr) | Sub (a b : expr) | Mul (a b : expr) | Div (a b : expr)
| Sin (a : expr) | Cos (a : expr) | Exp (a : expr) | Ln (a : expr) | Sqrt (a : expr)
| Pow (a b : expr).

Fixpoint ev (e : expr) (x : R) : R :=
  match e with
  | X => x | C c => c
  | Add a b => ev a x + ev b x | Sub a b => ev a x - ev b x
  | Mul a b => ev a x * ev b x | Div a b => ev a x / ev b x
  | Sin a => sin (ev a x) | Cos a => cos (ev a x) | Exp a => exp (ev a x)
  | Ln a => ln (ev a x) | Sqrt a => sqrt (ev a x)
  | Pow a b => Rpower (ev a x) (ev b x)
  end.

(* the local rules of functions.rs, combined by the chain rule *)
Fixpoint D (e : expr) (x : R) : R :=
  match e with
  | X => 1 | C _ => 0
  | Add a b => D a x + D b x | Sub a b => D a x - D b x
  | Mul a b => D a x * ev b x + D b x * ev a x
  | Div a b => D a x * (1 / ev b x) + D b x * (- ev a x / (ev b x * ev b x))
  | Sin a => D a x * cos (ev a x) | Cos a => D a x * - sin (ev a x)
  | Exp a => D a x * exp (ev a x) | Ln a => D a x * (1 / ev a x)
  | Sqrt a => D a x * (1 / ((1 + 1) * sqrt (ev a x)))
  | Pow a b => D a x * (ev b x * Rpower (ev a x) (ev b x - 1))
             + D b x * (Rpower (ev a x) (ev b x) * ln (ev a x))
  end.

Fixpoint dom (e : expr) (x : R) : Prop :=
  match e with
  | X | C _ => True
  | Add a b | Sub a b | Mul a b => dom a x /\ dom b x
  | Div a b => dom a x /\ dom b x /\ ev b x <> 0
  | Sin a | Cos a | Exp a => dom a x
  | Ln a | Sqrt a => dom a x /\ 0 < ev a x
  | Pow a b => dom a x /\ dom b x /\ 0 < ev a x
  end.


Lemma dl_eq f x l l' : derivable_pt_lim f x l -> l = l' -> derivable_pt_lim f x l'.
Proof. intros H <-; exact H. Qed.

Theorem formal_is_derivative e x : dom e x -> derivable_pt_lim (ev e) x (D e x).
Proof.
  induction e; simpl; intros Hd.
  - apply derivable_pt_lim_id.
  - apply (derivable_pt_lim_const c).
  - destruct Hd. change (derivable_pt_lim (ev e1 + ev e2)%F x (D e1 x + D e2 x)).
    apply derivable_pt_lim_plus; auto.
  - destruct Hd. change (derivable_pt_lim (ev e1 - ev e2)%F x (D e1 x - D e2 x)).
    apply derivable_pt_lim_minus; auto.
  - destruct Hd as [H1 H2]. specialize (IHe1 H1). specialize (IHe2 H2).
    eapply dl_eq. change (fun x0 => ev e1 x0 * ev e2 x0) with (ev e1 * ev e2)%F.
    apply derivable_pt_lim_mult; eauto. ring.
  - destruct Hd as [H1 [H2 Hnz]]. specialize (IHe1 H1). specialize (IHe2 H2).
    eapply dl_eq. change (fun x0 => ev e1 x0 / ev e2 x0) with (ev e1 / ev e2)%F.
    apply derivable_pt_lim_div; eauto. unfold Rsqr. field. auto.
  - specialize (IHe Hd). eapply dl_eq.
    change (fun x0 => sin (ev e x0)) with (comp sin (ev e)).
    apply derivable_pt_lim_comp; [exact IHe | apply derivable_pt_lim_sin]. ring.
  - specialize (IHe Hd). eapply dl_eq.
    change (fun x0 => cos (ev e x0)) with (comp cos (ev e)).
    apply derivable_pt_lim_comp; [exact IHe | apply derivable_pt_lim_cos]. ring.
  - specialize (IHe Hd). eapply dl_eq.
    change (fun x0 => exp (ev e x0)) with (comp exp (ev e)).
    apply derivable_pt_lim_comp; [exact IHe | apply derivable_pt_lim_exp]. ring.
  - destruct Hd as [Hd Hpos]. specialize (IHe Hd). eapply dl_eq.
    change (fun x0 => ln (ev e x0)) with (comp ln (ev e)).
    apply derivable_pt_lim_comp; [exact IHe | apply derivable_pt_lim_ln; auto]. field. lra.
  - destruct Hd as [Hd Hpos]. specialize (IHe Hd). eapply dl_eq.
    change (fun x0 => sqrt (ev e x0)) with (comp sqrt (ev e)).
    apply derivable_pt_lim_comp; [exact IHe | apply derivable_pt_lim_sqrt; auto].
    field. apply Rgt_not_eq. apply sqrt_lt_R0. auto.
  - destruct Hd as [H1 [H2 Hpos]]. specialize (IHe1 H1). specialize (IHe2 H2).
    unfold Rpower. eapply dl_eq.
    change (fun x0 => exp (ev e2 x0 * ln (ev e1 x0))) with (comp exp (ev e2 * comp ln (ev e1))%F).
    apply derivable_pt_lim_comp; [| apply derivable_pt_lim_exp].
    apply derivable_pt_lim_mult; [exact IHe2|].
    apply derivable_pt_lim_comp; [exact IHe1 | apply derivable_pt_lim_ln; auto].
    unfold mult_fct, comp.
    replace (exp ((ev e2 x - 1) * ln (ev e1 x))) with (exp (ev e2 x * ln (ev e1 x)) * / ev e1 x).
    field. lra.
    unfold Rminus. rewrite Rmult_plus_distr_r, exp_plus.
    replace (- (1) * ln (ev e1 x)) with (- ln (ev e1 x)) by ring.
    rewrite exp_Ropp, exp_ln; auto.
Qed.
Print Assumptions formal_is_derivative.
