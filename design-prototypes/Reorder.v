(* Design-time prototype: the lemma behind C06.  Two straight-line programs related by a node
   renaming phi (same instruction at corresponding nodes, operands renamed) have equal values and
   equal forward tangents at corresponding nodes.  A container operation is, in the model, the
   block of per-element instructions appended in iteration order; the element-by-element program
   interleaves those instructions differently; phi is the obvious renaming.  Together with
   ADProgram.reverse_equals_forward (applied to both programs) this gives: same values and same
   reverse-mode derivatives, whatever the two tape layouts are. *)
From Coq Require Import List Arith Lia Ring.
From Proto Require Import Sweep ADProgram.
Import ListNotations.

Section Reorder.
Variable R : Type.
Variables (rO rI : R) (radd rmul : R -> R -> R).
Notation instr := (instr R).
Notation dual := (dual R).
Notation fexec := (fexec R rO radd rmul).
Notation frun := (frun R rO radd rmul).

(* the dual produced by one instruction from the duals before it *)
Definition fstep (ds : list dual) (ins : instr) : dual :=
  let get n := nth n ds (rO, rO) in
  match ins with
  | IVar _ x sd => (x, sd)
  | IConst _ c => (c, rO)
  | IBin _ op a b => let '(x, dx) := get a in let '(y, dy) := get b in
      (bf R op x y, radd (rmul (bdx R op x y) dx) (rmul (bdy R op x y) dy))
  | IBinC _ op a c => let '(x, dx) := get a in (bf R op x c, rmul (bdx R op x c) dx)
  | ICBin _ op c b => let '(y, dy) := get b in (bf R op c y, rmul (bdy R op c y) dy)
  | IUn _ op a => let '(x, dx) := get a in (uf R op x, rmul (udx R op x) dx)
  end.

Lemma fexec_fstep ds ins : fexec ds ins = ds ++ [fstep ds ins].
Proof.
  destruct ins; cbn [ADProgram.fexec fstep]; try reflexivity.
  - destruct (nth a ds (rO, rO)), (nth b ds (rO, rO)); reflexivity.
  - destruct (nth a ds (rO, rO)); reflexivity.
  - destruct (nth b ds (rO, rO)); reflexivity.
  - destruct (nth a ds (rO, rO)); reflexivity.
Qed.

Lemma frun_from_app ds P ins :
  fold_left fexec (P ++ [ins]) ds = fexec (fold_left fexec P ds) ins.
Proof. rewrite fold_left_app. reflexivity. Qed.

Lemma frun_length P : length (frun P) = length P.
Proof.
  unfold frun, ADProgram.frun. induction P as [|ins P IH] using rev_ind; [reflexivity|].
  rewrite frun_from_app, fexec_fstep, !app_length, IH. reflexivity.
Qed.

(* the k-th dual is fstep of the k-th instruction on the duals before it *)
Lemma frun_nth P k : k < length P ->
  nth k (frun P) (rO, rO) = fstep (firstn k (frun P)) (nth k P (IConst R rO)).
Proof.
  unfold frun, ADProgram.frun. induction P as [|ins P IH] using rev_ind; intros Hk; [simpl in Hk; lia|].
  rewrite app_length in Hk. simpl in Hk. rewrite frun_from_app, fexec_fstep.
  pose proof (frun_length P) as HL. unfold frun, ADProgram.frun in HL.
  destruct (Nat.eq_dec k (length P)) as [->|Hne].
  - rewrite app_nth2 by lia. rewrite HL, Nat.sub_diag. cbn [nth].
    rewrite (app_nth2 P) by lia. rewrite Nat.sub_diag. cbn [nth].
    rewrite firstn_app. rewrite HL, Nat.sub_diag. cbn [firstn]. rewrite app_nil_r.
    rewrite firstn_all2 by lia. reflexivity.
  - rewrite app_nth1 by lia. rewrite (app_nth1 P) by lia. rewrite IH by lia.
    rewrite firstn_app. replace (k - length (fold_left fexec P [])) with 0 by lia.
    cbn [firstn]. rewrite app_nil_r. reflexivity.
Qed.

(* operands of an instruction, and the instruction with its operands renamed *)
Definition operands (ins : instr) : list nat :=
  match ins with
  | IBin _ _ a b => [a; b] | IBinC _ _ a _ => [a] | ICBin _ _ _ b => [b] | IUn _ _ a => [a]
  | _ => []
  end.
Definition rename (phi : nat -> nat) (ins : instr) : instr :=
  match ins with
  | IBin _ op a b => IBin R op (phi a) (phi b)
  | IBinC _ op a c => IBinC R op (phi a) c
  | ICBin _ op c b => ICBin R op c (phi b)
  | IUn _ op a => IUn R op (phi a)
  | other => other
  end.

(* P's node k corresponds to Q's node phi k *)
Definition related (phi : nat -> nat) (P Q : list instr) : Prop :=
  forall k, k < length P ->
    phi k < length Q /\
    nth (phi k) Q (IConst R rO) = rename phi (nth k P (IConst R rO)) /\
    (forall a, In a (operands (nth k P (IConst R rO))) -> a < k /\ phi a < phi k).

Lemma nth_firstn_lt {A} (l : list A) n k d : k < n -> nth k (firstn n l) d = nth k l d.
Proof.
  revert n k; induction l as [|x l IH]; intros [|n] [|k] H; simpl; try lia; auto. apply IH. lia.
Qed.

Theorem related_duals phi P Q : related phi P Q ->
  forall k, k < length P -> nth k (frun P) (rO, rO) = nth (phi k) (frun Q) (rO, rO).
Proof.
  intros Hrel k. induction k as [k IH] using lt_wf_ind. intros Hk.
  destruct (Hrel k Hk) as [Hq [Hins Hops]].
  rewrite frun_nth by exact Hk. rewrite frun_nth by exact Hq. rewrite Hins.
  assert (Hop : forall a, In a (operands (nth k P (IConst R rO))) ->
            nth a (firstn k (frun P)) (rO, rO) = nth (phi a) (firstn (phi k) (frun Q)) (rO, rO)).
  { intros a Ha. destruct (Hops a Ha) as [H1 H2].
    rewrite !nth_firstn_lt by lia. apply IH; lia. }
  destruct (nth k P (IConst R rO)) as [x sd|c|op a b|op a c|op c b|op a]; cbn [rename fstep operands] in *;
    try reflexivity.
  - rewrite (Hop a), (Hop b) by (simpl; auto). reflexivity.
  - rewrite (Hop a) by (simpl; auto). reflexivity.
  - rewrite (Hop b) by (simpl; auto). reflexivity.
  - rewrite (Hop a) by (simpl; auto). reflexivity.
Qed.
End Reorder.
Print Assumptions related_duals.
