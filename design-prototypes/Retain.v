(* Design-time prototype: the `Vec::retain` closure with running (r, c) counters used by
   Matrix::remove_row / remove_column / retain_mut, run over row-major flat storage, equals the
   per-row filter on the list-of-rows model. *)
From Coq Require Import List Arith Lia Bool.
Import ListNotations.

Section Retain.
Variable A : Type.

(* the closure state machine exactly as written: keep = f r c; then advance the counters *)
Fixpoint retain_rc (f : nat -> nat -> bool) (cols : nat) (data : list A) (r c : nat) : list A :=
  match data with
  | [] => []
  | x :: t =>
      let keep := f r c in
      let '(r', c') := if Nat.ltb c (cols - 1) then (r, c + 1) else (r + 1, 0) in
      if keep then x :: retain_rc f cols t r' c' else retain_rc f cols t r' c'
  end.

(* list-of-rows side: keep the entries of a row whose column index passes g, starting at c *)
Fixpoint filter_from (g : nat -> bool) (row : list A) (c : nat) : list A :=
  match row with
  | [] => []
  | x :: t => if g c then x :: filter_from g t (c + 1) else filter_from g t (c + 1)
  end.

Fixpoint rows_from (f : nat -> nat -> bool) (rows : list (list A)) (r : nat) : list A :=
  match rows with
  | [] => []
  | row :: rest => filter_from (f r) row 0 ++ rows_from f rest (r + 1)
  end.

(* finishing the current row from column c, then continuing with the remaining rows *)
Lemma retain_row f cols row rest_flat r c :
  c + length row = cols -> row <> [] ->
  retain_rc f cols (row ++ rest_flat) r c =
  filter_from (f r) row c ++ retain_rc f cols rest_flat (r + 1) 0.
Proof.
  revert c; induction row as [|x row IH]; intros c Hlen Hne; [congruence|].
  simpl in Hlen. cbn [app retain_rc filter_from].
  destruct row as [|y row].
  - (* last element of the row: c = cols - 1 *)
    assert (Hc : Nat.ltb c (cols - 1) = false) by (apply Nat.ltb_ge; simpl in Hlen; lia).
    rewrite Hc. cbv beta iota zeta. cbn [app filter_from]. destruct (f r c); reflexivity.
  - assert (Hc : Nat.ltb c (cols - 1) = true) by (apply Nat.ltb_lt; simpl in Hlen; lia).
    rewrite Hc. cbv beta iota zeta.
    specialize (IH (c + 1) ltac:(simpl in *; lia) ltac:(discriminate)).
    rewrite IH. destruct (f r c); reflexivity.
Qed.

Theorem retain_rc_rows f cols rows r :
  0 < cols -> Forall (fun row => length row = cols) rows ->
  retain_rc f cols (concat rows) r 0 = rows_from f rows r.
Proof.
  intros Hc Hall. revert r; induction rows as [|row rows IH]; intros r; [reflexivity|].
  inversion Hall as [|? ? Hrow Hrest]; subst.
  cbn [concat rows_from]. rewrite retain_row.
  - rewrite IH by auto. reflexivity.
  - lia.
  - destruct row; [simpl in Hc; lia|discriminate].
Qed.

(* remove_row: f r c := r <> row  — drops exactly that row *)
Fixpoint remove_nth {B} (n : nat) (l : list B) : list B :=
  match l, n with
  | [], _ => []
  | _ :: t, O => t
  | x :: t, S n' => x :: remove_nth n' t
  end.

Lemma filter_from_true g row c : (forall j, g j = true) -> filter_from g row c = row.
Proof. intros H. revert c; induction row; intros; simpl; [|rewrite H, IHrow]; reflexivity. Qed.
Lemma filter_from_false g row c : (forall j, g j = false) -> filter_from g row c = [].
Proof. intros H. revert c; induction row; intros; simpl; [|rewrite H, IHrow]; reflexivity. Qed.

Lemma rows_from_all f rows r0 :
  (forall r c, r0 <= r -> f r c = true) -> rows_from f rows r0 = concat rows.
Proof.
  revert r0; induction rows as [|row rows IH]; intros r0 H; [reflexivity|].
  cbn [rows_from concat]. rewrite filter_from_true by (intros; apply H; lia).
  rewrite IH by (intros; apply H; lia). reflexivity.
Qed.

Lemma rows_from_remove_row rows r0 k :
  rows_from (fun r _ => negb (Nat.eqb r (r0 + k))) rows r0 = concat (remove_nth k rows).
Proof.
  revert r0 k; induction rows as [|row rows IH]; intros r0 k; [destruct k; reflexivity|].
  cbn [rows_from]. destruct k.
  - rewrite filter_from_false by (intros; rewrite Nat.add_0_r, Nat.eqb_refl; reflexivity).
    cbn [app remove_nth]. apply rows_from_all.
    intros r c Hr. apply negb_true_iff, Nat.eqb_neq. lia.
  - rewrite filter_from_true by (intros; apply negb_true_iff, Nat.eqb_neq; lia).
    cbn [remove_nth concat]. f_equal.
    replace (r0 + S k) with (r0 + 1 + k) by lia. apply IH.
Qed.

(* Matrix::remove_row on the flat storage = dropping that row of the list-of-rows model *)
Corollary remove_row_refines cols rows k :
  0 < cols -> Forall (fun row => length row = cols) rows ->
  retain_rc (fun r _ => negb (Nat.eqb r k)) cols (concat rows) 0 0 = concat (remove_nth k rows).
Proof.
  intros Hc Hall. rewrite retain_rc_rows by auto. apply (rows_from_remove_row rows 0 k).
Qed.
End Retain.
Print Assumptions remove_row_refines.
