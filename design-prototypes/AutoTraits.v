(* Design-time prototype of the C20 model: a deep embedding of the type declarations that the
   translator will regenerate from /repo/src on every run, rustc's structural auto-trait rules
   as a fuelled boolean evaluator, and the theorems the property needs, proved for EVERY
   instantiation of the generic parameters.  The `decls` below were written by hand from
   differentiation.rs / tensors/mod.rs / tensors/indexing.rs; in the real development that
   definition lives in Gen/Types.v and is machine-generated. *)
From Coq Require Import List Arith Bool String.
Import ListNotations.
Open Scope string_scope.

Inductive ty :=
| TParam (n : nat)                 (* n-th generic type parameter of the enclosing declaration *)
| TPrim                            (* usize, bool, &'static str, ... : Send + Sync *)
| TRef (mutable : bool) (t : ty)   (* &'a t / &'a mut t *)
| TRefCell (t : ty)
| TVec (t : ty) | TArray (t : ty) | TOption (t : ty) | TBox (t : ty)
| TTuple (ts : list ty)
| TPhantom (t : ty)
| TFnPtr                           (* fn() -> T : always Send + Sync *)
| TApp (name : string) (args : list ty).

Record decl := { dname : string; dfields : list ty;
                 unsafe_send : bool; unsafe_sync : bool }.   (* explicit `unsafe impl` overrides *)

Inductive trait := Send | Sync.

Fixpoint subst (args : list ty) (t : ty) : ty :=
  match t with
  | TParam n => nth n args TPrim
  | TPrim => TPrim | TFnPtr => TFnPtr
  | TRef m t => TRef m (subst args t)
  | TRefCell t => TRefCell (subst args t)
  | TVec t => TVec (subst args t) | TArray t => TArray (subst args t)
  | TOption t => TOption (subst args t) | TBox t => TBox (subst args t)
  | TTuple ts => TTuple (map (subst args) ts)
  | TPhantom t => TPhantom (subst args t)
  | TApp n ts => TApp n (map (subst args) ts)
  end.

Definition lookup (ds : list decl) (n : string) : option decl :=
  find (fun d => String.eqb (dname d) n) ds.

(* asm tr n = "the n-th parameter of the type under study implements tr" *)
Fixpoint holds (fuel : nat) (ds : list decl) (asm : trait -> nat -> bool) (tr : trait) (t : ty) : bool :=
  match fuel with
  | O => false
  | S f =>
    let rec := holds f ds asm in
    match t with
    | TParam n => asm tr n
    | TPrim | TFnPtr => true
    | TRef false t' => rec Sync t'                       (* &T: Send <=> T: Sync; &T: Sync <=> T: Sync *)
    | TRef true t' => rec tr t'                          (* &mut T: Send <=> T: Send; Sync <=> T: Sync *)
    | TRefCell t' => match tr with Send => rec Send t' | Sync => false end
    | TVec t' | TArray t' | TOption t' | TBox t' | TPhantom t' => rec tr t'
    | TTuple ts => forallb (rec tr) ts
    | TApp n args =>
        match lookup ds n with
        | None => false
        | Some d =>
            if (match tr with Send => unsafe_send d | Sync => unsafe_sync d end) then true
            else forallb (fun fld => rec tr (subst args fld)) (dfields d)
        end
    end
  end.

(* ---- what the translator would emit for the relevant declarations ---- *)
Definition decls : list decl := [
  (* struct Operation<T> { left_parent: Index, right_parent: Index, left_derivative: T, right_derivative: T } *)
  {| dname := "Operation"; dfields := [TPrim; TPrim; TParam 0; TParam 0]; unsafe_send := false; unsafe_sync := false |};
  (* pub struct WengertList<T> { operations: RefCell<Vec<Operation<T>>> } *)
  {| dname := "WengertList"; dfields := [TRefCell (TVec (TApp "Operation" [TParam 0]))]; unsafe_send := false; unsafe_sync := false |};
  (* pub struct Record<'a, T> { number: T, history: Option<&'a WengertList<T>>, index: Index } *)
  {| dname := "Record"; dfields := [TParam 0; TOption (TRef false (TApp "WengertList" [TParam 0])); TPrim]; unsafe_send := false; unsafe_sync := false |};
  (* pub struct Trace<T> { number: T, derivative: T } *)
  {| dname := "Trace"; dfields := [TParam 0; TParam 0]; unsafe_send := false; unsafe_sync := false |};
  (* pub struct Tensor<T, const D> { data: Vec<T>, shape: [(Dimension, usize); D], strides: [usize; D] } *)
  {| dname := "Tensor"; dfields := [TVec (TParam 0); TArray (TTuple [TPrim; TPrim]); TArray TPrim]; unsafe_send := false; unsafe_sync := false |};
  (* pub struct TensorView<T, S, const D> { source: S, _type: PhantomData<T> } *)
  {| dname := "TensorView"; dfields := [TParam 1; TPhantom (TParam 0)]; unsafe_send := false; unsafe_sync := false |};
  (* pub struct TensorIterator<'a, T, S, const D> { shape_iterator: ShapeIterator<D>, source: &'a S, _type: PhantomData<T> } *)
  {| dname := "TensorIterator"; dfields := [TPrim; TRef false (TParam 1); TPhantom (TParam 0)]; unsafe_send := false; unsafe_sync := false |};
  (* pub struct RecordContainer<'a, T, S, const D> { numbers: S, history: Option<&'a WengertList<T>> } *)
  {| dname := "RecordContainer"; dfields := [TParam 1; TOption (TRef false (TApp "WengertList" [TParam 0]))]; unsafe_send := false; unsafe_sync := false |}
].

Definition F := 20.   (* fuel: deeper than any declaration nesting *)

(* A tape cannot be shared between threads, whatever the element type *)
Theorem wengert_list_not_sync asm : holds F decls asm Sync (TApp "WengertList" [TParam 0]) = false.
Proof. reflexivity. Qed.

(* ... hence records and record containers can be neither sent nor shared, for every T (and S) *)
Theorem record_not_send asm : holds F decls asm Send (TApp "Record" [TParam 0]) = false.
Proof. cbn. destruct (asm Send 0); reflexivity. Qed.
Theorem record_not_sync asm : holds F decls asm Sync (TApp "Record" [TParam 0]) = false.
Proof. cbn. destruct (asm Sync 0); reflexivity. Qed.
Theorem record_container_not_send asm :
  holds F decls asm Send (TApp "RecordContainer" [TParam 0; TParam 1]) = false.
Proof. cbn. destruct (asm Send 1); reflexivity. Qed.

(* tensors, views, traces: sendable / shareable exactly when element and source types are *)
Theorem tensor_send_iff asm tr : holds F decls asm tr (TApp "Tensor" [TParam 0]) = asm tr 0.
Proof. destruct tr; cbn; destruct (asm _ 0); reflexivity. Qed.
Theorem tensor_view_iff asm tr :
  holds F decls asm tr (TApp "TensorView" [TParam 0; TParam 1]) = asm tr 1 && asm tr 0.
Proof. destruct tr; cbn; destruct (asm _ 1), (asm _ 0); reflexivity. Qed.
Theorem trace_iff asm tr : holds F decls asm tr (TApp "Trace" [TParam 0]) = asm tr 0.
Proof. destruct tr; cbn; destruct (asm _ 0); reflexivity. Qed.
(* an iterator borrows its source: Send needs the source to be Sync *)
Theorem tensor_iterator_send asm :
  holds F decls asm Send (TApp "TensorIterator" [TParam 0; TParam 1]) = asm Sync 1 && asm Send 0.
Proof. cbn. destruct (asm Sync 1), (asm Send 0); reflexivity. Qed.

(* a mutation the suite cannot see: `unsafe impl Sync for WengertList` flips the theorem *)
Definition decls_mutant := map (fun d => if String.eqb (dname d) "WengertList"
  then {| dname := dname d; dfields := dfields d; unsafe_send := false; unsafe_sync := true |} else d) decls.
Example mutant_detected asm : holds F decls_mutant asm Sync (TApp "WengertList" [TParam 0]) = true.
Proof. reflexivity. Qed.
