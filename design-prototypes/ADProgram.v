(* Design-time prototype: from tapes to programs.  A straight-line program over records
   (variables, constants, binary ops in the three operand kinds, unary ops) is run the way
   record_operations.rs runs it (constants carry no tape; the tape entry is unary or binary
   depending on which operands have a tape); the derivative read off the reverse sweep at the
   position of variable x equals the forward-mode tangent of the program seeded at x, for every
   program (any size, any reuse of intermediate values) over any commutative ring. *)
From Coq Require Import List Arith Lia Ring.
From Proto Require Import Sweep.
Import ListNotations.

Section Program.
Variable R : Type.
Variables (rO rI : R) (radd rmul rsub : R -> R -> R) (ropp : R -> R).
Variable Rth : ring_theory rO rI radd rmul rsub ropp (@eq R).
Add Ring Rring2 : Rth.
Notation "x [+] y" := (radd x y) (at level 50, left associativity).
Notation "x [*] y" := (rmul x y) (at level 40, left associativity).
Notation entry := (entry R).
Notation tangents := (tangents R rO radd rmul).
Notation sweep := (sweep R rO rI radd rmul).
Notation sumn := (sumn R rO radd).
Notation wf_from := (wf_from R rO).

(* a differentiable binary function with its two local partial derivatives, and a unary one *)
Record binop := { bf : R -> R -> R; bdx : R -> R -> R; bdy : R -> R -> R }.
Record unop := { uf : R -> R; udx : R -> R }.

Inductive instr :=
| IVar (x sd : R)                       (* Record::variable; sd = ghost seed used only by the spec *)
| IConst (c : R)                        (* Record::constant: no tape *)
| IBin (op : binop) (a b : nat)         (* record (+) record *)
| IBinC (op : binop) (a : nat) (c : R)  (* record (+) number *)
| ICBin (op : binop) (c : R) (b : nat)  (* number (+) record (SwappedOperations / commutative) *)
| IUn (op : unop) (a : nat).

Definition rec := (R * option nat)%type.

Definition mk_nullary (i : nat) : entry := mk R i i rO rO.
Definition mk_unary (i p : nat) (w : R) : entry := mk R p i w rO.
Definition mk_binary (l : nat) (wl : R) (r : nat) (wr : R) : entry := mk R l r wl wr.

(* state: records so far, the tape, and (ghost) the seed of every tape position *)
Definition state := (list rec * list entry * list R)%type.

Definition push (st : state) (v : R) (e : option (entry * R)) : state :=
  let '(nodes, tape, seeds) := st in
  match e with
  | None => (nodes ++ [(v, None)], tape, seeds)
  | Some (en, sd) => (nodes ++ [(v, Some (length tape))], tape ++ [en], seeds ++ [sd])
  end.

(* one instruction, exactly the case analysis of the operator impls *)
Definition exec (st : state) (ins : instr) : state :=
  let '(nodes, tape, seeds) := st in
  let get n := nth n nodes (rO, None) in
  let here := length tape in
  match ins with
  | IVar x sd => push st x (Some (mk_nullary here, sd))
  | IConst c => push st c None
  | IBin op a b =>
      let '(x, ta) := get a in let '(y, tb) := get b in
      match ta, tb with
      | None, None => push st (bf op x y) None
      | Some pa, None => push st (bf op x y) (Some (mk_unary here pa (bdx op x y), rO))
      | None, Some pb => push st (bf op x y) (Some (mk_unary here pb (bdy op x y), rO))
      | Some pa, Some pb => push st (bf op x y) (Some (mk_binary pa (bdx op x y) pb (bdy op x y), rO))
      end
  | IBinC op a c =>
      let '(x, ta) := get a in
      match ta with
      | None => push st (bf op x c) None
      | Some pa => push st (bf op x c) (Some (mk_unary here pa (bdx op x c), rO))
      end
  | ICBin op c b =>
      let '(y, tb) := get b in
      match tb with
      | None => push st (bf op c y) None
      | Some pb => push st (bf op c y) (Some (mk_unary here pb (bdy op c y), rO))
      end
  | IUn op a =>
      let '(x, ta) := get a in
      match ta with
      | None => push st (uf op x) None
      | Some pa => push st (uf op x) (Some (mk_unary here pa (udx op x), rO))
      end
  end.

Definition run (prog : list instr) : state := fold_left exec prog ([], [], []).

(* reference semantics: plain value and forward-mode tangent (dual numbers) *)
Definition dual := (R * R)%type.
Definition fexec (ds : list dual) (ins : instr) : list dual :=
  let get n := nth n ds (rO, rO) in
  match ins with
  | IVar x sd => ds ++ [(x, sd)]
  | IConst c => ds ++ [(c, rO)]
  | IBin op a b => let '(x, dx) := get a in let '(y, dy) := get b in
                   ds ++ [(bf op x y, bdx op x y [*] dx [+] bdy op x y [*] dy)]
  | IBinC op a c => let '(x, dx) := get a in ds ++ [(bf op x c, bdx op x c [*] dx)]
  | ICBin op c b => let '(y, dy) := get b in ds ++ [(bf op c y, bdy op c y [*] dy)]
  | IUn op a => let '(x, dx) := get a in ds ++ [(uf op x, udx op x [*] dx)]
  end.
Definition frun (prog : list instr) := fold_left fexec prog [].

Definition sd_of (seeds : list R) (j : nat) : R := nth j seeds rO.

(* tangents only look at seeds of positions they cover *)
Lemma tangents_ext tape s s' acc :
  (forall j, j < length acc + length tape -> s j = s' j) ->
  tangents tape s acc = tangents tape s' acc.
Proof.
  revert acc; induction tape as [|e tape IH]; intros acc H; cbn [Sweep.tangents]; [reflexivity|].
  rewrite (H (length acc)) by (simpl; lia).
  apply IH. intros j Hj. apply H. rewrite app_length in Hj. simpl in *. lia.
Qed.

Definition node_ok (tape : list entry) (seeds : list R) (r : rec) (d : dual) : Prop :=
  fst r = fst d /\
  match snd r with
  | None => snd d = rO
  | Some p => p < length tape /\ nth p (tangents tape (sd_of seeds) []) rO = snd d
  end.

Definition inv (st : state) (ds : list dual) : Prop :=
  let '(nodes, tape, seeds) := st in
  length nodes = length ds /\ length seeds = length tape /\ wf_from 0 tape /\
  (forall k, k < length nodes -> node_ok tape seeds (nth k nodes (rO, None)) (nth k ds (rO, rO))).

(* appending an entry leaves every earlier tangent unchanged and adds the new one *)
Lemma tangents_push tape seeds e sd : length seeds = length tape ->
  tangents (tape ++ [e]) (sd_of (seeds ++ [sd])) [] =
  tangents tape (sd_of seeds) [] ++
    [sd [+] lw R e [*] nth (lp R e) (tangents tape (sd_of seeds) []) rO
        [+] rw R e [*] nth (rp R e) (tangents tape (sd_of seeds) []) rO].
Proof.
  intros Hlen. rewrite (tangents_app R rO radd rmul). cbv zeta.
  assert (E : tangents tape (sd_of (seeds ++ [sd])) [] = tangents tape (sd_of seeds) []).
  { apply tangents_ext. intros j Hj. simpl in Hj. unfold sd_of. rewrite app_nth1 by lia. reflexivity. }
  rewrite E. f_equal. f_equal. f_equal. f_equal.
  rewrite (tangents_length R rO radd rmul). simpl. unfold sd_of.
  rewrite app_nth2 by lia. rewrite Hlen, Nat.sub_diag. reflexivity.
Qed.

Lemma node_ok_mono tape seeds e sd r d : length seeds = length tape ->
  node_ok tape seeds r d -> node_ok (tape ++ [e]) (seeds ++ [sd]) r d.
Proof.
  intros Hlen [Hv Ht]. split; [exact Hv|]. destruct (snd r) as [p|]; [|exact Ht].
  destruct Ht as [Hp Hd]. split; [rewrite app_length; simpl; lia|].
  rewrite tangents_push by auto. rewrite app_nth1; [exact Hd|].
  rewrite (tangents_length R rO radd rmul). simpl. lia.
Qed.

(* pushing a node preserves the invariant, given the new node is related to the new dual *)
Lemma inv_push nodes tape seeds ds v e d :
  inv (nodes, tape, seeds) ds ->
  (match e with
   | None => True
   | Some (en, sd) => wf_entry R rO (length tape) en
   end) ->
  (let '(_, tape', seeds') := push (nodes, tape, seeds) v e in
   node_ok tape' seeds' (v, match e with None => None | Some _ => Some (length tape) end) d) ->
  inv (push (nodes, tape, seeds) v e) (ds ++ [d]).
Proof.
  intros [Hn [Hs [Hwf Hall]]] Hwe Hnew. destruct e as [[en sd]|]; cbn [push] in *.
  - split; [rewrite !app_length; simpl; lia|]. split; [rewrite !app_length; simpl; lia|].
    split; [apply (wf_from_app R rO); split; [exact Hwf|exact Hwe]|].
    intros k Hk. rewrite app_length in Hk. simpl in Hk.
    destruct (Nat.eq_dec k (length nodes)) as [->|Hne].
    + rewrite app_nth2, Nat.sub_diag by lia. rewrite Hn, app_nth2, Nat.sub_diag by lia. exact Hnew.
    + rewrite app_nth1 by lia. rewrite app_nth1 by lia. apply node_ok_mono; auto. apply Hall. lia.
  - split; [rewrite !app_length; simpl; lia|]. split; [exact Hs|]. split; [exact Hwf|].
    intros k Hk. rewrite app_length in Hk. simpl in Hk.
    destruct (Nat.eq_dec k (length nodes)) as [->|Hne].
    + rewrite app_nth2, Nat.sub_diag by lia. rewrite Hn, app_nth2, Nat.sub_diag by lia. exact Hnew.
    + rewrite app_nth1 by lia. rewrite app_nth1 by lia. apply Hall. lia.
Qed.

(* what the invariant says about an operand *)
Lemma inv_get nodes tape seeds ds a : inv (nodes, tape, seeds) ds ->
  let '(x, ta) := nth a nodes (rO, None) in
  let '(x', dx) := nth a ds (rO, rO) in
  x = x' /\ match ta with
            | None => dx = rO
            | Some p => p < length tape /\ nth p (tangents tape (sd_of seeds) []) rO = dx
            end.
Proof.
  intros [Hn [_ [_ Hall]]].
  destruct (Nat.lt_ge_cases a (length nodes)) as [Hlt|Hge].
  - specialize (Hall a Hlt). destruct (nth a nodes (rO, None)) as [x ta].
    destruct (nth a ds (rO, rO)) as [x' dx]. exact Hall.
  - rewrite (nth_overflow nodes) by lia. rewrite (nth_overflow ds) by lia. auto.
Qed.

Ltac new_node Hlen :=
  split; [reflexivity|]; cbn [snd];
  split; [rewrite app_length; simpl; lia|];
  rewrite tangents_push by exact Hlen;
  rewrite app_nth2 by (rewrite (tangents_length R rO radd rmul); simpl; lia);
  rewrite (tangents_length R rO radd rmul); simpl; rewrite Nat.sub_diag; cbn [nth Sweep.lw Sweep.rw Sweep.lp Sweep.rp].

Lemma exec_inv st ds ins : inv st ds -> inv (exec st ins) (fexec ds ins).
Proof.
  destruct st as [[nodes tape] seeds]. intros Hinv.
  pose proof Hinv as [Hn [Hlen [Hwf Hall]]].
  destruct ins as [x sd|c|op a b|op a c|op c b|op a]; cbn [exec fexec].
  - (* variable *)
    apply inv_push; [exact Hinv|repeat split; cbn; auto; lia|]. cbn [push].
    new_node Hlen. ring.
  - apply inv_push; [exact Hinv|exact I|]. cbn [push]. split; reflexivity.
  - pose proof (inv_get _ _ _ _ a Hinv) as Ha. pose proof (inv_get _ _ _ _ b Hinv) as Hb.
    destruct (nth a nodes (rO, None)) as [x ta]. destruct (nth a ds (rO, rO)) as [x' dx].
    destruct (nth b nodes (rO, None)) as [y tb]. destruct (nth b ds (rO, rO)) as [y' dy].
    destruct Ha as [<- Ha]. destruct Hb as [<- Hb].
    destruct ta as [pa|], tb as [pb|].
    + destruct Ha as [Hpa <-]. destruct Hb as [Hpb <-].
      apply inv_push; [exact Hinv|repeat split; cbn; intros; lia|]. cbn [push].
      new_node Hlen. ring.
    + destruct Ha as [Hpa <-]. subst dy.
      apply inv_push; [exact Hinv|repeat split; cbn; intros; auto; lia|]. cbn [push].
      new_node Hlen. ring.
    + destruct Hb as [Hpb <-]. subst dx.
      apply inv_push; [exact Hinv|repeat split; cbn; intros; auto; lia|]. cbn [push].
      new_node Hlen. ring.
    + subst dx dy. apply inv_push; [exact Hinv|exact I|]. cbn [push].
      split; [reflexivity|]. cbn [snd]. ring.
  - pose proof (inv_get _ _ _ _ a Hinv) as Ha.
    destruct (nth a nodes (rO, None)) as [x ta]. destruct (nth a ds (rO, rO)) as [x' dx].
    destruct Ha as [<- Ha]. destruct ta as [pa|].
    + destruct Ha as [Hpa <-].
      apply inv_push; [exact Hinv|repeat split; cbn; intros; auto; lia|]. cbn [push].
      new_node Hlen. ring.
    + subst dx. apply inv_push; [exact Hinv|exact I|]. cbn [push].
      split; [reflexivity|]. cbn [snd]. ring.
  - pose proof (inv_get _ _ _ _ b Hinv) as Hb.
    destruct (nth b nodes (rO, None)) as [y tb]. destruct (nth b ds (rO, rO)) as [y' dy].
    destruct Hb as [<- Hb]. destruct tb as [pb|].
    + destruct Hb as [Hpb <-].
      apply inv_push; [exact Hinv|repeat split; cbn; intros; auto; lia|]. cbn [push].
      new_node Hlen. ring.
    + subst dy. apply inv_push; [exact Hinv|exact I|]. cbn [push].
      split; [reflexivity|]. cbn [snd]. ring.
  - pose proof (inv_get _ _ _ _ a Hinv) as Ha.
    destruct (nth a nodes (rO, None)) as [x ta]. destruct (nth a ds (rO, rO)) as [x' dx].
    destruct Ha as [<- Ha]. destruct ta as [pa|].
    + destruct Ha as [Hpa <-].
      apply inv_push; [exact Hinv|repeat split; cbn; intros; auto; lia|]. cbn [push].
      new_node Hlen. ring.
    + subst dx. apply inv_push; [exact Hinv|exact I|]. cbn [push].
      split; [reflexivity|]. cbn [snd]. ring.
Qed.

Lemma run_inv prog : inv (run prog) (frun prog).
Proof.
  unfold run, frun.
  assert (H0 : inv ([], [], []) []).
  { split; [reflexivity|]. split; [reflexivity|]. split; [exact I|]. intros k Hk. simpl in Hk. lia. }
  revert H0. generalize (@nil rec, @nil entry, @nil R) as st. generalize (@nil dual) as ds.
  induction prog as [|ins prog IH]; intros ds st H; cbn [fold_left]; [exact H|].
  apply IH. apply exec_inv. exact H.
Qed.

(* MAIN: for every program, every output node that is not a constant, and every assignment of
   seeds to the variables, pairing the reverse sweep with the seeds gives the forward tangent of
   the output; its value is the plain value.  With the seed 1 on one variable and 0 elsewhere the
   left-hand side is exactly `derivatives().at(x)`. *)
Theorem reverse_equals_forward prog out :
  let '(nodes, tape, seeds) := run prog in
  let '(v, d) := nth out (frun prog) (rO, rO) in
  out < length nodes ->
  match nth out nodes (rO, None) with
  | (v', Some p) =>
      v' = v /\ sumn (length tape) (fun j => nth j (sweep tape p) rO [*] sd_of seeds j) = d
  | (v', None) => v' = v /\ d = rO          (* a constant: no variable contributed *)
  end.
Proof.
  pose proof (run_inv prog) as Hinv. destruct (run prog) as [[nodes tape] seeds].
  destruct Hinv as [Hn [Hlen [Hwf Hall]]].
  destruct (nth out (frun prog) (rO, rO)) as [v d] eqn:Ed. intros Hout.
  specialize (Hall out Hout). rewrite Ed in Hall.
  destruct (nth out nodes (rO, None)) as [v' [p|]]; destruct Hall as [Hv Ht]; cbn in Hv, Ht.
  - destruct Ht as [Hp Hd]. split; [exact Hv|].
    rewrite (sweep_is_tangent R rO rI radd rmul rsub ropp Rth tape (sd_of seeds) p Hwf Hp). exact Hd.
  - split; assumption.
Qed.
End Program.
Print Assumptions reverse_equals_forward.
