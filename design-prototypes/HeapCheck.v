(* Design-time feasibility prototype (not framework code): Heap's algorithm as transcribed from
   linear_algebra.rs::heaps_permutations + the even_swaps toggle of with_each_permutation,
   checked against an independent enumeration by kernel evaluation. n<=6: <1s, n=7: ~40s. *)
From Coq Require Import List Arith Bool Lia.
Import ListNotations.
Definition swap {A} (d:A) (l : list A) (i j : nat) : list A :=
  let a := nth i l d in let b := nth j l d in
  map (fun k => if Nat.eqb k i then b else if Nat.eqb k j then a else nth k l d) (seq 0 (length l)).
Fixpoint heaps (fuel k : nat) (st : list nat * (list (list nat * bool) * bool))
  : list nat * (list (list nat * bool) * bool) :=
  match fuel with
  | 0 => st
  | S fuel' =>
    if Nat.eqb k 1 then
      let '(l, (acc, ev)) := st in (l, (acc ++ [(l, ev)], negb ev))
    else
      fold_left (fun st i =>
        let st1 := heaps fuel' (k - 1) st in
        if Nat.ltb i (k - 1) then
          let '(l, r) := st1 in
          ((if Nat.even k then swap 0 l i (k-1) else swap 0 l 0 (k-1)), r)
        else st1) (seq 0 k) st
  end.
Definition heap_perms (n : nat) := fst (snd (heaps (S n) n (seq 0 n, ([], true)))).
Fixpoint inversions (l : list nat) : nat :=
  match l with [] => 0 | x :: r => length (filter (fun y => Nat.ltb y x) r) + inversions r end.
Definition sign_ok (p : list nat * bool) := Bool.eqb (snd p) (Nat.even (inversions (fst p))).
Fixpoint insert_all (x : nat) (l : list nat) : list (list nat) :=
  match l with [] => [[x]] | y :: r => (x :: l) :: map (cons y) (insert_all x r) end.
Fixpoint all_perms (n : nat) : list (list nat) :=
  match n with 0 => [[]] | S m => flat_map (insert_all m) (all_perms m) end.
Fixpoint list_eqb (a b : list nat) :=
  match a, b with [], [] => true | x::a', y::b' => Nat.eqb x y && list_eqb a' b' | _, _ => false end.
Definition mem l ls := existsb (list_eqb l) ls.
Fixpoint nodupb (ls : list (list nat)) :=
  match ls with [] => true | l :: r => negb (mem l r) && nodupb r end.
Definition check n := let hp := heap_perms n in
  Nat.eqb (length hp) (length (all_perms n)) && forallb sign_ok hp && nodupb (map fst hp)
  && forallb (fun p => mem p (map fst hp)) (all_perms n).
Lemma heap_ok_upto_6 : forallb check [2;3;4;5;6] = true.
Proof. vm_compute. reflexivity. Qed.
