(* Design-time prototype: the shape of the C02 development.  A view is a TERM; its shape and its
   index mapping are computed by structural recursion; the TensorRef contract
   ("an index is present exactly when it lies inside the view's shape", and the element it
   resolves to is a valid source element) is proved by induction on the term, hence for every
   composition at any depth.  Three dimension-wise adaptors (range, mask, reversal) are shown. *)
From Coq Require Import List Arith NArith Lia Bool.
Import ListNotations.
Open Scope N_scope.

Record irange := { start : N; len : N }.

(* IndexRange::clip / map / mask (unbounded arithmetic; the u64 variants are C16's business) *)
Definition clip (r : irange) (maxi : N) : irange :=
  {| start := start r; len := N.min (start r + len r) maxi - start r |}.
Definition rmap (r : irange) (i : N) : option N := if i <? len r then Some (i + start r) else None.
Definition rmask (r : irange) (i : N) : N := if i <? start r then i else i + len r.

Inductive view :=
| VTensor (sh : list N)                       (* leaf: element = index tuple itself *)
| VRange (v : view) (rs : list irange)        (* already clipped at construction *)
| VMask (v : view) (ms : list irange)
| VReverse (v : view) (flags : list bool).

Fixpoint map2 {A B C} (f : A -> B -> C) (l1 : list A) (l2 : list B) : list C :=
  match l1, l2 with a :: t1, b :: t2 => f a b :: map2 f t1 t2 | _, _ => [] end.

Fixpoint vshape (v : view) : list N :=
  match v with
  | VTensor sh => sh
  | VRange v rs => map2 (fun r l => len (clip r l)) rs (vshape v)
  | VMask v ms => map2 (fun m l => l - len (clip m l)) ms (vshape v)
  | VReverse v _ => vshape v
  end.

Fixpoint sequence {A} (l : list (option A)) : option (list A) :=
  match l with
  | [] => Some []
  | None :: _ => None
  | Some x :: r => option_map (cons x) (sequence r)
  end.

Fixpoint in_shape (idx sh : list N) : bool :=
  match idx, sh with
  | [], [] => true
  | i :: idx', l :: sh' => (i <? l) && in_shape idx' sh'
  | _, _ => false
  end.

(* get: which leaf index does the view index resolve to (None = absent) *)
Fixpoint vget (v : view) (idx : list N) : option (list N) :=
  match v with
  | VTensor sh => if in_shape idx sh then Some idx else None
  | VRange v rs =>
      if negb (Nat.eqb (length idx) (length rs)) then None else
      match sequence (map2 (fun r '(i, l) => rmap (clip r l) i) rs (combine idx (vshape v))) with
      | Some idx' => vget v idx'
      | None => None
      end
  | VMask v ms =>
      if negb (Nat.eqb (length idx) (length ms)) then None else
      vget v (map2 (fun m '(i, l) => rmask (clip m l) i) ms (combine idx (vshape v)))
  | VReverse v fl =>
      if negb (Nat.eqb (length idx) (length fl)) then None else
      match sequence (map2 (fun (b : bool) '(i, l) =>
                 if b then (if i <? l then Some (l - 1 - i) else None) else Some i)
               fl (combine idx (vshape v))) with
      | Some idx' => vget v idx'
      | None => None
      end
  end.

(* well-formed construction: parameter lists have the source's dimensionality and the
   resulting lengths are non-zero (what the constructors check) *)
Fixpoint wf (v : view) : Prop :=
  match v with
  | VTensor sh => Forall (fun l => 0 < l) sh
  | VRange v rs => wf v /\ length rs = length (vshape v) /\ Forall (fun l => 0 < l) (vshape (VRange v rs))
  | VMask v ms => wf v /\ length ms = length (vshape v) /\ Forall (fun l => 0 < l) (vshape (VMask v ms))
  | VReverse v fl => wf v /\ length fl = length (vshape v)
  end.

(* per-dimension facts *)
Lemma rmap_clip_spec r l i :
  match rmap (clip r l) i with
  | Some j => i < len (clip r l) /\ j < l /\ j = i + start r
  | None => len (clip r l) <= i
  end.
Proof.
  unfold rmap, clip; cbn [len start].
  destruct (N.ltb_spec i (N.min (start r + len r) l - start r)); [|lia].
  split; [lia|]. split; lia.
Qed.

Lemma rmask_clip_spec m l i :
  (rmask (clip m l) i < l) <-> (i < l - len (clip m l)).
Proof.
  unfold rmask, clip; cbn [len start].
  destruct (N.ltb_spec i (start m)); lia.
Qed.


Lemma in_shape_length idx sh : in_shape idx sh = true -> length idx = length sh.
Proof.
  revert sh; induction idx as [|i idx IH]; intros [|l sh]; cbn [in_shape length]; intros H;
    try discriminate; auto.
  apply andb_prop in H as [_ H]. f_equal. auto.
Qed.

Lemma map2_length {A B C} (f : A -> B -> C) l1 l2 :
  length l1 = length l2 -> length (map2 f l1 l2) = length l1.
Proof. revert l2; induction l1; intros [|b l2]; cbn; intros; try lia. f_equal; auto. Qed.

Lemma range_dims sh : forall idx rs, length idx = length rs -> length rs = length sh ->
  match sequence (map2 (fun r '(i, l) => rmap (clip r l) i) rs (combine idx sh)) with
  | Some idx' => in_shape idx (map2 (fun r l => len (clip r l)) rs sh) = true /\
                 in_shape idx' sh = true
  | None => in_shape idx (map2 (fun r l => len (clip r l)) rs sh) = false
  end.
Proof.
  induction sh as [|l sh IHs]; intros [|i idx] [|r rs]; cbn [length]; intros H1 H2; try lia.
  - cbn. auto.
  - cbn [combine map2 sequence in_shape].
    pose proof (rmap_clip_spec r l i) as Hs. destruct (rmap (clip r l) i) as [j|].
    + specialize (IHs idx rs ltac:(lia) ltac:(lia)).
      destruct (sequence (map2 (fun r '(i, l) => rmap (clip r l) i) rs (combine idx sh))) as [idx'|];
        cbn [option_map in_shape].
      * destruct IHs as [A B]. rewrite A, B. destruct Hs as [H3 [H4 _]].
        apply N.ltb_lt in H3. apply N.ltb_lt in H4. rewrite H3, H4. auto.
      * rewrite IHs. apply andb_false_r.
    + apply N.ltb_ge in Hs. rewrite Hs. reflexivity.
Qed.

Lemma mask_dims sh : forall idx ms, length idx = length ms -> length ms = length sh ->
  in_shape (map2 (fun m '(i, l) => rmask (clip m l) i) ms (combine idx sh)) sh =
  in_shape idx (map2 (fun m l => l - len (clip m l)) ms sh).
Proof.
  induction sh as [|l sh IHs]; intros [|i idx] [|m ms]; cbn [length]; intros H1 H2; try lia.
  - reflexivity.
  - cbn [combine map2 in_shape]. rewrite (IHs idx ms) by lia.
    pose proof (rmask_clip_spec m l i) as Hs.
    destruct (N.ltb_spec (rmask (clip m l) i) l), (N.ltb_spec i (l - len (clip m l)));
      try reflexivity; exfalso; lia.
Qed.

Lemma reverse_dims sh : forall idx fl, length idx = length fl -> length fl = length sh ->
  match sequence (map2 (fun (b : bool) '(i, l) =>
             if b then (if i <? l then Some (l - 1 - i) else None) else Some i) fl (combine idx sh)) with
  | Some idx' => in_shape idx sh = in_shape idx' sh
  | None => in_shape idx sh = false
  end.
Proof.
  induction sh as [|l sh IHs]; intros [|i idx] [|b fl]; cbn [length]; intros H1 H2; try lia.
  - cbn. reflexivity.
  - cbn [combine map2 sequence in_shape].
    specialize (IHs idx fl ltac:(lia) ltac:(lia)).
    destruct b.
    + destruct (N.ltb_spec i l).
      * destruct (sequence _) as [idx'|]; cbn [option_map in_shape].
        -- rewrite IHs. destruct (N.ltb_spec (l - 1 - i) l); [reflexivity|lia].
        -- exact IHs.
      * reflexivity.
    + destruct (sequence _) as [idx'|]; cbn [option_map in_shape].
      * rewrite IHs. reflexivity.
      * rewrite IHs. apply andb_false_r.
Qed.

(* the contract, for every composition *)
Theorem present_iff v : wf v -> forall idx,
  (exists e, vget v idx = Some e) <-> in_shape idx (vshape v) = true.
Proof.
  induction v as [sh|v IH rs|v IH ms|v IH fl]; cbn [wf]; intros Hwf idx.
  - cbn [vget vshape]. destruct (in_shape idx sh); split; eauto; [intros [e H]|]; discriminate.
  - destruct Hwf as [Hw [Hlen _]]. specialize (IH Hw). cbn [vget vshape].
    destruct (Nat.eqb_spec (length idx) (length rs)) as [Hl|Hl]; cbn [negb].
    + pose proof (range_dims (vshape v) idx rs Hl Hlen) as Hgen.
      destruct (sequence _) as [idx'|].
      * destruct Hgen as [A B]. rewrite A. split; auto. intros _. apply IH. exact B.
      * rewrite Hgen. split; [intros [e H]|]; discriminate.
    + split; [intros [e H]; discriminate|]. intros H. exfalso. apply Hl.
      apply in_shape_length in H. rewrite map2_length in H by auto. exact H.
  - destruct Hwf as [Hw [Hlen _]]. specialize (IH Hw). cbn [vget vshape].
    destruct (Nat.eqb_spec (length idx) (length ms)) as [Hl|Hl]; cbn [negb].
    + rewrite IH. rewrite mask_dims by auto. tauto.
    + split; [intros [e H]; discriminate|]. intros H. exfalso. apply Hl.
      apply in_shape_length in H. rewrite map2_length in H by auto. exact H.
  - destruct Hwf as [Hw Hlen]. specialize (IH Hw). cbn [vget vshape].
    destruct (Nat.eqb_spec (length idx) (length fl)) as [Hl|Hl]; cbn [negb].
    + pose proof (reverse_dims (vshape v) idx fl Hl Hlen) as Hgen.
      destruct (sequence _) as [idx'|].
      * rewrite Hgen. apply IH.
      * rewrite Hgen. split; [intros [e H]|]; discriminate.
    + split; [intros [e H]; discriminate|]. intros H. exfalso. apply Hl.
      apply in_shape_length in H. lia.
Qed.
Print Assumptions present_iff.
