(* Design-time prototype of the C16 style: machine arithmetic with an explicit build mode, a
   faithful transcription of IndexRange::mask / clip as they are TODAY, `_refuted` witnesses found
   by kernel evaluation (these replay on the implementation: F5, F6), and the totality theorem for
   the repaired definitions over the whole usize domain. *)
From Coq Require Import NArith Lia Bool.
Open Scope N_scope.

Inductive mode := Debug | Release.
Inductive outcome (A : Type) := Ok (a : A) | Panic.
Arguments Ok {A}. Arguments Panic {A}.

Definition W : N := 2 ^ 64.
Definition usize (x : N) : Prop := x < W.

(* `a + b` on usize: overflow panics in a debug build, wraps in a release build *)
Definition add64 (m : mode) (a b : N) : outcome N :=
  if a + b <? W then Ok (a + b) else match m with Debug => Panic | Release => Ok ((a + b) mod W) end.

(* IndexRange::mask as written: if index < start { index } else { index + length } *)
Definition mask_old (m : mode) (start len index : N) : outcome N :=
  if index <? start then Ok index else add64 m index len.

(* TensorMask::get_reference on a 1-D source of length n, mask already clipped:
   present iff the masked index is < n *)
Definition mask_get_old (m : mode) (n start len index : N) : outcome (option N) :=
  match mask_old m start len index with
  | Ok j => Ok (if j <? n then Some j else None)
  | Panic => Panic
  end.

(* property: an index outside the view's length (n - len) is absent, never a panic, never an alias *)
Definition mask_get_spec (n start len index : N) : option N :=
  if index <? n - len then Some (if index <? start then index else index + len) else None.

(* F5, debug build: panics *)
Lemma mask_get_debug_refuted :
  exists n start len index, usize index /\ len <= n /\ start + len <= n /\
    mask_get_old Debug n start len index = Panic.
Proof. exists 3, 0, 1, (W - 1). unfold usize. repeat split; vm_compute; congruence. Qed.

(* F5, release build: the hidden (masked) element 0 is returned for index usize::MAX *)
Lemma mask_get_release_refuted :
  exists n start len index, usize index /\ len <= n /\ start + len <= n /\
    mask_get_old Release n start len index = Ok (Some 0) /\
    mask_get_spec n start len index = None.
Proof. exists 3, 0, 1, (W - 1). unfold usize. repeat split; vm_compute; congruence. Qed.

(* the repair: saturating add (one token in the Rust source) *)
Definition mask_new (start len index : N) : N :=
  if index <? start then index else N.min (index + len) (W - 1).
Definition mask_get_new (n start len index : N) : option N :=
  let j := mask_new start len index in if j <? n then Some j else None.

(* totality and exactness over the WHOLE usize domain, for every source that fits in memory
   (n < 2^63 elements: isize::MAX is the Vec limit) *)
Theorem mask_get_new_correct n start len index :
  usize index -> usize start -> usize len -> n < 2 ^ 63 -> start + len <= n ->
  mask_get_new n start len index = mask_get_spec n start len index.
Proof.
  unfold usize, mask_get_new, mask_new, mask_get_spec. intros Hi Hs Hl Hn Hsl.
  assert (Hw : W = 18446744073709551616) by reflexivity.
  assert (E63 : 2 ^ 63 = 9223372036854775808) by reflexivity.
  rewrite E63 in Hn. set (w := W) in *. clearbody w.
  destruct (N.ltb_spec index start).
  - destruct (N.ltb_spec index n), (N.ltb_spec index (n - len)); try reflexivity; lia.
  - destruct (N.min_spec (index + len) (w - 1)) as [[Hlt Hm]|[Hge Hm]]; rewrite Hm.
    + destruct (N.ltb_spec (index + len) n), (N.ltb_spec index (n - len)); try reflexivity; lia.
    + destruct (N.ltb_spec (w - 1) n), (N.ltb_spec index (n - len)); try reflexivity; lia.
Qed.

(* IndexRange::clip as written: end = start + length (overflow!), min with the bound, saturating sub *)
Definition clip_old (m : mode) (start len maxi : N) : outcome N :=
  match add64 m start len with
  | Ok e => Ok (N.min e maxi - start)
  | Panic => Panic
  end.

(* F6: lenient construction must clip whenever at least one index remains; debug panics,
   release yields length 0 although indexes 1 and 2 remain *)
Lemma clip_debug_refuted : clip_old Debug 1 (W - 1) 3 = Panic.
Proof. vm_compute. reflexivity. Qed.
Lemma clip_release_refuted : clip_old Release 1 (W - 1) 3 = Ok 0 /\ (N.min (1 + (W - 1)) 3 - 1 = 2).
Proof. split; vm_compute; reflexivity. Qed.
