(* Design-time prototype: Matrix::insert_column on the flat row-major storage —
   `for row in (0..rows).rev() { data.insert(row * columns + column, v) }` with the OLD column
   count — inserts v at position `column` of every row of the list-of-rows model. *)
From Coq Require Import List Arith Lia.
Import ListNotations.

Section Ins.
Variable A : Type.

(* Vec::insert *)
Definition ins (k : nat) (x : A) (l : list A) : list A := firstn k l ++ x :: skipn k l.

Definition insert_column_flat (rows cols column : nat) (v : A) (data : list A) : list A :=
  fold_left (fun d r => ins (r * cols + column) v d) (rev (seq 0 rows)) data.

Lemma ins_app_l k x a b : k <= length a -> ins k x (a ++ b) = ins k x a ++ b.
Proof.
  intros H. unfold ins. rewrite firstn_app, skipn_app.
  replace (k - length a) with 0 by lia. cbn [firstn skipn].
  rewrite app_nil_r. rewrite <- app_assoc. reflexivity.
Qed.

Lemma ins_app_r k x a b : ins (length a + k) x (a ++ b) = a ++ ins k x b.
Proof.
  unfold ins. rewrite firstn_app, skipn_app.
  replace (length a + k - length a) with k by lia.
  rewrite firstn_all2 by lia. rewrite skipn_all2 by lia. cbn [app].
  rewrite <- app_assoc. reflexivity.
Qed.

Lemma length_concat_uniform (rs : list (list A)) cols :
  Forall (fun r => length r = cols) rs -> length (concat rs) = length rs * cols.
Proof. induction 1; simpl; auto. rewrite app_length. lia. Qed.

(* the loop only ever touches the rows it has not passed yet *)
Lemma fold_prefix (rs : list (list A)) cols column v tail :
  Forall (fun r => length r = cols) rs -> column <= cols ->
  fold_left (fun d r => ins (r * cols + column) v d) (rev (seq 0 (length rs))) (concat rs ++ tail)
  = concat (map (ins column v) rs) ++ tail.
Proof.
  intros Hall Hc. revert tail. induction rs as [|last rs IH] using rev_ind; intros tail; [reflexivity|].
  apply Forall_app in Hall as [Hrs Hlast]. inversion Hlast as [|? ? Hl _]; subst.
  rewrite app_length. simpl length. rewrite Nat.add_1_r, seq_S, rev_app_distr. simpl rev.
  cbn [fold_left app]. rewrite concat_app. simpl concat. rewrite app_nil_r.
  (* the first iteration (the last row) lands inside `last` *)
  rewrite <- (app_assoc (concat rs) last tail).
  replace (length rs * length last + column) with (length (concat rs) + column)
    by (rewrite (length_concat_uniform rs (length last)) by auto; reflexivity).
  rewrite ins_app_r. rewrite (ins_app_l column v last tail) by lia.
  rewrite IH by auto.
  rewrite map_app, concat_app. simpl. rewrite app_nil_r, <- app_assoc. reflexivity.
Qed.

Theorem insert_column_refines (rs : list (list A)) cols column v :
  Forall (fun r => length r = cols) rs -> column <= cols ->
  insert_column_flat (length rs) cols column v (concat rs) = concat (map (ins column v) rs).
Proof.
  intros Hall Hc. unfold insert_column_flat.
  pose proof (fold_prefix rs cols column v [] Hall Hc) as H. rewrite !app_nil_r in H. exact H.
Qed.
End Ins.
Print Assumptions insert_column_refines.
