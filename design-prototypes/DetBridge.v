From mathcomp Require Import all_ssreflect all_algebra zify.
Set Implicit Arguments. Unset Strict Implicit. Unset Printing Implicit Defensive.
Import GRing.Theory.
Section Bridge.
Variable R : comRingType.
(* entry access of a list-of-rows matrix as a function *)
Variable M : nat -> nat -> R.

Definition del (T : Type) (i : nat) (s : seq T) := take i s ++ drop i.+1 s.

Lemma size_del (T : Type) i (s : seq T) : i < size s -> size (del i s) = (size s).-1.
Proof. move=> lt. rewrite /del size_cat size_take size_drop lt. lia. Qed.

Lemma nth_del (T : Type) (x0 : T) i (s : seq T) k :
  nth x0 (del i s) k = nth x0 s (bump i k).
Proof.
  rewrite /del nth_cat size_take /bump.
  have [Hi|Hi] := ltnP i (size s).
  - have [Hk|Hk] := ltnP k i.
    + by rewrite nth_take // add0n.
    + rewrite nth_drop add1n. congr (nth _ _ _). lia.
  - rewrite drop_oversize; last by lia.
    have [Hk|Hk] := ltnP k (size s).
    + rewrite nth_take; last by lia. have -> : (i <= k) = false by lia. by rewrite add0n.
    + rewrite nth_nil nth_default //. lia.
Qed.

Local Open Scope ring_scope.
(* Laplace expansion along the first remaining row r, over a list of remaining columns *)
Fixpoint detc (fuel : nat) (r : nat) (cols : seq nat) : R :=
  match fuel with
  | 0 => 1
  | f.+1 => \sum_(j < size cols) (-1) ^+ j * M r (nth 0%N cols j) * detc f r.+1 (del j cols)
  end.

Definition sub (n : nat) (r : nat) (cols : seq nat) : 'M[R]_n :=
  \matrix_(i, j) M (r + i) (nth 0%N cols j).

Lemma detc_det n r cols : size cols = n -> detc n r cols = \det (sub n r cols).
Proof.
  elim: n r cols => [|n IH] r cols Hs.
  - by rewrite /= det_mx00.
  - rewrite /= (expand_det_row _ ord0) Hs.
    apply: eq_bigr => j _.
    rewrite /cofactor mxE addn0 add0n -mulrA mulrCA. congr (_ * (_ * _)).
    rewrite IH; last by rewrite size_del ?Hs.
    congr (\det _). apply/matrixP => i k. rewrite !mxE nth_del. congr (M _ _).
    by rewrite /= /bump /= add1n addnS addSn.
Qed.
End Bridge.
